"""Interposers that let the real generator classes be instantiated without a
kernel: map creation and mmap are replaced by in-memory fakes (no /repo change)."""
import contextlib
import itertools

_fd = itertools.count(40)


@contextlib.contextmanager
def fake_maps():
    import ebpfcat.arraymap as am
    import ebpfcat.hashmap as hm
    saved = (am.create_map, am.mmap, getattr(hm, "create_map", None))
    created = []

    def create_map(*a, **k):
        fd = next(_fd)
        created.append((fd, a))
        return fd
    am.create_map = create_map
    am.mmap = lambda fd, size: bytearray(size)
    if saved[2] is not None:
        hm.create_map = create_map
    try:
        yield created
    finally:
        am.create_map, am.mmap = saved[0], saved[1]
        if saved[2] is not None:
            hm.create_map = saved[2]
