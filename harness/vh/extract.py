"""Translator part of the tie: constants and tables of /repo's working tree are
re-emitted as Lean on every run (lean/Ebv/Generated/Consts.lean).  Every
theorem that mentions a number mentions the generated constant, so editing a
constant in /repo re-checks the proofs against the new value."""
from . import core


def lean_list(xs):
    return "[" + ", ".join(str(x) for x in xs) + "]"


def constants():
    from ebpfcat import ethercat as ec
    c = {}
    P = ec.Packet
    for k in ("MAXSIZE", "ETHERNET_HEADER", "PACKET_HEADER", "PACKET_INDEX",
              "DATAGRAM_HEADER", "DATAGRAM_TAIL"):
        c[k] = int(getattr(P, k))
    order = list(ec.MachineState)
    c["msOrder"] = [m.value for m in order]
    for m in order:
        c["ms_" + m.name] = m.value
    for m in ec.ECCmd:
        c["cmd_" + m.name] = m.value
    c["sm_OUT"] = ec.SyncManager.OUT.value
    c["sm_IN"] = ec.SyncManager.IN.value
    lo, hi = ec.EtherCat.terminal_addr_range
    c["addrLo"], c["addrHi"] = lo, hi
    c["ethertype"] = ec.EtherCat.ethertype
    try:
        from ebpfcat import ebpfcat as eb
        c["logical_addr_inc"] = int(eb.SterilePacket.logical_addr_inc)
        c["MAX_PROGS"] = int(eb.FastEtherCat.MAX_PROGS)
    except Exception:
        pass
    try:
        from ebpfcat import ebpf
        c["FIXED_BASE"] = int(ebpf.FIXED_BASE)
    except Exception:
        pass
    return c


def render(c):
    out = ["/- REGENERATED from /repo on every run by harness/vh/extract.py; do not edit. -/",
           "namespace Ebv.Consts"]
    for k, v in c.items():
        if isinstance(v, list):
            out.append(f"def {k} : List Nat := {lean_list(v)}")
        else:
            out.append(f"def {k} : Nat := {v}")
    out.append("end Ebv.Consts")
    return "\n".join(out) + "\n"


def regenerate(ctx=None):
    txt = render(constants())
    d = core.LEAN / "Ebv" / "Generated"
    d.mkdir(parents=True, exist_ok=True)
    f = d / "Consts.lean"
    if not f.exists() or f.read_text() != txt:
        tmp = d / "Consts.lean.tmp"
        tmp.write_text(txt)
        tmp.replace(f)
    return txt


if __name__ == "__main__":
    print(regenerate())
