"""Translator part of the tie: constants and tables of /repo's working tree are
re-emitted as Lean on every run (lean/Ebv/Generated/Consts.lean).  Every
theorem that mentions a number mentions the generated constant, so editing a
constant in /repo re-checks the proofs against the new value."""
from . import core


def lean_list(xs):
    return "[" + ", ".join(str(x) for x in xs) + "]"


def constants():
    from ebpfcat import ethercat as ec
    c = {}
    P = ec.Packet
    for k in ("MAXSIZE", "ETHERNET_HEADER", "PACKET_HEADER", "PACKET_INDEX",
              "DATAGRAM_HEADER", "DATAGRAM_TAIL"):
        c[k] = int(getattr(P, k))
    order = list(ec.MachineState)
    c["msOrder"] = [m.value for m in order]
    for m in order:
        c["ms_" + m.name] = m.value
    for m in ec.ECCmd:
        c["cmd_" + m.name] = m.value
    c["sm_OUT"] = ec.SyncManager.OUT.value
    c["sm_IN"] = ec.SyncManager.IN.value
    lo, hi = _default_addr_range(ec)
    c["addrLo"], c["addrHi"] = lo, hi
    c["ethertype"] = ec.EtherCat.ethertype
    try:
        from ebpfcat import ebpfcat as eb
        c["logical_addr_inc"] = int(eb.SterilePacket.logical_addr_inc)
        c["MAX_PROGS"] = int(eb.FastEtherCat.MAX_PROGS)
        X = eb.EtherXDP
        c["dispatcher_minimumPacketSize"] = int(X.minimumPacketSize)
        c["dispatcher_rate"] = int(X.rate)
        c["dispatcher_INDEX0"] = int(X.INDEX0)
        c["dispatcher_ethertype"] = 0x88A4
        for nm in ("ethertype", "addr0", "cmd0", "index0", "data0"):
            c["dispatcher_off_" + nm] = int(X.__dict__[nm].address)
    except Exception:
        pass
    try:
        from ebpfcat import ebpf
        c["FIXED_BASE"] = int(ebpf.FIXED_BASE)
    except Exception:
        pass
    try:    # C20: FMMU register block, probed on the real Terminal.map_fmmu
        c.update(_fmmu_registers(ec))
    except Exception:
        pass
    try:    # C27: Valve class defaults (movingTime in whole seconds, safeState as 0/1)
        from ebpfcat import devices as dv
        if int(dv.Valve.movingTime) == dv.Valve.movingTime and dv.Valve.movingTime >= 0:
            c["valve_movingTime_s"] = int(dv.Valve.movingTime)
        c["valve_safeState"] = 1 if dv.Valve.safeState else 0
    except Exception:
        pass
    try:    # C17: word addresses of the identity fields in the SII image
        for m in ec.EEPROM:
            c["eeprom_" + m.name] = int(m.value)
    except Exception:
        pass
    try:    # C11: literals of Packet.append/assemble, probed on the real class
        c.update(_packet_literals(ec))
    except Exception:
        pass
    try:    # C16: mailbox types, CoE services and SDO command bytes
        c["mbxTypes"] = [m.value for m in ec.MBXType]
        for m in ec.MBXType:
            c["mbx_" + m.name] = int(m.value)
        for m in ec.CoECmd:
            c["coe_" + m.name] = int(m.value)
        for m in ec.ODCmd:
            c["od_" + m.name] = int(m.value)
    except Exception:
        pass
    try:    # C15: the mailbox counter cycle, observed on the real next_counter (ret % mbxMod + 1 from mbxStart)
        c.update(_mbx_cycle())
    except Exception:
        pass
    try:    # C18: the step of the logical address windows, observed on the real get_fmmu_addr / get_next_addr
        c.update(_fmmu_windows(ec))
    except Exception:
        pass
    try:    # C28: Pascal-string size of the EL6002 channel, chunk size and init marker of Serial.update (probed)
        c.update(_serial_literals())
    except Exception:
        pass
    try:    # C10/C09: bpf command numbers, map geometry and buffer lengths of the map entry points (probed under the emulated kernel)
        c.update(_map_calls())
    except Exception:
        pass
    try:    # C01: the Opcode table (aliases included), FIXED_BASE, the small-constant window (probed)
        c.update(_generator_literals())
    except Exception:
        pass
    try:    # C19: process-variable formats: letters, load/store opcode widths, the shift fmt_addr adds to _start (probed)
        c.update(_procvar_literals())
    except Exception:
        pass
    try:    # C23: randrange bounds of get_ethertype / FMMULock, bitmap size, window geometry (probed on real objects in a scratch dir)
        c.update(_parallel_literals())
    except Exception:
        pass
    try:    # C08/C29: struct sizes as the real fmtsize sees them, map-size rounding, FIXED_BASE (probed on the real collect)
        c.update(_arraymap_literals())
    except Exception:
        pass
    return c


def _mbx_cycle():
    """C15: run the real MailboxLock.next_counter 64 times under the lock"""
    import asyncio
    from ebpfcat import lock as lk

    async def cyc():
        m = lk.MailboxLock()
        async with m:
            return [m.next_counter() for _ in range(64)]
    seq = asyncio.run(cyc())
    return {"mbxStart": int(seq[0]), "mbxMod": int(max(seq))}


def render(c):
    out = ["/- REGENERATED from /repo on every run by harness/vh/extract.py; do not edit. -/",
           "namespace Ebv.Consts"]
    for k, v in c.items():
        if isinstance(v, list):
            out.append(f"def {k} : List Nat := {lean_list(v)}")
        else:
            out.append(f"def {k} : Nat := {v}")
    out.append("end Ebv.Consts")
    return "\n".join(out) + "\n"


def _constants_guarded(seconds=60):
    """a probe of the real code that never returns must not hold the build lock: give up after a minute"""
    import signal

    def boom(*a):
        raise TimeoutError("constant extraction did not finish")
    old = signal.signal(signal.SIGALRM, boom)
    signal.alarm(seconds)
    try:
        return constants()
    finally:
        signal.alarm(0)
        signal.signal(signal.SIGALRM, old)


def regenerate(ctx=None):
    txt = render(_constants_guarded())
    d = core.LEAN / "Ebv" / "Generated"
    d.mkdir(parents=True, exist_ok=True)
    f = d / "Consts.lean"
    if not f.exists() or f.read_text() != txt:
        tmp = d / "Consts.lean.tmp"
        tmp.write_text(txt)
        tmp.replace(f)
    try:    # C22 translation validation: the dispatcher's bytecode as a Lean term
        regenerate_programs()
    except Exception:
        pass
    try:    # C26/C21 translation validation: the fast-group programs (separate file: independent rebuilds)
        regenerate_programs_groups()
    except Exception:
        pass
    try:    # C07 translation validation: the per-format packet-variable programs
        regenerate_programs_fmt(ctx)
    except Exception:
        pass
    try:    # C06 translation validation: the compiled `+=` / `-=` statements
        regenerate_programs_xadd(ctx)
    except Exception:
        pass
    return txt


def _fmmu_registers(ec):
    """C20: register addresses `Terminal.map_fmmu` writes, obtained by running the real
    context manager on a two-FMMU terminal with a recording `write` (two read mappings take
    slot 1 then slot 0; leaving the second one writes the activate register of slot 0)."""
    import asyncio
    t = ec.Terminal.__new__(ec.Terminal)
    t.fmmu_used = [None, None]
    t.pdo_out_off, t.pdo_out_sz, t.pdo_in_off, t.pdo_in_sz = 0x1100, 2, 0x1180, 2
    rec = []

    async def write(start, *args, **kwargs):
        rec.append(start)
    t.write = write

    async def probe():
        a = t.map_fmmu(0x10000, False)
        ia = await a.__aenter__()
        b = t.map_fmmu(0x20000, False)
        ib = await b.__aenter__()
        await b.__aexit__(None, None, None)
        await a.__aexit__(None, None, None)
        return ia, ib
    ia, ib = asyncio.run(probe())
    if (ia, ib) != (1, 0) or len(rec) != 4:
        raise ValueError("unexpected FMMU probe")
    a1, a0, d0, d1 = rec
    if not (a0 < d0 < a1 < d1 and d1 - a1 == d0 - a0):
        raise ValueError("unexpected FMMU register layout")
    return {"fmmu_reg_base": a0, "fmmu_reg_stride": a1 - a0, "fmmu_reg_activate": d0 - a0}


def _packet_literals(ec):
    """C11: the literals inside `Packet.append`/`assemble` (datagram count limit, minimum frame
    size, pad byte), obtained by running the real class: empty datagrams are appended until the
    count limit refuses one, and an empty packet is assembled to see the padding."""
    P = ec.Packet
    p = P()
    n = 0
    while n < 1000:
        if p.size + P.DATAGRAM_HEADER + P.DATAGRAM_TAIL > P.MAXSIZE:
            raise ValueError("size limit reached before the count limit")
        try:
            p.append(ec.ECCmd.NOP, b"", 0, 0, 0)
        except OverflowError:
            break
        n += 1
    else:
        raise ValueError("no datagram count limit found")
    frame = P().assemble(0)
    if len(frame) <= P.PACKET_HEADER or len(set(frame[P.PACKET_HEADER:])) != 1:
        raise ValueError("unexpected padding of the empty packet")
    return {"MAX_DATAGRAMS": n, "MIN_FRAME": len(frame), "PAD_BYTE": frame[-1]}


def _fmmu_windows(ec):
    """C18: `EtherCat.get_fmmu_addr` and `FMMULock.get_next_addr` are called three times on real
    objects (the lock object without its file: only `base_addr` is set); the constant step between
    the returned addresses is the window size, the first address of a fresh master its first window."""
    from ebpfcat import lock as lk
    e = ec.EtherCat("c18")
    a = [e.get_fmmu_addr() for _ in range(3)]
    L = lk.FMMULock.__new__(lk.FMMULock)
    L.base_addr = 1 << 22
    b = [L.get_next_addr() for _ in range(3)]
    if a[1] - a[0] != a[2] - a[1] or b[1] - b[0] != b[2] - b[1] or a[1] < a[0] or b[1] < b[0] or a[0] < a[1] - a[0]:
        raise ValueError("logical address windows do not advance by a constant step")
    return {"fmmu_window_first": int(a[0]), "fmmu_window_inc": int(a[1] - a[0]), "fmmu_lock_inc": int(b[1] - b[0])}




def _serial_literals():
    """C28: the `23p` fields of `EL6002.Channel` give the Pascal-string size; the chunk size of
    `os.read(self.out_read, 22)` and the init marker `b'A'` are literals inside `Serial.update`, so they
    are observed on a real `Serial` object (real pipes, process image = a bytearray): the init
    handshake is answered, the byte that arrives on the application pipe is the marker, and with 64
    bytes waiting in the transmit pipe the length of `current_transmit` is the chunk size."""
    import os
    import struct
    from ebpfcat import serial, terminals
    from ebpfcat.ethercat import SyncManager
    ch = terminals.EL6002.__dict__["channel1"].struct
    so, si = ch.__dict__["out_string"], ch.__dict__["in_string"]
    if so.size != si.size or not so.size.endswith("p") or so.position != si.position:
        raise ValueError("unexpected EL6002 string fields")
    size = struct.calcsize(so.size)
    term = terminals.EL6002.__new__(terminals.EL6002)

    class G:
        current_data = bytearray(2 * (size + 1))
        pdo_assign = {term: {SyncManager.IN: 0, SyncManager.OUT: size + 1}}
    dev = serial.Serial(term.channel1)
    try:
        dev.sync_group = G()
        G.current_data[0] = 1 << ch.__dict__["init_accept"].size
        dev.update()
        marker = os.read(dev.in_read, 16)
        G.current_data[0] = 0
        os.write(dev.out_write, bytes(64))
        dev.update()
        n = len(dev.current_transmit)
    finally:
        for fd in (dev.in_read, dev.in_write, dev.out_read, dev.out_write):
            try:
                os.close(fd)
            except OSError:
                pass
    if len(marker) != 1 or not dev.connected:
        raise ValueError("unexpected Serial init handshake")
    return {"serial_pstr_size": int(size), "serial_read_max": int(n), "serial_init_byte": int(marker[0])}


def _map_calls():
    """C10/C09: drive the real map entry points once under the emulated kernel of vh/props/c10.py and
    record the command numbers they issue, the geometry they give to create_map and the lengths of the
    buffers they pass (hash variable read with format "B": the value buffer must not follow the format)."""
    from ebpfcat.bpf import MapType, MapFlags
    from ebpfcat.hashmap import Dict
    from .props import c10
    out = {}
    for k in ("HASH", "ARRAY", "PROG_ARRAY", "PERCPU_ARRAY", "LRU_HASH"):
        out["mt_" + k] = MapType[k].value
    out["mf_MMAPABLE"] = MapFlags.MMAPABLE.value
    K, _, _, _ = c10.run_impl({"possible": 2, "online": 2, "decl": {"kind": "hashvars", "vars": [["B", 0]]},
                               "calls": [["get", 0], ["set", 0, 1]]})
    (_, t, ks, vs, _, _), = K.created
    (cu, _, kl0, vl0, _), (cl, _, kl1, vl1, _), (cu2, _, kl2, vl2, _) = K.log
    if t != MapType.HASH.value or cu != cu2 or kl0 != kl1 or kl1 != kl2 or vl0 != vl2:
        raise ValueError("unexpected hash variable probe")
    out.update(bpf_LOOKUP=cl, bpf_UPDATE=cu, hv_key_size=ks, hv_value_size=vs, hv_key_len=kl1, hv_get_len=vl1, hv_set_len=vl2,
               hv_max_ordinal=256 ** kl1 - 1)
    K, _, _, _ = c10.run_impl({"possible": 2, "online": 2, "decl": {"kind": "dict", "key": ["H"], "value": ["B"], "size": 3, "lru": False},
                               "calls": [["setitem", [1], [2]], ["pop", [1]], ["setitem", [1], [2]], ["iter"], ["del", [1]]]})
    cmds = [e[0] for e in K.log]
    if len(cmds) != 6 or cmds[0] != cu or cmds[2] != cu or cmds[3] != cmds[4]:
        raise ValueError("unexpected Dict probe")
    out.update(dict_pop_cmd=cmds[1], bpf_NEXT_KEY=cmds[3], bpf_DELETE=cmds[5], bpf_LOOKUP_DELETE=21,
               dict_default_size=Dict(None, None).size)
    K, _, _, _ = c10.run_impl({"possible": 3, "online": 3, "decl": {"kind": "percpu", "fmts": ["B"]}, "calls": [["read"]]})
    (_, _, ks, _, mx, _), = K.created
    out.update(arr_key_size=ks, arr_key_len=K.log[0][2], arr_max_entries=mx)
    K, _, _, _ = c10.run_impl({"possible": 2, "online": 2, "decl": {"kind": "progarray"}, "calls": [["register", 0]]})
    (_, _, ks, vs, mx, _), = [m for m in K.created if m[1] == MapType.PROG_ARRAY.value]
    (c1, _, k1, v1, _), (c2, _, k2, v2, _), (c3, _, k3, _, _) = K.log
    if (c1, c2, c3) != (cl, cu, out["bpf_DELETE"]) or k1 != k2 or k2 != k3:
        raise ValueError("unexpected register_sync_group probe")
    out.update(prog_key_size=ks, prog_value_size=vs, prog_max_entries=mx, prog_key_len=k1, prog_lookup_len=v1, prog_update_len=v2)
    return out


def _generator_literals():
    """C01: every member of `ebpf.Opcode` (aliases such as H == REG included) as `op_<NAME>`, the fixed-point
    base, and the window of `Constant.small_constant` found by bisection on the real property (the bounds are
    literals inside the property; the window is assumed to be one interval around 0)."""
    from ebpfcat import ebpf
    c = {}
    for name, m in ebpf.Opcode.__members__.items():
        c["op_" + name] = int(m.value)
    c["FIXED_BASE"] = int(ebpf.Expression.FIXED_BASE)
    small = lambda v: bool(ebpf.Constant(None, v).small_constant)
    if not small(0):
        raise ValueError("0 is not a small constant")
    lo, hi = 0, 1 << 70          # largest small non-negative value
    while hi - lo > 1:
        mid = (lo + hi) // 2
        lo, hi = (mid, hi) if small(mid) else (lo, mid)
    c["small_hi"] = lo + 1       # exclusive upper bound
    lo2, hi2 = -(1 << 70), 0     # smallest small value
    while hi2 - lo2 > 1:
        mid = (lo2 + hi2) // 2
        lo2, hi2 = (lo2, mid) if small(mid) else (mid, hi2)
    c["small_lo_neg"] = -hi2     # the lower bound is -small_lo_neg (inclusive)
    return c


def _procvar_literals():
    """C19: for the letters a process variable can have, the width of the load/store opcode `fmt_to_opcode` selects and
    `struct.calcsize('<'+letter)`; the register `PacketVar` addresses are relative to; and, on a real `PacketVar` of a
    terminal whose sync group assigned base 100 and whose position is 7, what `_start` and `fmt_addr` return."""
    import struct
    from ebpfcat import ebpf, ebpfcat as eb
    from ebpfcat.ethercat import SyncManager
    letters = "BHIQbhiq"
    wid = {ebpf.Opcode.B: 1, ebpf.Opcode.H: 2, ebpf.Opcode.W: 4, ebpf.Opcode.DW: 8}
    out = {"pv_fmt_chars": [ord(ch) for ch in letters],
           "pv_fmt_widths": [wid[ebpf.fmt_to_opcode(ch)] for ch in letters],
           "pv_fmt_calcsize": [struct.calcsize("<" + ch) for ch in letters],
           "pv_base_register": int(eb.PacketVar.base_register)}
    term = object()

    class G:
        pdo_assign = {term: {SyncManager.IN: 100}}

    class D:
        sync_group = G()
    pv = eb.PacketVar(term, SyncManager.IN, 7, "H")
    start = pv._start(D())
    fmt, addr = pv.fmt_addr(D())
    bit = eb.PacketVar(term, SyncManager.IN, 7, 5).fmt_addr(D())
    if fmt != "H" or bit[0] != (5, 1) or bit[1] != addr:
        raise ValueError("unexpected PacketVar.fmt_addr")
    out["pv_start_probe"] = int(start)       # base 100, position 7
    out["pv_addr_probe"] = int(addr)
    return out


def _parallel_literals():
    """C23: `ParallelEtherCat.get_ethertype` is run on a scratch lock directory in which the default
    ethertype is taken (the recorded `randrange` arguments are the ethertype range); `FMMULock` is
    created twice on a scratch file (first: creator, bitmap size and first window; second: recorded
    `randrange` arguments = number of process slots, returned slot 5 gives the window size);
    `get_next_addr` gives the per-sync-group step."""
    import os
    import tempfile
    from ebpfcat import ebpfcat as eb, lock as lk
    rec = {}
    with tempfile.TemporaryDirectory(prefix="c23_probe_") as d:
        open(f"{d}/{eb.EtherCat.ethertype}.lock", "w").close()
        pe = eb.ParallelEtherCat.__new__(eb.ParallelEtherCat)
        saved = eb.randrange, lk.randrange
        try:
            def rr_et(a, b):
                rec["et"] = (a, b)
                return a
            eb.randrange = rr_et
            name = pe.get_ethertype(d)
            if name != f"{rec['et'][0]}.lock" or pe.ethertype != rec["et"][0]:
                raise ValueError("unexpected get_ethertype")

            draws = iter([1, 5] + list(range(6, 500)))   # distinct draws: a repeated one is rejected as taken

            def rr_fm(a, b):
                rec["fm"] = (a, b)
                return next(draws)
            lk.randrange = rr_fm
            f1 = lk.FMMULock(f"{d}/x.fmmu")
            size = os.path.getsize(f"{d}/x.fmmu")
            first = f1.base_addr
            f2 = lk.FMMULock(f"{d}/x.fmmu")
            base5 = f2.base_addr
            step = f2.get_next_addr() - base5
            os.close(f1.fd)
            os.close(f2.fd)
        finally:
            eb.randrange, lk.randrange = saved
    if rec["fm"][0] != 1 or base5 % 5 or first * 5 != base5 or size * 8 != rec["fm"][1]:
        raise ValueError("unexpected FMMULock geometry")
    return {"etLo": int(rec["et"][0]), "etHi": int(rec["et"][1]), "fmSize": int(size), "fmProcs": int(rec["fm"][1]),
            "fmWindow": int(base5 // 5), "fmGroup": int(step)}


def _arraymap_literals():
    """C08/C29: sizes of the single struct letters as the real `fmtsize` reports them (order bBhHiIqQ),
    the size of the fixed-point format `x`, FIXED_BASE, and the granularity `ArrayMap.collect` rounds the
    map size up to (probed: a map with one 1-byte variable, and one with a 9-byte one)."""
    from ebpfcat import ebpf as eb
    from ebpfcat.arraymap import ArrayMap
    sizes = [int(eb.fmtsize(ch)) for ch in "bBhHiIqQ"]

    def probe(fmt):
        m = ArrayMap()
        cls = type("P", (eb.SubProgram,), {"v": m.globalVar(fmt)})
        holder = type("H", (), {"subprograms": []})()
        prog = cls()
        holder.subprograms = [prog]
        holder.__class__ = type("H2", (), {})
        return int(m.collect(holder))
    a, b = probe("B"), probe("9B")
    if a <= 0 or b != 2 * a or a < 9 - a:
        raise ValueError("unexpected ArrayMap.collect rounding")
    # native alignment of each letter as fmtsize/calcsize pads it inside a multi-member format ("bI" -> 8)
    aligns = [int(eb.fmtsize("b" + ch)) - int(eb.fmtsize(ch)) for ch in "bBhHiIqQ"]
    return {"arraymap_fmtsizes": sizes, "arraymap_aligns": aligns, "arraymap_fmtsize_x": int(eb.fmtsize("x")),
            "arraymap_FIXED_BASE": int(eb.Expression.FIXED_BASE), "arraymap_align": a}


def render_programs():
    """C22 translation validation: the real dispatcher bytecode (EtherXDP assembled from /repo's working tree by
    progs.ether_xdp) as a Lean instruction list plus the map geometry the proof refers to"""
    head = ["/- REGENERATED from /repo on every run by harness/vh/extract.py (render_programs); do not edit. -/",
            "import Ebv.Model.Ebpf", "namespace Ebv.Programs", "open Ebv.Ebpf"]
    try:
        from . import progs, interp
        P = progs.ether_xdp()

        def imm(i):     # the fd the fake kernel hands out depends on how many maps the process made before: canonical 40
            pseudo = interp.opval(i.opcode) == 0x18 and int(i.src) == 1 and int(i.imm) == P["var_fd"]
            return 40 if pseudo else int(i.imm)
        rows = [f"  \u27e8{interp.opval(i.opcode)}, {int(i.dst)}, {int(i.src)}, {int(i.off)}, {imm(i)}\u27e9" for i in P["insns"]]
        geo = {"etherXdp_varFd": 40, "etherXdp_varSize": P["var_size"], "etherXdp_offCounters": P["off_counters"],
               "etherXdp_offDropcounter": P["off_dropcounter"], "etherXdp_programsFd": P["programs_fd"]}
        body = ["def etherXdp : List Insn := [", ",\n".join(rows) + "]"]
    except Exception:
        geo = {"etherXdp_varFd": 0, "etherXdp_varSize": 0, "etherXdp_offCounters": 0, "etherXdp_offDropcounter": 0,
               "etherXdp_programsFd": 0}
        body = ["def etherXdp : List Insn := []"]
    body += [f"def {k} : {'Int' if k.endswith('Fd') else 'Nat'} := {int(v)}" for k, v in geo.items()]
    return "\n".join(head + body + ["end Ebv.Programs"]) + "\n"


def regenerate_programs():
    """write lean/Ebv/Generated/Programs.lean, only when its content changes (keeps lake's build cache valid)"""
    txt = render_programs()
    d = core.LEAN / "Ebv" / "Generated"
    d.mkdir(parents=True, exist_ok=True)
    f = d / "Programs.lean"
    if not f.exists() or f.read_text() != txt:
        tmp = d / "Programs.lean.tmp"
        tmp.write_text(txt)
        tmp.replace(f)
    return txt


def _lean_prog(name, P, extra):
    """one generated program: instruction list (the fake map fd canonicalised to 40) and its geometry as Lean defs"""
    from . import interp

    def imm(i):
        pseudo = interp.opval(i.opcode) == 0x18 and int(i.src) == 1 and int(i.imm) == P["var_fd"]
        return 40 if pseudo else int(i.imm)
    rows = [f"  \u27e8{interp.opval(i.opcode)}, {int(i.dst)}, {int(i.src)}, {int(i.off)}, {imm(i)}\u27e9" for i in P["insns"]]
    pk = P["sg"].packet
    writers = [(s + 14, e + 14 - 2, int(c.value), int(pk.counters[e - 2])) for s, e, c in pk.on_the_fly]
    out = [f"def {name} : List Insn := [", ",\n".join(rows) + "]",
           f"def {name}_varFd : Int := 40", f"def {name}_varSize : Nat := {int(P['var_size'])}",
           f"def {name}_offWkcErrors : Nat := {int(P['off_wkc_errors'])}", f"def {name}_size : Nat := {int(pk.size)}",
           f"def {name}_writers : List (Nat \u00d7 Nat \u00d7 Nat \u00d7 Nat) := [" + ", ".join(str(w) for w in writers) + "]"]
    out += [f"def {name}_{k} : Nat := {int(v)}" for k, v in extra.items()]
    return out


FAST_LAYOUTS = {"fastA": [[1, 5, 4, 1]], "fastB": [[0, 4, 2, 1], [1, 5, 4, 1], [1, 11, 6, 3]],
                "fastC": [[1, 8, 2, 2], [1, 5, 8, 1]]}


def render_programs_groups():
    """C26/C21 translation validation: the real fast-group programs (Motor on the EL7041 layout; bare groups of three
    packet layouts) as Lean instruction lists with their geometry; a program that cannot be assembled becomes `[]`"""
    head = ["/- REGENERATED from /repo on every run by harness/vh/extract.py (render_programs_groups); do not edit. -/",
            "import Ebv.Model.Ebpf", "namespace Ebv.Programs", "open Ebv.Ebpf"]
    from . import progs
    body = []
    try:
        P = progs.motor_group()
        extra = {"off_" + k: v for k, v in P["vars"].items()}
        extra.update({"inBase": P["in_base"], "outBase": P["out_base"]})
        body += _lean_prog("motorGroup", P, extra)
    except Exception:
        body += ["def motorGroup : List Insn := []"]
    for name, lay in FAST_LAYOUTS.items():
        try:
            body += _lean_prog(name, progs.bare_fast_group(lay), {})
        except Exception:
            body += [f"def {name} : List Insn := []"]
    return "\n".join(head + body + ["end Ebv.Programs"]) + "\n"


def regenerate_programs_groups():
    """write lean/Ebv/Generated/ProgramsGroups.lean only when its content changes"""
    txt = render_programs_groups()
    d = core.LEAN / "Ebv" / "Generated"
    d.mkdir(parents=True, exist_ok=True)
    f = d / "ProgramsGroups.lean"
    if not f.exists() or f.read_text() != txt:
        tmp = d / "ProgramsGroups.lean.tmp"
        tmp.write_text(txt)
        tmp.replace(f)
    return txt


# ---- C07 translation validation: the per-format packet-variable programs ---------------------------------------
FMT_KINDS = [("r64", "read64", 0), ("r32", "read32", 0), ("rar", "readarr", 0), ("wrg", "writereg", 1), ("war", "writearr", 1),
             ("wc1", "writeconst", 2), ("wc2", "writeconst", 2), ("ia1", "iadd", 3), ("ia2", "iadd", 3)]
FMT_ARGS = {"wc1": 0xf1e2d3c4b5a69788, "wc2": 0x12, "ia1": 5, "ia2": -300}
FMT_SIZES = [40, 14, 30, 63]


def fmt_family():
    """the finite family C07 quantifies over, as c07.py enumerates it (c07.FMTS x statement shapes), each member with a
    fixed guard size N and offset p (varied deterministically over the family, the last guarded offset included)"""
    from .props import c07
    fam = []
    for fi, fmt in enumerate(c07.FMTS):
        c = fmt[-1]
        n = c07.SZ[c.lower()]
        order = {"": 0, "<": 1}.get(fmt[:-1], 2)
        och = {"": "n", "<": "l", ">": "g", "!": "x"}[fmt[:-1]]
        for ki, (tag, op, kind) in enumerate(FMT_KINDS):
            if op in ("readarr", "writearr") and (len(fmt) == 2 or c.islower()):
                continue
            N = FMT_SIZES[(fi + ki) % 4]
            p = [3, 0, N + 1 - n, 6][(fi // 8 + fi + 2 * ki) % 4]
            arg = None
            if tag in FMT_ARGS:
                arg = c07.wrap(fmt, FMT_ARGS[tag]) if kind == 2 else FMT_ARGS[tag]
            fam.append({"id": f"{tag}_{och}_{'s' if c.islower() else 'u'}{n}", "name": f"{op} {fmt}" + ("" if arg is None else f" {arg}"),
                        "fmt": fmt, "op": op, "kind": kind, "n": n, "signed": c.islower(), "order": order, "long": op != "read32",
                        "reg": 2 if kind == 0 else 3 if kind == 1 else 0, "p": p, "N": N, "arg": arg})
    return fam


def render_programs_fmt():
    """C07 translation validation: for every member of `fmt_family()` the REAL program (XDP subclass with a PacketVar,
    assembled by /repo's generator through c07.build) as a Lean instruction list, plus the table `fmtTable` of the
    members (format, shape, register, offset, guard size, constant) the proofs in Ebv/Props/C07TV*.lean quantify over;
    a program the generator refuses becomes `[]` (the proofs then fail)"""
    from . import interp
    from .props import c07
    head = ["/- REGENERATED from /repo on every run by harness/vh/extract.py (render_programs_fmt); do not edit. -/",
            "import Ebv.Model.Ebpf", "namespace Ebv.Programs", "open Ebv.Ebpf",
            "/-- one member of the packet-variable family: kind 0 read / 1 write from register / 2 write constant / 3 in-place add;",
            "order 0 native / 1 `<` / 2 `>` or `!`; `reg` destination (reads) or source (register writes) -/",
            "structure FmtProg where", "  name : String", "  kind : Nat", "  n : Nat", "  signed : Bool", "  order : Nat",
            "  long : Bool", "  reg : Nat", "  p : Nat", "  N : Nat", "  arg : Int", "  prog : List Insn"]
    from ebpfcat.xdp import XDPExitCode
    body, groups = [f"def xdpPass : Nat := {int(XDPExitCode.PASS.value)}"], {}
    for m in fmt_family():
        try:
            code = c07.build(m["fmt"], m["op"], m["p"], m["arg"], m["N"], "min")
            if isinstance(code, str):
                raise ValueError(code)
            rows = [f"⟨{interp.opval(i.opcode)}, {int(i.dst)}, {int(i.src)}, {int(i.off)}, {int(i.imm)}⟩" for i in code]
        except Exception:
            rows = []
        body.append(f"def fmt_{m['id']} : List Insn := [" + ", ".join(rows) + "]")
        b = lambda x: "true" if x else "false"
        body.append(f"def fmtE_{m['id']} : FmtProg := ⟨\"{m['name']}\", {m['kind']}, {m['n']}, {b(m['signed'])}, {m['order']}, "
                    f"{b(m['long'])}, {m['reg']}, {m['p']}, {m['N']}, {0 if m['arg'] is None else int(m['arg'])}, fmt_{m['id']}⟩")
        groups.setdefault(m["id"].split("_")[0], []).append(f"fmtE_{m['id']}")
    for tag, names in groups.items():
        body.append(f"def fmtTable_{tag} : List FmtProg := [" + ", ".join(names) + "]")
    body.append("def fmtTable : List FmtProg := " + " ++ ".join(f"fmtTable_{t}" for t in groups))
    return "\n".join(head + body + ["end Ebv.Programs"]) + "\n"


def regenerate_programs_fmt(ctx=None):
    """write lean/Ebv/Generated/ProgramsFmt.lean only when its content changes (keeps lake's build cache valid)"""
    txt = render_programs_fmt()
    d = core.LEAN / "Ebv" / "Generated"
    d.mkdir(parents=True, exist_ok=True)
    f = d / "ProgramsFmt.lean"
    if not f.exists() or f.read_text() != txt:
        tmp = d / "ProgramsFmt.lean.tmp"
        tmp.write_text(txt)
        tmp.replace(f)
    return txt


# ---- C06 translation validation: the family of compiled `+=` / `-=` statements ---------------------------------
XADD_FMT_TAG = {"i": "s4", "I": "u4", "q": "s8", "Q": "u8", "x": "fx"}
XADD_KIND_TAG = {"const": "c", "reg": "r", "expr": "e"}
XADD_FD = 40        # the fake map fd is canonicalised (fsim hands out increasing numbers)


def xadd_consts(fmt):
    """the constants c06.run draws from (its list is local to run())"""
    return [0, 1, 5, 255, 1000, 0x7fffffff // 100000 if fmt == "x" else 0x7fffffff]


def xadd_family():
    """the finite family C06 quantifies over, as c06.py enumerates it: c06.FAMILY (format x amount kind x sign) x
    c06.ADDR_KINDS on shared array-map memory with every constant c06.run draws, plus the local variable (constant 7)"""
    from .props import c06
    fam = []
    for fmt, kind, sign in c06.FAMILY:
        for addr in c06.ADDR_KINDS:
            for const in (xadd_consts(fmt) if kind != "reg" else [5]):
                fam.append({"fmt": fmt, "kind": kind, "sign": sign, "addr": addr, "const": const, "local": False})
        fam.append({"fmt": fmt, "kind": kind, "sign": sign, "addr": "var", "const": 7, "local": True})
    for m in fam:
        mem = "loc" if m["local"] else m["addr"][:3]
        cst = "" if m["kind"] == "reg" else str(m["const"])
        m["id"] = f"{mem}_{XADD_FMT_TAG[m['fmt']]}_{XADD_KIND_TAG[m['kind']]}{'p' if m['sign'] > 0 else 'n'}{cst}"
        m["group"] = f"{mem}_{XADD_FMT_TAG[m['fmt']]}"
        amt = {"const": str(m["const"]), "reg": "r8", "expr": f"r8 * 3 + {m['const']}"}[m["kind"]]
        var = {"var": "v", "sum": "m[r7 + &v]", "computed": "m[r7 + r6]"}[m["addr"]]
        m["name"] = f"{'local' if m['local'] else 'map'} {m['fmt']}: {var} {'+=' if m['sign'] > 0 else '-='} {amt}"
    return fam


def _xadd_member(m):
    """assemble the REAL statement with /repo's generator (through c06.build) and describe it: instruction rows, where the
    variable lives, and the untrusted hints the proofs re-check (position of the XADD, steps executed before it)"""
    from . import interp
    from .props import c06
    info = c06.build(m["fmt"], m["kind"], m["sign"], m["const"], local=m["local"], addr=m["addr"])
    insns = [(interp.opval(i.opcode), int(i.dst), int(i.src), int(i.off), int(i.imm)) for i in info["insns"]]
    fd = info["fd"]
    if fd is not None:      # canonical fd in the pseudo map load
        insns = [(op, d, s, o, XADD_FD if (op == 0x18 and s == 1 and im == fd) else im) for op, d, s, o, im in insns]
    xs = [k for k, i in enumerate(insns) if i[0] in (0xc3, 0xdb)]
    xpos = xs[0] if xs else 0
    steps = 0
    try:                    # instructions executed before the XADD when one instance runs alone
        if m["local"]:
            mach = interp.Machine(info["insns"], [], {})
            mach.wr(1, 0); mach.wr(8, 5); mach.wr(6, info["off"])
        else:
            _, (mach,) = c06.make_threads(info, m["fmt"], 1, [5])
        mach.run()
        steps = mach.trace.index(xpos)
    except Exception:
        pass
    xi = insns[xpos] if xs else (0, 0, 0, 0, 0)
    off, other = int(info["off"]), int(info["off_other"])
    return {"insns": insns, "xpos": xpos, "steps": steps, "xdst": xi[1], "xsrc": xi[2], "xoff": xi[3],
            "voff": -off if m["local"] else off, "other": -other if m["local"] else other,
            "size": 0 if info["size"] is None else int(info["size"])}


def render_programs_xadd():
    """C06 translation validation: every member of `xadd_family()` as a Lean instruction list plus the table `xaddTable`
    (where the variable lives, its width, the amount description) that the proofs in Ebv/Props/C06TV*.lean quantify over;
    a statement the generator refuses becomes `[]` (the proofs then fail)"""
    head = ["/- REGENERATED from /repo on every run by harness/vh/extract.py (render_programs_xadd); do not edit. -/",
            "import Ebv.Model.Ebpf", "namespace Ebv.Programs", "open Ebv.Ebpf",
            "/-- one compiled `v += a` / `v -= a` (C06): `loc` variable on the stack (else in the value of array map `fd`, `size` bytes);",
            "`addr` 0 declared variable / 1 `m[base + const]` / 2 `m[base + register]`; `n` width in bytes; `voff` offset of the",
            "variable in the map value (local: distance below r10); `other` the same for the neighbouring variable the rest of the",
            "program writes; amount: `kind` 0 constant `const` / 1 register `areg` / 2 expression `areg * mul + const`, negated for",
            "`-=` (`neg`), times `scale` (fixed-point format x); hints re-checked by the proofs: the XADD is `prog[xpos]` with",
            "registers `xdst`, `xsrc` and offset `xoff`; `steps` instructions run before it -/",
            "structure XaddProg where", "  name : String", "  loc : Bool", "  addr : Nat", "  n : Nat", "  voff : Nat", "  other : Nat",
            "  kind : Nat", "  neg : Bool", "  const : Int", "  mul : Int", "  scale : Int", "  areg : Nat", "  fd : Int", "  size : Nat",
            "  xpos : Nat", "  steps : Nat", "  xdst : Nat", "  xsrc : Nat", "  xoff : Int", "  prog : List Insn",
            "deriving DecidableEq"]
    body, groups = [], {}
    b = lambda x: "true" if x else "false"
    for m in xadd_family():
        try:
            d = _xadd_member(m)
        except Exception:
            d = {"insns": [], "xpos": 0, "steps": 0, "xdst": 0, "xsrc": 0, "xoff": 0, "voff": 0, "other": 0, "size": 0}
        rows = [f"⟨{op}, {dst}, {src}, {off}, {imm}⟩" for op, dst, src, off, imm in d["insns"]]
        body.append(f"def xadd_{m['id']} : List Insn := [" + ", ".join(rows) + "]")
        body.append(f"def xaddE_{m['id']} : XaddProg := ⟨\"{m['name']}\", {b(m['local'])}, {('var', 'sum', 'computed').index(m['addr'])}, "
                    f"{4 if m['fmt'] in 'iI' else 8}, {d['voff']}, {d['other']}, {('const', 'reg', 'expr').index(m['kind'])}, "
                    f"{b(m['sign'] < 0)}, {m['const']}, 3, {100000 if m['fmt'] == 'x' else 1}, 8, {XADD_FD}, {d['size']}, "
                    f"{d['xpos']}, {d['steps']}, {d['xdst']}, {d['xsrc']}, {d['xoff']}, xadd_{m['id']}⟩")
        groups.setdefault(m["group"], []).append(f"xaddE_{m['id']}")
    for tag, names in groups.items():
        body.append(f"def xaddTable_{tag} : List XaddProg := [" + ", ".join(names) + "]")
    body.append("def xaddTable : List XaddProg := " + " ++ ".join(f"xaddTable_{t}" for t in groups))
    return "\n".join(head + body + ["end Ebv.Programs"]) + "\n"


def regenerate_programs_xadd(ctx=None):
    """write lean/Ebv/Generated/ProgramsXadd.lean only when its content changes (keeps lake's build cache valid)"""
    txt = render_programs_xadd()
    d = core.LEAN / "Ebv" / "Generated"
    d.mkdir(parents=True, exist_ok=True)
    f = d / "ProgramsXadd.lean"
    if not f.exists() or f.read_text() != txt:
        tmp = d / "ProgramsXadd.lean.tmp"
        tmp.write_text(txt)
        tmp.replace(f)
    return txt


def _default_addr_range(ec):
    """C25: the address range a master uses when none was configured, observed on a freshly constructed plain master
    (wherever the library keeps the default: class attribute, instance attribute, constructor default)"""
    lo, hi = ec.EtherCat("probe").terminal_addr_range
    return int(lo), int(hi)


if __name__ == "__main__":      # keep this block LAST: helpers appended above must be defined first
    print(regenerate())
