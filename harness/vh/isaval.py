"""Three-way validation of the instruction-set semantics: random programs from the
subset the generator emits are executed by (1) the Lean model Ebv.Ebpf (driver
Drivers/Isa.lean), (2) harness/vh/interp.py and (3) the kernel (BPF_PROG_TEST_RUN)
when bpf() is usable.  This validates models that are otherwise in the trusted
base; it proves nothing and is reported as validation only."""
import struct

from . import interp, kern

ALU = [0x04, 0x14, 0x24, 0x34, 0x44, 0x54, 0x64, 0x74, 0x94, 0xa4, 0xb4, 0xc4]
JMP = [0x15, 0x25, 0x35, 0x45, 0x55, 0x65, 0x75, 0xa5, 0xb5, 0xc5, 0xd5]
EDGE = [0, 1, 2, 0x7f, 0x80, 0xff, 0x7fff, 0x8000, 0xffff, 0x7fffffff, 0x80000000, 0xffffffff,
        0x100000000, 0x7fffffffffffffff, 0x8000000000000000, 0xffffffffffffffff, 0xfffffffffffffffe]
STACK_LO = -256


def rnd64(rng):
    return rng.choice(EDGE) if rng.random() < 0.5 else rng.getrandbits(rng.choice([8, 16, 32, 33, 64]))


def imm32(rng):
    v = rng.choice([0, 1, -1, 2, 7, 31, 32, 63, 255, 256, 0x7fffffff, -0x80000000, 0xffff]) if rng.random() < 0.5 \
        else rng.randrange(-2**31, 2**31)
    return v


def gen_body(rng, n):
    body = []
    i = 0
    while i < n:
        r = rng.random()
        dst, src = rng.randrange(10), rng.randrange(10)
        if r < 0.5:
            op = rng.choice(ALU)
            wide = rng.random() < 0.5
            w = 64 if wide else 32
            if rng.random() < 0.5:
                imm = imm32(rng)
                if op in (0x64, 0x74, 0xc4):
                    imm = rng.randrange(w)
                if op in (0x34, 0x94) and imm == 0:
                    imm = 3
                body.append((op + (3 if wide else 0), dst, 0, 0, imm))
            else:
                body.append((op + 8 + (3 if wide else 0), dst, src, 0, 0))
        elif r < 0.55:
            body.append((0x84 + (3 if rng.random() < 0.5 else 0), dst, 0, 0, 0))
        elif r < 0.62:
            body.append((rng.choice([0xd4, 0xdc]), dst, 0, 0, rng.choice([16, 32, 64])))
        elif r < 0.68:
            v = rnd64(rng)
            body.append((0x18, dst, 0, 0, v & 0xffffffff)); body.append((0, 0, 0, 0, v >> 32)); i += 1
        elif r < 0.9:
            sz, szop = rng.choice([(1, 0x10), (2, 8), (4, 0), (8, 0x18)])
            off = -sz * rng.randrange(1, -STACK_LO // sz + 1)
            k = rng.random()
            if k < 0.4:
                body.append((0x61 + szop, dst, 10, off, 0))
            elif k < 0.7:
                body.append((0x63 + szop, 10, src, off, 0))
            elif k < 0.9:
                body.append((0x62 + szop, 10, 0, off, imm32(rng)))
            elif sz in (4, 8):
                body.append((0xc3 + szop, 10, src, off, 0))
            else:
                continue
        else:
            body.append(("J", rng.choice(JMP) + (1 if rng.random() < 0.4 else 0) + (8 if rng.random() < 0.5 else 0),
                         dst, src, imm32(rng)))
        i += 1
    # resolve jumps: forward, to an instruction boundary (never into the 2nd slot of ld_imm64)
    starts = [k for k in range(len(body) + 1) if k == len(body) or body[k][:4] != (0, 0, 0, 0) or k == 0 or body[k - 1][0] != 0x18]
    out = []
    for k, ins in enumerate(body):
        if ins[0] == "J":
            tg = rng.choice([s for s in starts if s > k])
            _, op, dst, src, imm = ins
            out.append((op, dst, src if op & 8 else 0, tg - k - 1, 0 if op & 8 else imm))
        else:
            out.append(ins)
    return out


def make_case(rng):
    regs = [rnd64(rng) for _ in range(10)]
    stack = bytes(rng.getrandbits(8) for _ in range(-STACK_LO))
    return {"regs": regs, "stack": stack.hex(), "body": gen_body(rng, rng.randrange(1, 25))}


def run_interp(case):
    m = interp.Machine(case["body"] + [(0x95, 0, 0, 0, 0)])
    for k, v in enumerate(case["regs"]):
        m.wr(k, v)
    st = bytes.fromhex(case["stack"])
    m.stack.data[512 + STACK_LO:] = st
    try:
        m.run()
    except interp.Fault as e:
        return f"fault:{e}"
    return " ".join(str(m.regs[k]) for k in range(10)) + " | " + bytes(m.stack.data[512 + STACK_LO:]).hex()


def lean_line(case):
    top = interp.STACK_TOP
    return {"insns": [list(i) for i in case["body"]] + [[0x95, 0, 0, 0, 0]], "regs": case["regs"] + [top],
            "mem": [[top + STACK_LO, case["stack"]]], "watch": [[top + STACK_LO, -STACK_LO]]}


def lean_canon(line):
    if not line.startswith("exit"):
        return line
    head, mem = line.split(" | ")
    f = head.split()
    return " ".join(f[2:12]) + " | " + mem


class Kernel:
    """runs a case inside the kernel: prologue sets registers and stack, epilogue copies them to a map"""
    VS = 80 + 256

    def __init__(self):
        self.fd = kern.create_array_map(self.VS)

    def run(self, case):
        pro = []
        for k, v in enumerate(case["regs"]):
            pro += [(0x18, k, 0, 0, v & 0xffffffff), (0, 0, 0, 0, v >> 32)]
        st = bytes.fromhex(case["stack"])
        # stack init through r9, then reload r9
        for o in range(0, -STACK_LO, 8):
            v, = struct.unpack_from("<Q", st, o)
            pro += [(0x18, 9, 0, 0, v & 0xffffffff), (0, 0, 0, 0, v >> 32), (0x7b, 10, 9, STACK_LO + o, 0)]
        v = case["regs"][9]
        pro += [(0x18, 9, 0, 0, v & 0xffffffff), (0, 0, 0, 0, v >> 32)]
        epi = [(0x7b, 10, k, -512 + 8 * k, 0) for k in range(10)]
        epi += [(0x62, 10, 0, -420, 0), (0x18, 1, 1, 0, self.fd), (0, 0, 0, 0, 0), (0xbf, 2, 10, 0, 0), (0x07, 2, 0, 0, -420),
                (0x85, 0, 0, 0, 1)]
        copy = []
        for k in range(10):
            copy += [(0x79, 1, 10, -512 + 8 * k, 0), (0x7b, 0, 1, 8 * k, 0)]
        for o in range(0, -STACK_LO, 8):
            copy += [(0x79, 1, 10, STACK_LO + o, 0), (0x7b, 0, 1, 80 + o, 0)]
        epi += [(0x15, 0, 0, len(copy), 0)] + copy + [(0xb7, 0, 0, 0, 0), (0x95, 0, 0, 0, 0)]
        try:
            fd = kern.prog_load(pro + case["body"] + epi)
        except OSError as e:
            return f"rejected:{e.errno}"
        try:
            kern.update(self.fd, bytes(4), bytes(self.VS))
            kern.test_run(fd, bytes(64))
            raw = kern.lookup(self.fd, bytes(4), self.VS)
        finally:
            import os
            os.close(fd)
        regs = struct.unpack_from("<10Q", raw)
        return " ".join(map(str, regs)) + " | " + raw[80:80 + 256].hex()


def validate(ctx, n, driver="Drivers/Isa.lean"):
    """returns dict of counts; disagreements are reported through ctx.agree"""
    cases = [make_case(ctx.rng) for _ in range(n)]
    py = [run_interp(c) for c in cases]
    k_ok = kern.available()
    counts = {"programs": n, "interp_vs_lean": 0, "kernel_runs": 0, "kernel_rejected": 0, "kernel_available": k_ok}
    lean = ctx.drive(driver, [lean_line(c) for c in cases], "isa")
    if lean is not None:
        for c, a, b in zip(cases, py, lean):
            if a.startswith("fault"):
                continue
            counts["interp_vs_lean"] += 1
            ctx.agree("ISA: interpreter vs Lean model", {"isa": c}, a, lean_canon(b))
    if k_ok:
        K = Kernel()
        for c, a in zip(cases[:max(50, n // 4)], py):
            if a.startswith("fault"):
                continue
            kr = K.run(c)
            if kr.startswith("rejected"):
                counts["kernel_rejected"] += 1
                continue
            counts["kernel_runs"] += 1
            ctx.agree("ISA: interpreter vs kernel", {"isa": c}, a, kr)
    return counts
