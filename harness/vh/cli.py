"""bin/check Cxx [--tier quick|thorough] [--replay file]"""
import argparse
import importlib
import json
import os
import subprocess
import sys
import time
import traceback

from . import core, extract


def main():
    ap = argparse.ArgumentParser()
    ap.add_argument("pid")
    ap.add_argument("--tier", default=os.environ.get("VERIF_TIER", "quick"))
    ap.add_argument("--replay")
    a = ap.parse_args()
    pid = a.pid.upper()
    seed = int(os.environ.get("VERIF_SEED", "0") or 0)
    mod = importlib.import_module(f"vh.props.{pid.lower()}")
    ctx = core.Ctx(pid, a.tier, seed)
    t0 = time.time()

    if a.replay:
        obj = json.loads(open(a.replay).read())
        if "case" not in obj:
            print(f"replay {a.replay}: names obligations only: {obj.get('broken')}")
            sys.exit(1)
        res = mod.replay(ctx, obj["case"])
        print(json.dumps(res, default=str))
        bad = bool(ctx.failures)
        print("property FAILS on this case" if bad else "property holds on this case")
        sys.exit(1 if bad else 0)

    try:
        obligations = discharged = 0
        axioms = {}
        # 1. regenerate the parts of the model that come from /repo (lock held until the audit is done,
        #    so that a concurrent check of another tree cannot swap Generated/ under the build)
        ctx.lean.locked()
        unlocked = False
        try:
            extract.regenerate(ctx)
        except Exception as e:   # the working tree cannot even be imported/extracted
            ctx.broken.append(f"extraction failed: {type(e).__name__}: {e}")
            ctx.model_ok = False
        # 2. build: property theorems (kernel-checked) and the driver's model
        ok, log = ctx.lean.build(mod.LEAN_MODULES)
        obligations += len(mod.THEOREMS) + len(getattr(mod, "REGEN_OBLIGATIONS", []))
        if not ok:
            ctx.broken.append("lake build failed: " + _first_error(log))
            mok, _ = ctx.lean.build(getattr(mod, "MODEL_MODULES", []))
            if not mok:
                ctx.model_ok = False
        else:
            # 3. audit
            hits = ctx.lean.grep_forbidden(mod.LEAN_MODULES, getattr(mod, "ALLOW_BV", ()))
            if hits:
                ctx.broken.append("forbidden tokens: " + "; ".join(hits[:5]))
            aok, axioms, problems = ctx.lean.audit(pid, mod.LEAN_MODULES, mod.THEOREMS,
                                                   getattr(mod, "ALLOW_NATIVE", ()))
            ctx.broken.extend(problems)
            if aok and not hits:
                discharged = obligations
            if not ctx.quick and getattr(mod, "LEANCHECKER", True):
                ctx.lean.unlock()          # the long re-check must not hold up other checks
                unlocked = True
                p = subprocess.run(["lake", "env", "leanchecker", *mod.LEAN_MODULES], cwd=core.LEAN,
                                   capture_output=True, text=True, timeout=3000)
                ctx.extra["leanchecker"] = "ok" if p.returncode == 0 else (p.stdout + p.stderr)[-300:]
                if p.returncode != 0:
                    ctx.broken.append("leanchecker rejected the compiled modules")
        if not unlocked:
            ctx.lean.unlock()
        # 4. correspondence + property oracle on the real code
        try:
            mod.run(ctx)
        except core.Infra:
            raise
        except Exception as e:
            ctx.broken.append(f"harness could not drive the implementation: {type(e).__name__}: {e}")
            ctx.notes.append(traceback.format_exc()[-1500:])
        if ctx.disagreements:
            ctx.broken.append(f"correspondence: {len(ctx.disagreements)}+ disagreement(s), first on {ctx.disagreements[0][0]}")
        # 5. verdict
        known = core.load_known(pid)
        new_fail = []
        for cls, what, case, observed in ctx.failures:
            ent = next((e for e in known if cls is not None and e["class"] == cls), None)
            if ent is None:
                new_fail.append((cls, what, case, observed))
            else:
                ctx.known_hits[ent["id"]] += 1
        for e in known:
            c2 = core.Ctx(pid, a.tier, seed)
            try:
                mod.replay(c2, e["witness"])
            except Exception as ex:
                c2.failures.append((None, f"witness raised {ex!r}", None, None))
            if any(f[0] == e["class"] for f in c2.failures):
                print(f"KNOWN-FINDING: property={pid} {e['id']}: {e['what']}")
            else:
                ctx.notes.append(f"known finding {e['id']} no longer reproduces on its witness")
        violations = 0
        if new_fail:
            violations = len(new_fail)
            cls, what, case, observed = new_fail[0]
            path = core.write_replay(ctx, {"property": pid, "what": what, "case": case,
                                           "observed": observed, "broken": ctx.broken})
            core.write_evidence(ctx, mod, t0, obligations, discharged, axioms, violations)
            print(f"VIOLATION property={pid} replay={path}")
            sys.exit(1)
        if ctx.broken:
            d = ctx.disagreements[0] if ctx.disagreements else None
            path = core.write_replay(ctx, {
                "property": pid, "broken": ctx.broken,
                "first_disagreement": None if d is None else
                {"what": d[0], "input": d[1], "implementation": d[2], "model": d[3]}})
            core.write_evidence(ctx, mod, t0, obligations, discharged, axioms, 1)
            print(f"VIOLATION property={pid} replay={path} no-failing-input-found")
            sys.exit(1)
        core.write_evidence(ctx, mod, t0, obligations, discharged, axioms, 0)
        print(f"OK property={pid} tier={a.tier} theorems={len(mod.THEOREMS)} cases={ctx.evaluations} "
              f"validated={ctx.validated} wall={time.time()-t0:.1f}s")
        sys.exit(0)
    except core.Infra as e:
        print(f"INFRA property={pid}: {e}", file=sys.stderr)
        sys.exit(2)


def _first_error(log):
    for line in log.splitlines():
        if "error" in line:
            return line.strip()[:300]
    return log[-300:]


if __name__ == "__main__":
    main()
