"""Instantiate the library's own eBPF programs from /repo's working tree (fresh
object per emission, maps served by fsim) and return their instruction lists."""
from . import fsim


def ether_xdp(programs_fd=99):
    """(instructions, map fd of `variables`, offsets) of the real dispatcher"""
    from ebpfcat.ebpfcat import EtherXDP
    with fsim.fake_maps() as created:
        e = EtherXDP()
        e.programs = programs_fd
        e.assemble()
    (fd, args), = created
    return {"insns": list(e.opcodes), "var_fd": fd, "var_size": args[2],
            "off_counters": e.__dict__["counters"], "off_dropcounter": e.__dict__["dropcounter"],
            "programs_fd": programs_fd}
