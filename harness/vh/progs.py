"""Instantiate the library's own eBPF programs from /repo's working tree (fresh
object per emission, maps served by fsim) and return their instruction lists."""
from . import fsim


def ether_xdp(programs_fd=99):
    """(instructions, map fd of `variables`, offsets) of the real dispatcher"""
    from ebpfcat.ebpfcat import EtherXDP
    with fsim.fake_maps() as created:
        e = EtherXDP()
        e.programs = programs_fd
        e.assemble()
    (fd, args), = created
    return {"insns": list(e.opcodes), "var_fd": fd, "var_size": args[2],
            "off_counters": e.__dict__["counters"], "off_dropcounter": e.__dict__["dropcounter"],
            "programs_fd": programs_fd}


class _FakeEC:
    ethertype = 0x88A4

    def get_fmmu_addr(self):
        return 0x1000


def fast_group(build_packet, devices=()):
    """real FastSyncGroup whose SterilePacket is filled by `build_packet(packet)`;
    returns the group, its instruction list and the map geometry"""
    from ebpfcat.ebpfcat import FastSyncGroup, SterilePacket
    with fsim.fake_maps() as created:
        sg = FastSyncGroup(_FakeEC(), list(devices))
        sg.packet = SterilePacket()
        build_packet(sg.packet)
        sg.assemble()
    (fd, args), = created
    return {"sg": sg, "insns": list(sg.opcodes), "var_fd": fd, "var_size": args[2],
            "off_wkc_errors": sg.__dict__["wkc_errors"]}
