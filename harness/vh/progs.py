"""Instantiate the library's own eBPF programs from /repo's working tree (fresh
object per emission, maps served by fsim) and return their instruction lists."""
from . import fsim


def ether_xdp(programs_fd=99):
    """(instructions, map fd of `variables`, offsets) of the real dispatcher"""
    from ebpfcat.ebpfcat import EtherXDP
    with fsim.fake_maps() as created:
        e = EtherXDP()
        e.programs = programs_fd
        e.assemble()
    (fd, args), = created
    return {"insns": list(e.opcodes), "var_fd": fd, "var_size": args[2],
            "off_counters": e.__dict__["counters"], "off_dropcounter": e.__dict__["dropcounter"],
            "programs_fd": programs_fd}


class _FakeEC:
    ethertype = 0x88A4

    def get_fmmu_addr(self):
        return 0x1000


def fast_group(build_packet, devices=()):
    """real FastSyncGroup whose SterilePacket is filled by `build_packet(packet)`;
    returns the group, its instruction list and the map geometry"""
    from ebpfcat.ebpfcat import FastSyncGroup, SterilePacket
    with fsim.fake_maps() as created:
        sg = FastSyncGroup(_FakeEC(), list(devices))
        sg.packet = SterilePacket()
        build_packet(sg.packet)
        sg.assemble()
    (fd, args), = created
    return {"sg": sg, "insns": list(sg.opcodes), "var_fd": fd, "var_size": args[2],
            "off_wkc_errors": sg.__dict__["wkc_errors"]}


def motor_group():
    """real FastSyncGroup with one Motor linked to an EL7041-shaped terminal (no FMMU)"""
    from ebpfcat.ebpfcat import FastSyncGroup, SyncManager
    from ebpfcat.terminals import EL7041
    from ebpfcat.devices import Motor
    ec = _FakeEC()
    t = EL7041(ec)
    t.position = 5
    t.pdos = {(0x7010, 0x21): (SyncManager.OUT, 2, 'H'), (0x7010, 1): (SyncManager.OUT, 0, 0),
              (0x6010, 0xc): (SyncManager.IN, 1, 3), (0x6010, 0xd): (SyncManager.IN, 1, 4),
              (0x6000, 0x11): (SyncManager.IN, 2, 'I')}
    t.pdo_in_sz, t.pdo_out_sz, t.pdo_in_off, t.pdo_out_off = 6, 4, 0x1100, 0x1000
    t.use_fmmu = False
    m = Motor()
    m.velocity, m.encoder = t.velocity, t.stepcounter
    m.low_switch, m.high_switch, m.enable = t.low_switch, t.high_switch, t.enable
    with fsim.fake_maps() as created:
        sg = FastSyncGroup(ec, [m])
        sg.allocate()
        sg.assemble()
    (fd, args), = created
    offs = {k: m.__dict__[k] for k in ("set_enable", "max_velocity", "max_acceleration", "target", "proportional")}
    pa = sg.pdo_assign[t]
    return {"sg": sg, "insns": list(sg.opcodes), "var_fd": fd, "var_size": args[2],
            "off_wkc_errors": sg.__dict__["wkc_errors"], "vars": offs,
            "in_base": pa[SyncManager.IN] + 14, "out_base": pa[SyncManager.OUT] + 14, "size": sg.packet.size}


def procvar_group(case, fast):
    """C19: real sync group (FastSyncGroup assembled into bytecode when `fast`, else a SyncGroup as `start()`
    leaves it after `allocate()`) for a JSON case: terminals with their `pdos` tables, process variables declared
    on generated terminal classes (ProcessDesc/PacketDesc, optionally inside a Struct channel with position
    offsets) and linked to the TerminalVars of generated Device subclasses whose `program()` and `update()`
    both execute the case's assignment statements through the real descriptors.  A variable with `alias: k` links the
    very PacketVar object of variable k; `prior: {devs}` first runs one cycle of those devices in a slow sync group of
    their own (all-zero process data and DeviceVars), as if they had been used in an earlier group."""
    import struct
    from ebpfcat.ebpfcat import (FastSyncGroup, SyncGroup, SyncManager, EBPFTerminal, Device, TerminalVar,
                                 DeviceVar, PacketDesc, ProcessDesc, Struct)
    ec = _FakeEC()

    def desc(d):
        if d[0] == "process":
            return ProcessDesc(d[1], d[2], d[3])
        return PacketDesc(SyncManager(d[1]), d[2], d[3])

    terms, classes = [], {}
    for ti, ts in enumerate(case["terms"]):
        # terminals may be instances of one class (`twin: k` = the class of terminal k, as two terminals of one type are):
        # the class carries the descriptors of the variables of all its instances; a variable with `same: k` is reached
        # through the very descriptor of variable k, on its own terminal
        cid = ts.get("twin", ti)
        if cid not in classes:
            attrs = {}
            for vi, v in enumerate(case["vars"]):
                if case["terms"][v["t"]].get("twin", v["t"]) != cid or v.get("alias") is not None or v.get("same") is not None:
                    continue
                if v["struct"] is None:
                    attrs[f"v{vi}"] = desc(v["desc"])
                else:
                    ch = type(f"Ch{vi}", (Struct,), {"m": desc(v["desc"])})
                    attrs[f"c{vi}"] = ch(*v["struct"])
            classes[cid] = type(f"T{cid}", (EBPFTerminal,), attrs)
        t = classes[cid](ec)
        t.position = ts["position"]
        t.pdos = {(i, s): (SyncManager(sm), off, size) for i, s, sm, off, size in ts["pdos"]}
        t.pdo_in_off, t.pdo_out_off = 0x1100, 0x1000
        terms.append(t)

    def configure(sizes):
        """process-data sizes and FMMU use of the terminals (what a terminal's PDO configuration decides)"""
        for t, ts in zip(terms, sizes):
            t.pdo_in_sz, t.pdo_out_sz, t.use_fmmu = ts["in_sz"], ts["out_sz"], ts["fmmu"]
    earlier = list(case.get("restart") or [])       # the group was started before, with these configurations
    configure(earlier[0] if earlier else case["terms"])

    ndev = 1 + max([v["dev"] for v in case["vars"]] + [d["dev"] for d in case["dvs"]] + [o["dev"] for o in case["ops"]])
    devs = []
    for di in range(ndev):
        attrs = {f"tv{vi}": TerminalVar() for vi, v in enumerate(case["vars"]) if v["dev"] == di}
        attrs.update({f"dv{j}": DeviceVar(d["fmt"]) for j, d in enumerate(case["dvs"]) if d["dev"] == di})
        ops = [o for o in case["ops"] if o["dev"] == di]

        def body(self, ops=ops):
            for o in ops:
                if o["op"] == "get":
                    setattr(self, f"dv{o['dv']}", getattr(self, f"tv{o['src']}"))
                else:
                    kind, x = o["src"]
                    val = x if kind == "const" else getattr(self, (f"tv{x}" if kind == "var" else f"dv{x}"))
                    setattr(self, f"tv{o['dst']}", val)
        attrs["program"] = body
        attrs["update"] = body
        devs.append(type(f"D{di}", (Device,), attrs)())
    objs = {}
    for vi, v in enumerate(case["vars"]):
        if v.get("alias") is None:
            t = terms[v["t"]]
            k = vi if v.get("same") is None else v["same"]
            objs[vi] = getattr(t, f"v{k}") if v["struct"] is None else getattr(t, f"c{k}").m
    for vi, v in enumerate(case["vars"]):
        setattr(devs[v["dev"]], f"tv{vi}", objs[vi if v.get("alias") is None else v["alias"]])

    pvs = [devs[v["dev"]].__dict__[f"tv{vi}"] for vi, v in enumerate(case["vars"])]
    if not fast:
        prior = None
        if case.get("prior"):
            pdevs = [devs[i] for i in case["prior"]["devs"]]
            prior = SyncGroup(ec, pdevs)
            prior.allocate()
            prior.current_data = bytearray(prior.packet.assemble(6, 0x88A4))
            for j, d in enumerate(case["dvs"]):
                if d["dev"] in case["prior"]["devs"]:
                    setattr(devs[d["dev"]], f"dv{j}", 0)
            frame = bytes(prior.current_data)
            try:
                for dev in pdevs:
                    dev.update()
            except struct.error:      # overlapping variables may make a value unrepresentable: the cycle ends there
                pass
            prior = {"sg": prior, "frame": frame}
        sg = SyncGroup(ec, devs)
        if not earlier:
            sg.allocate()
            return {"sg": sg, "terms": terms, "devs": devs, "pvs": pvs, "prior": prior, "restarts": []}
        # the same group object is started, runs one cycle (all-zero process data and DeviceVars), is stopped, the
        # terminals get another PDO configuration and the group is started again: through the real SyncGroup.start()
        restarts = []
        for nxt in earlier[1:] + [case["terms"]]:
            _start_slow(sg)
            for j, d in enumerate(case["dvs"]):
                setattr(devs[d["dev"]], f"dv{j}", 0)
            sg.current_data[:] = sg.packet.assemble(6, 0x88A4)
            frame = bytes(sg.current_data)
            try:
                for dev in devs:
                    dev.update()
            except Exception:         # struct.error on the unchanged tree (unrepresentable value): the cycle ends there
                pass
            restarts.append({"frame": frame, "assign": dict(sg.pdo_assign)})
            configure(nxt)
        _start_slow(sg)
        return {"sg": sg, "terms": terms, "devs": devs, "pvs": pvs, "prior": prior, "restarts": restarts}
    restarts, generated = [], []
    with fsim.fake_maps() as created:
        if case.get("prior"):
            # some of the devices ran before in a fast group of their own: its program was generated (what
            # FastEtherCat.register_sync_group does through load()) under the layout of that group
            pg = FastSyncGroup(ec, [devs[i] for i in case["prior"]["devs"]])
            pg.allocate()
            pg.assemble()
            generated.append({"assign": dict(pg.pdo_assign), "devs": list(case["prior"]["devs"])})
        sg = None
        for k, conf in enumerate(earlier):
            # an earlier start under the configuration of that time (earlier[0] is configured already).  A program is
            # generated once per group object, so an earlier start that reached the bus had a FastSyncGroup object of its
            # own over the same devices: allocated, program generated (register_sync_group -> load()).  The last earlier
            # start was, in addition, one of the present group object (allocate() is what FastSyncGroup.start() does first).
            # Python then read every variable in the frame that came back (fast_update).
            if k:
                configure(conf)
            g = FastSyncGroup(ec, devs)
            g.allocate()
            g.assemble()
            generated.append({"assign": dict(g.pdo_assign), "devs": list(range(ndev)), "restart": k})
            if k == len(earlier) - 1:
                g = sg = FastSyncGroup(ec, devs)
                g.allocate()
            frame = bytes(g.packet.assemble(6, 0x88A4))
            g.current_data = bytearray(frame)
            for vi, v in enumerate(case["vars"]):
                try:
                    getattr(devs[v["dev"]], f"tv{vi}")
                except Exception:
                    break
            g.current_data = None
            restarts.append({"frame": frame, "assign": dict(g.pdo_assign)})
        configure(case["terms"])
        if sg is None:
            sg = FastSyncGroup(ec, devs)
        sg.allocate()
        sg.assemble()
    fd, args = created[-1]
    return {"sg": sg, "terms": terms, "devs": devs, "pvs": pvs, "insns": list(sg.opcodes), "var_fd": fd,
            "var_size": args[2], "off_wkc_errors": sg.__dict__["wkc_errors"], "restarts": restarts, "generated": generated,
            "dv_off": [devs[d["dev"]].__dict__[f"dv{j}"] for j, d in enumerate(case["dvs"])]}


def _start_slow(sg):
    """the real SyncGroup.start() (allocation, packet index, assembled frame, fresh process image) with the cyclic
    task replaced by one that ends at once (no bus here)"""
    import asyncio

    async def no_cycle():
        return None

    async def go():
        sg.run = no_cycle
        try:
            await sg.start()
        finally:
            del sg.run
    asyncio.run(go())


# ---- C05: the bundled devices in a FastSyncGroup, and bare fast groups of several packet layouts ----
def _fake_terminal(ec, fmmu=False):
    """a terminal with one 16-bit analog input/output and one digital input/output bit"""
    from ebpfcat.ebpfcat import EBPFTerminal, PacketDesc, SyncManager
    T = type("T5", (EBPFTerminal,), {"ain": PacketDesc(SyncManager.IN, 0, "H"), "aout": PacketDesc(SyncManager.OUT, 0, "H"),
                                     "din": PacketDesc(SyncManager.IN, 2, 0), "dout": PacketDesc(SyncManager.OUT, 2, 1)})
    t = T(ec)
    t.position, t.pdos = 7, {}
    t.pdo_in_sz, t.pdo_out_sz, t.pdo_in_off, t.pdo_out_off = 4, 4, 0x1100, 0x1000
    t.use_fmmu = fmmu
    return t


DEVICE_NAMES = ("AnalogInput", "AnalogOutput", "DigitalInput", "DigitalOutput", "RandomOutput", "Counter",
                "RandomDropper", "Motor")


def device_group(names, fmmu=False):
    """real FastSyncGroup with the named bundled devices linked to a fake terminal; instruction list and map geometry"""
    from ebpfcat.ebpfcat import FastSyncGroup
    from ebpfcat import devices as D
    if list(names) == ["Motor"]:
        return motor_group()
    ec = _FakeEC()
    t = _fake_terminal(ec, fmmu)
    link = {"AnalogInput": "ain", "AnalogOutput": "aout", "DigitalInput": "din", "DigitalOutput": "dout",
            "RandomOutput": "dout"}
    devs = []
    for n in names:
        cls = getattr(D, n)
        devs.append(cls(getattr(t, link[n])) if n in link else cls())
    with fsim.fake_maps() as created:
        sg = FastSyncGroup(ec, devs)
        sg.allocate()
        sg.assemble()
    (fd, args), = created
    return {"sg": sg, "insns": list(sg.opcodes), "var_fd": fd, "var_size": args[2]}


def bare_fast_group(layout):
    """FastSyncGroup with activate() and no devices; `layout` = [[writer?, command value, data bytes, expected wkc], ...]
    appended to the group's SterilePacket (as harness/vh/props/c21.py does)"""
    from ebpfcat.ethercat import ECCmd

    def fill(packet):
        for w, cmd, n, cnt in layout:
            c = ECCmd(cmd)
            addr = (0x10000,) if c in (ECCmd.LRD, ECCmd.LWR, ECCmd.LRW) else (7, 0x1000)
            if w:
                packet.append_writer(c, b"\0" * n, 0, *addr, counter=cnt)
            else:
                packet.append(c, b"\0" * n, 0, *addr, counter=cnt)
    return fast_group(fill)
