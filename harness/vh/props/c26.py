"""C26 — the fast Motor device commands exactly its limited control law.
The real generated program of a FastSyncGroup with one Motor on an EL7041-shaped
terminal (re-assembled from /repo each run) is executed by the interpreter and
compared with the Lean model `Ebv.Motor.program`; the property's control law is
`Ebv.Motor.spec` and the oracle evaluates it in Python big integers."""
import struct

from .. import interp, progs

ID = "C26"
LEAN_MODULES = ["Ebv.Props.C26"]
MODEL_MODULES = ["Ebv.Model.Motor"]
DRIVER = "Drivers/C26.lean"
THEOREMS = ["Ebv.C26.motor_exact", "Ebv.C26.before_fix_refuted", "Ebv.C26.spec_within_vmax",
            "Ebv.C26.spec_respects_switches", "Ebv.C26.spec_accel_limited", "Ebv.C26.program_within_vmax"]
TRUSTED = ["hand-written model Ebv.Motor.program of the generated Motor program, tied by exact correspondence with the real bytecode "
           "(re-assembled each run) executed in harness/vh/interp.py for the bundled EL7041 layout",
           "harness/vh/interp.py"]
ASSUMPTIONS = ["layout: velocity 'h', stepcounter 'i', limit-switch bits as in terminals.EL7041; DeviceVars 'I' (unsigned 32 bit)",
               "output enabled (wkc_errors != 0) and frame long enough; otherwise the program leaves the frame alone (C21)"]
RULE = ("inputs = gain,target,position,vprev,acc,vmax,low,high from boundary sets (0, +-1, 16/32-bit edges) and random values, mostly inside the "
        "property's hypotheses, plus a separate stream outside them; non-trivial = some limit (acceleration, velocity, switch) is active")


def spec(i):
    d = i["gain"] * (i["target"] - i["position"])
    lim = max(min(d, i["vprev"] + i["acc"]), i["vprev"] - i["acc"])
    a2 = max(min(lim, i["vmax"]), -i["vmax"])
    a3 = 0 if i["low"] and a2 < 0 else a2
    return (0 if i["high"] and a3 > 0 else a3), lim, d


def hyp(i):
    d = i["gain"] * (i["target"] - i["position"])
    return i["vmax"] <= 32767 and abs(i["vprev"]) <= i["vmax"] and -2**63 <= d < 2**63


class Impl:
    def __init__(self):
        self.G = progs.motor_group()

    def run(self, i, enable=1):
        G = self.G
        mp = interp.ArrayMapModel(G["var_fd"], G["var_size"])
        d = mp.value.data
        struct.pack_into("<I", d, G["off_wkc_errors"], 1)
        for k, v in (("set_enable", enable), ("max_velocity", i["vmax"]), ("max_acceleration", i["acc"]),
                     ("target", i["target"]), ("proportional", i["gain"])):
            struct.pack_into("<I", d, G["vars"][k], v)
        pkt = bytearray(G["size"] + 14 + 6)
        ib, ob = G["in_base"], G["out_base"]
        pkt[ib + 1] = (0x10 if i["low"] else 0) | (0x08 if i["high"] else 0)
        struct.pack_into("<i", pkt, ib + 2, i["position"])
        struct.pack_into("<h", pkt, ob + 2, i["vprev"])
        wk = [w for w in self.writers()]
        for cmdPos, wkcPos, cmd, exp in wk:
            struct.pack_into("<H", pkt, wkcPos, exp)
        before = bytes(pkt)
        regions, pk = interp.xdp_regions(pkt)
        m = interp.Machine(G["insns"], regions + [mp.value], interp.std_helpers({G["var_fd"]: mp}))
        m.wr(1, interp.CTX_BASE)
        r0 = m.run()
        out = bytes(pk.data)
        v, = struct.unpack_from("<h", out, ob + 2)
        touched = {ob + 2, ob + 3, ob} | {p for w in wk for p in (w[0], w[1], w[1] + 1)}
        clean = all(out[k] == before[k] for k in range(len(out)) if k not in touched)
        return r0, v, out[ob] & 1, clean

    def writers(self):
        p = self.G["sg"].packet
        return [[s + 14, e + 14 - 2, c.value, p.counters[e - 2]] for s, e, c in p.on_the_fly]


def gen(rng, inside=True):
    E16 = [0, 1, -1, 2, 100, 1000, 32767, -32768, 32766, -32767]
    U32 = [0, 1, 2, 100, 1000, 32767, 32768, 40000, 65535, 65536, 2**31 - 1, 2**31, 2**32 - 1]
    pick = lambda edge, lo, hi: rng.choice(edge) if rng.random() < 0.4 else rng.randrange(lo, hi)
    vmax = min(pick(U32, 0, 32768), 32767) if inside else pick(U32, 0, 2**32)
    if inside:
        vprev = rng.choice([0, vmax, -vmax, min(1, vmax), -min(1, vmax)]) if rng.random() < 0.4 else rng.randrange(-vmax, vmax + 1)
    else:
        vprev = pick(E16, -32768, 32768)
    r = rng.random()
    if r < 0.45:       # acceleration limit small enough to keep the 16-bit output in range
        acc = rng.randrange(0, max(1, 32768 - abs(vprev)))
    elif r < 0.6:
        acc = rng.choice([32767 - abs(vprev), 32768 - abs(vprev), 32767, 32768])
        acc = max(acc, 0)
    else:
        acc = pick(U32, 0, 2**32)
    gain = pick([0, 1, 2, 3, 10, 1000, 65536, 2**31 - 1, 2**31, 2**32 - 1], 0, 2000) if rng.random() < 0.8 else rng.randrange(2**32)
    position = pick([0, 1, -1, 2**31 - 1, -2**31, 1000, -1000], -2**31, 2**31)
    rr = rng.random()
    if rr < 0.5:       # target near the position, so that the desired velocity is of the order of the limits
        target = min(max(position + rng.randrange(-70000, 70000) // max(1, gain if gain < 70000 else 1), 0), 2**32 - 1)
    else:
        target = pick(U32, 0, 2**32)
    if rng.random() < 0.12:
        # desired velocity at the very edge of the signed 64-bit range (still inside the property's hypothesis)
        gain = rng.choice([2**32 - 1, 2**32 - 2, 2**31, 2**31 + 1, 65537, rng.randrange(2**20, 2**32)])
        edge = rng.choice([2**63 - 1, -2**63])
        diff = (edge - rng.randrange(0, 70000) * (1 if edge > 0 else -1)) // gain if edge > 0 else -((-edge - rng.randrange(0, 70000)) // gain)
        if diff >= 0:
            position = rng.randrange(-2**31, 1)
        else:
            position = rng.randrange(0, 2**31)
        target = diff + position
        if not 0 <= target < 2**32:
            position = 0 if diff >= 0 else 2**31 - 1
            target = min(max(diff + position, 0), 2**32 - 1)
        vprev = rng.choice([vmax, -vmax, 0, -min(1, vmax)]) if inside else vprev
        if rng.random() < 0.5:
            # exact factorisations next to the edge: (2^32 - 2m)(2^31 + m) = 2^63 - 2m^2
            m = rng.randrange(1, 128)
            gain, diff = 2**32 - 2 * m, 2**31 + m
            position = rng.randrange(-2**31, -m)
            target = diff + position
    return {"gain": gain, "target": target, "position": position, "vprev": vprev, "acc": acc, "vmax": vmax,
            "low": rng.random() < 0.3, "high": rng.random() < 0.3}


def check_one(ctx, impl, i):
    r0, v, en, clean = impl.run(i)
    s, lim, d = spec(i)
    inside = hyp(i)
    wrap = not -32768 <= lim <= 32767
    obs = f"velocity={v} spec={s} limited={lim}"
    if inside:
        ok = ctx.require(v == s, "velocity output differs from the limited control law", i, obs, None)
        if ok:
            ctx.require(abs(v) <= i["vmax"] and not (i["low"] and v < 0) and not (i["high"] and v > 0), "limit/switch corollary", i, obs)
        ctx.require(r0 == 3 and clean and en == 1, "frame not returned / other bytes changed / enable bit wrong", i, obs)
    return f"{v} spec={s} hyp={'true' if inside and i['acc'] < 2**32 else 'false'} wrap={'true' if wrap else 'false'}", inside, wrap, v == s


def run(ctx):
    impl = Impl()
    ctx.extra["motor_instructions"] = len(impl.G["insns"])
    cases, outs = [], []
    for k in range(ctx.n(6000, 300000)):
        i = gen(ctx.rng, inside=ctx.rng.random() < 0.85)
        o, inside, wrap, ok = check_one(ctx, impl, i)
        s, lim, d = spec(i)
        active = lim != d or abs(lim) > i["vmax"] or i["low"] or i["high"]
        ctx.case(i, nontrivial=active, kind=("in" if inside else "out") + ("-wrap" if wrap else "") + ("" if ok else "-differs"))
        cases.append(i); outs.append(o)
    model = ctx.drive(DRIVER, cases, "motor")
    if model is not None:
        for c, i, m in zip(cases, outs, model):
            ctx.agree("motor program", c, i, m)


def replay(ctx, case):
    impl = Impl()
    o, inside, wrap, ok = check_one(ctx, impl, case)
    return {"result": o}


LEVEL_TEXT = ("Lean 4 proof over a hand-written model of the generated Motor program (limiting in the 64-bit temporary, 16-bit store, switch tests): for "
              "all inputs satisfying the property's hypotheses (any gain, target, position, acceleration limit, switch states) the program's velocity "
              "equals the property's control law (motor_exact, full strength since the fix: commit), whence |v| <= vmax, never into an active switch, "
              "|v - vprev| <= acc unless stopping; the pre-fix order of operations is kept as a refuted variant (before_fix_refuted). Tie: exact "
              "correspondence of the real bytecode, re-assembled every run and interpreted, with the model on boundary and random inputs.")
LEVEL_NOTE = ("trusted: Lean kernel + standard axioms; hand model validated by differential execution of the real bytecode (not verified against it); "
              "interpreter semantics; bundled EL7041 layout only")
TECHNIQUE = "Lean 4 proof (case analysis + linear integer arithmetic over all inputs) + exact bytecode/model correspondence"
DESIGN_REF = "§4 C26"
