"""C24 — cancelling a sync group releases its resources and ends cancelled.

Real `SyncGroup` / `FastSyncGroup` / `ProcessSyncGroup` objects run on a
deterministic event loop (virtual time) against a simulated bus.  Every await
the real code reaches (bus round trips, the packet future, `sleep`, the wait
for the child) passes through `Env.point`; the k-th one triggers
`task.cancel()`, for every k reached during start-up and the first CYCLES
cycles.  The trace (AL state accesses per terminal, FMMU slot table and FMMU
register writes, packet sends, program-table / sync_groups calls, child status)
and the way the task ends are (i) judged by the property text (oracle) and
(ii) compared with the Lean model `Ebv.Coro.run k` — the number and order of
await points included."""
import asyncio
import contextlib
import os
import selectors
import struct

ID = "C24"
LEAN_MODULES = ["Ebv.Props.C24"]
MODEL_MODULES = ["Ebv.Model.Coro"]
DRIVER = "Drivers/C24.lean"
THEOREMS = [
    "Ebv.C24.undelivered_eq", "Ebv.C24.cancelled_iff_delivered",
    "Ebv.C24.ends_cancelled_slow", "Ebv.C24.ends_cancelled_fast", "Ebv.C24.ends_cancelled_proc",
    "Ebv.C24.never_returns_slow", "Ebv.C24.never_returns_fast",
    "Ebv.C24.op_implies_safeop_slow", "Ebv.C24.op_implies_safeop_fast",
    "Ebv.C24.fmmu_freed_slow", "Ebv.C24.fmmu_freed_fast",
    "Ebv.C24.program_unregistered", "Ebv.C24.child_stopped",
    "Ebv.C24.runsOf_mem", "Ebv.C24.restart_slow", "Ebv.C24.restart_fast",
]
TRUSTED = ["hand-written model Ebv.Coro (coroutine language, cancellation semantics, transcription of SyncGroupBase.run, "
           "map_fmmu, FastSyncGroup.run/register_sync_group, wait_for_process), tied by trace correspondence at every reached await",
           "harness/vh/props/c24.py: virtual-time event loop, simulated bus/terminals, bpf map stubs, stub child process"]
ASSUMPTIONS = ["asyncio delivers a cancellation as CancelledError at the await the task (and every gather child) is suspended in, once",
               "terminals are conformant: every requested AL state is reported at the first poll, no AL error, packets come back in time",
               "self.running stays True for slow/fast groups (nothing in /repo clears it in the parent process)",
               "the child process exits exactly when runningValue is cleared (or by itself: selfExit); pidfd/add_reader/multiprocessing are modelled by a stub child with a pipe",
               "each terminal has enough free FMMUs for its mappings (slot choice itself is C20)",
               "a group is started again only after its task ended; the next run finds every terminal in the AL state of its last state "
               "request (conformant terminals); `init` cases: terminals as EBPFTerminal.initialize leaves them (SAFE-OPERATIONAL)",
               "fmmu_freed is read as in DESIGN §4 C24: the slot-table entry is cleared (the FMMU register stays active on the cancellation path)"]
RULE = ("histories: the group object started 1-3 times, every earlier run ended by a cancellation at a random await / in its last cycle, the "
        "last run cancelled at every await; terminals set up by hand or brought up by the real EBPFTerminal.initialize on register-level "
        "terminals; case = (kind in slow/fast/proc, terminal list of 0..3 terminals x rw/ro x IN/OUT pdo x use_fmmu x start state x fmmu count, "
        "cancellation index k or none); all k < number of awaits reached in start-up + 3 cycles; non-trivial = cancellation delivered")
CYCLES = 3


class Deadlock(Exception):
    pass


class Stop(Exception):
    pass


class VSelector(selectors.DefaultSelector):
    """never sleeps: advances the loop's virtual clock instead"""
    loop = None
    turns = 0

    def select(self, timeout=None):
        self.turns += 1
        if self.turns > 200000:
            raise Stop()                # a run that never settles is an outcome ("runaway"), not a hang
        ev = super().select(0)
        if ev:
            return ev
        if timeout is None:
            raise Deadlock()
        if timeout > 0:
            self.loop.vt += timeout
        return ev


class VLoop(asyncio.SelectorEventLoop):
    def __init__(self):
        sel = VSelector()
        self.vt = 0.0
        self.env = None
        super().__init__(sel)
        sel.loop = self

    def time(self):
        return self.vt

    def add_reader(self, fd, callback, *args):
        env = self.env
        if env is not None and fd == env.child_fd:
            env.point("wait")

            def fired(*a):
                env.log("seen")
                env.child_seen = True
                return callback(*a)
            return super().add_reader(fd, fired, *args)
        return super().add_reader(fd, callback, *args)

    def remove_reader(self, fd):
        env = self.env
        if env is not None and fd == env.child_fd:
            env.log("unwait")
        return super().remove_reader(fd)


def model_terms(spec):
    """what the sync group should know about each terminal, from the harness' own reading of the rules:
    IN mapping iff FMMUs are used and there is input process data, OUT mapping additionally needs rw"""
    return [[t["pos"], t["rw"], t["nf"], bool(t["fmmu"] and t["rw"] and t["outsz"]), bool(t["fmmu"] and t["insz"]), t["start"]]
            for t in sorted(spec, key=lambda t: t["pos"])]


class Env:
    def __init__(self, case, loop):
        self.case, self.loop = case, loop
        self.k = case["k"]
        self.trace = []
        self.npoints = 0
        self.snapshot = None
        self.recvs = 0
        self.task = None
        self.child_fd = None
        self.child_seen = False
        self.state_log = []
        self.quiet = False          # set while the terminals are being initialised: not part of the observation
        self.setup = None
        self.runs = []

    # ---- instrumentation -------------------------------------------------
    def log(self, ev):
        if self.snapshot is None and not self.quiet:
            self.trace.append(ev)

    def point(self, label):
        """an await of the code under test starts here"""
        if self.snapshot is not None or self.quiet:
            return
        if label == "recv":
            self.recvs += 1
            if self.k is None and self.recvs > self.case["cycles"]:
                # the uncancelled run is observed up to here: still running
                self.snapshot = (list(self.trace), "pending", self.npoints)
                self.task.cancel()      # tear-down only: nothing after the snapshot is observed
                return
        self.trace.append(label)
        i = self.npoints
        self.npoints += 1
        if i > 2000:
            raise Stop()
        if self.k == i:
            self.task.cancel()

    # ---- the simulated bus -----------------------------------------------
    def make_ec(self, base):
        env = self
        from ebpfcat.ethercat import ECCmd

        class EC(base):
            def __init__(self):
                super().__init__("c24sim")
                self.al = {}
                self.fmmu_active = {}
                self.programs = "programs-map"

            def get_fmmu_addr(self):
                self.next_logical_addr += 0x1000
                return self.next_logical_addr

            async def roundtrip(self, cmd, pos, offset, *args, data=None, idx=0):
                if env.setup is not None:        # start-up: the register-level terminals answer (real codec)
                    return await env.setup.roundtrip(cmd, pos, offset, *args, data=data, idx=idx)
                fut = env.loop.create_future()
                if cmd is ECCmd.FPWR and offset == 0x120:
                    env.point(f"st{pos}={args[1]}")
                    self.al[pos] = args[1] & 0xf
                    res = ()
                elif cmd is ECCmd.FPRD and offset == 0x130:
                    env.point(f"gs{pos}")
                    res = (self.al[pos], 0)
                elif cmd is ECCmd.FPWR and 0x600 <= offset < 0x700:
                    j, sub = (offset - 0x600) // 16, offset & 15
                    if sub == 0:
                        env.point(f"fmmu{pos}[{j}]=on")
                        self.fmmu_active[pos, j] = True
                    elif sub == 0xc:
                        env.point(f"fmmu{pos}[{j}]=off")
                        self.fmmu_active[pos, j] = False
                    else:
                        raise AssertionError(f"unexpected FMMU access {offset:x}")
                    res = ()
                else:
                    raise AssertionError(f"unexpected bus access {cmd} {offset:x}")
                env.loop.call_soon(lambda: fut.done() or fut.set_result(res))
                return await fut

            def roundtrip_packet(self, packet, index=None):
                env.log("send")
                fut = PFuture(loop=env.loop)
                back = bytearray(packet)
                for p, c in env.sg.packet.counters.items():
                    struct.pack_into("<H", back, p, c)
                fut.back = bytes(back)
                return fut

        class PFuture(asyncio.Future):
            """the frame comes back once the group waits for it, so that every wait is a real suspension
            (a reply that is already there makes `await` a no-op and moves the cancellation to the next await)"""
            def __await__(self):
                env.point("recv")
                env.loop.call_soon(lambda: self.done() or self.set_result(self.back))
                return super().__await__()
            __iter__ = __await__

        return EC()

    def make_terminals(self, ec):
        from ebpfcat.ebpfcat import EBPFTerminal, Device
        env = self

        class Slots(list):
            def __init__(self, pos, n):
                super().__init__([None] * n if isinstance(n, int) else n)
                self.pos = pos

            def __setitem__(self, j, v):
                env.log(f"slot{self.pos}[{j}]={'clear' if v is None else 'set'}")
                super().__setitem__(j, v)

        class Dev(Device):
            def __init__(self, terms):
                super().__init__()
                self.terms = terms

            def get_terminals(self):
                return dict(self.terms)

        terms = {}
        self.terminals = []
        for t in self.case["spec"]:
            term = EBPFTerminal(ec)
            term.position = t["pos"]
            term.name = f"T{t['pos']}"
            term.use_fmmu = t["fmmu"]
            term.pdo_in_sz, term.pdo_out_sz = t["insz"], t["outsz"]
            term.pdo_in_off, term.pdo_out_off = 0x1100, 0x1000
            term.fmmu_used = Slots(t["pos"], t["nf"])
            ec.al[t["pos"]] = t["start"]
            terms[term] = t["rw"]
            self.terminals.append(term)
        self.Slots = Slots
        return [Dev(terms)]

    async def initialize(self):
        """`init` cases: the terminals are brought up by the real EBPFTerminal.initialize() (address, INIT, FMMU table, EEPROM,
        sync managers, PRE-OP, PDO sizes, SAFE-OP) on register-level terminals that declare what the case says"""
        from . import c20
        spec = self.case["spec"]
        slaves = [c20.Slave(t["nf"], [0x1000, t["outsz"], 0x1100, t["insz"]], True, i % 2 == 0) for i, t in enumerate(spec)]
        self.setup, self.quiet = c20.make_bus(slaves, [False]), True
        try:
            for term in self.terminals:
                del term.fmmu_used, term.pdo_in_sz, term.pdo_out_sz, term.pdo_in_off, term.pdo_out_off
            await asyncio.gather(*[term.initialize(-i, t["pos"]) for i, (term, t) in enumerate(zip(self.terminals, spec))])
        finally:
            self.setup, self.quiet = None, False
        for term, t, sl in zip(self.terminals, spec, slaves):
            term.fmmu_used = self.Slots(t["pos"], list(term.fmmu_used))
            self.ec.al[t["pos"]] = sl.regs[0x130] & 0xf

    # ---- environment patches ----------------------------------------------
    @contextlib.contextmanager
    def patched(self):
        import ebpfcat.ebpfcat as E
        env = self
        saved = []

        def patch(obj, name, val):
            saved.append((obj, name, obj.__dict__.get(name, saved) if isinstance(obj, type) else getattr(obj, name)))
            setattr(obj, name, val)

        real_sleep = asyncio.sleep

        async def vsleep(delay, result=None):
            env.point("sleep")
            return await real_sleep(delay, result)

        self.table = {struct.pack("<I", i): struct.pack("<I", 1000 + i) for i in self.case.get("busy", [])}
        self.table0 = dict(self.table)

        class Draws:             # the same proposals at every start of the group
            def __init__(self):
                self.rewind()

            def rewind(self):
                self.it = iter(list(env.case.get("busy", [])) + [env.case.get("index", 0)])

            def __next__(self):
                return next(self.it)
        rnd = self.draws = Draws()

        def lookup(fd, key, fmt):
            env.log(f"lookup{struct.unpack('<I', key)[0]}")
            if key not in env.table:
                raise KeyError          # what ebpfcat.bpf.lookup_elem makes of ENOENT
            return struct.unpack(fmt, env.table[key])

        def update(fd, key, value, *a):
            env.log(f"prog[{struct.unpack('<I', key)[0]}]=set")
            env.table[key] = value

        def delete(fd, key):
            env.log(f"prog[{struct.unpack('<I', key)[0]}]=del")
            if key not in env.table:
                raise KeyError          # what ebpfcat.bpf.delete_elem makes of ENOENT
            del env.table[key]

        def load(sg, *a, **kw):
            env.log("load")
            sg.loaded = True
            sg.file_descriptor = 77
            sg.__dict__["properties"] = bytearray(64)

        def close(sg):
            env.log("close")
            sg.file_descriptor = None

        def pidfd_open(pid, flags=0):
            env.log("pidfd")
            return env.child_fd

        patch(E, "sleep", vsleep)
        patch(E, "monotonic", self.loop.time)
        patch(E, "lookup_elem", lookup)
        patch(E, "update_elem", update)
        patch(E, "delete_elem", delete)
        patch(E, "randrange", lambda n: next(rnd))
        patch(E.FastSyncGroup, "load", load)
        patch(E.FastSyncGroup, "close", close)
        patch(os, "pidfd_open", pidfd_open)
        try:
            yield
        finally:
            for obj, name, val in reversed(saved):
                if val is saved:
                    delattr(obj, name)      # was inherited
                else:
                    setattr(obj, name, val)

    # ---- the three kinds of groups -----------------------------------------
    def build(self):
        import ebpfcat.ebpfcat as E
        env = self
        kind = self.case["kind"]
        if kind == "slow":
            ec = self.make_ec(E.SimpleEtherCat)
            self.sg = E.SyncGroup(ec, self.make_terminals(ec))
        elif kind == "fast":
            ec = self.make_ec(E.FastEtherCat)

            class Groups(dict):
                def __setitem__(self, i, v):
                    env.log(f"group[{i}]=set")
                    super().__setitem__(i, v)

                def __delitem__(self, i):
                    env.log(f"group[{i}]=del")
                    super().__delitem__(i)
            ec.sync_groups = Groups()
            self.sg = E.FastSyncGroup(ec, self.make_terminals(ec))
        else:
            ec = self.make_ec(E.ParallelEtherCat)
            self.sg = E.ProcessSyncGroup(ec, self.make_terminals(ec))
            real = self.sg.ctx
            rfd, wfd = os.pipe()
            self.child_fd, self.child_w = rfd, wfd

            class Child:
                pid = 4242
                started = exited = False

                def start(self):
                    self.started = True
                    if env.case.get("selfExit"):
                        self.exit()

                def exit(self):
                    if not self.exited:
                        self.exited = True
                        os.write(wfd, b"x")       # the pidfd becomes readable
            child = self.child = Child()

            class Running:
                def __init__(self, v):
                    self.v = v

                @property
                def value(self):
                    return self.v.value

                @value.setter
                def value(self, x):
                    if child.started:
                        env.log(f"running={1 if x else 0}")
                    self.v.value = x
                    if child.started and not x:
                        child.exit()              # the child's loop sees running == False and ends

            class Ctx:
                def Value(self, *a, **kw):
                    return Running(real.Value(*a, **kw))

                def Array(self, *a, **kw):
                    return real.Array(*a, **kw)

                def Process(self, target=None, **kw):
                    return child
            self.sg.ctx = Ctx()
        self.ec = ec

    async def main(self):
        if self.case.get("init"):
            await self.initialize()
        ks = list(self.case.get("prev") or []) + [self.case["k"]]
        for n, k in enumerate(ks):      # earlier runs of the same group object (each ended by its cancellation), then the run judged last
            self.k, self.trace, self.npoints, self.recvs, self.snapshot = k, [], 0, 0, None
            self.draws.rewind()
            self.task = self.sg.start()
            await asyncio.wait([self.task])
            if n + 1 < len(ks):
                self.runs.append(self.result() + (self.facts(),))
                if not self.task.done():
                    break

    def facts(self):
        case, facts = self.case, {}
        facts["slots"] = {t.position: list(t.fmmu_used) for t in self.terminals}
        facts["fmmu_active"] = sorted(f"{p}[{j}]" for (p, j), a in self.ec.fmmu_active.items() if a)
        if case["kind"] == "fast":
            facts["table_restored"] = self.table == self.table0
            facts["groups"] = len(self.ec.sync_groups)
        if case["kind"] == "proc":
            facts["running"] = bool(self.sg.runningValue.value)
            facts["child_exited"] = self.child.exited
            facts["child_seen"] = self.child_seen
            facts["reader_left"] = self.child_fd in getattr(self.loop._selector, "_fd_to_key", {})
        return facts

    def result(self):
        if self.snapshot is not None:
            return self.snapshot
        t = self.task
        if t is None or not t.done():
            out = "pending"
        elif t.cancelled():
            out = "cancelled"
        elif t.exception() is not None:
            out = "other:" + type(t.exception()).__name__
        else:
            out = "returned"
        return list(self.trace), out, self.npoints


def run_impl(case):
    """run the real code on one case; returns (trace, outcome, awaits, facts for the oracle)"""
    loop = VLoop()
    env = Env(case, loop)
    loop.env = env
    asyncio.set_event_loop(loop)
    facts = {}
    try:
        with env.patched():
            env.build()
            try:
                loop.run_until_complete(env.main())
            except Deadlock:
                pass
            except Stop:
                env.snapshot = (list(env.trace), "runaway", env.npoints)
            trace, out, n = env.result()
            facts.update(env.facts())
            facts["earlier"] = list(env.runs)
            # tear down whatever is still alive (not part of the observation)
            if env.snapshot is None:
                env.snapshot = (trace, out, n)
            pend = [t for t in asyncio.all_tasks(loop) if not t.done()]
            for t in pend:
                t.cancel()
            if case["kind"] == "proc":
                env.child.exit()
            if pend:
                try:
                    loop.run_until_complete(asyncio.wait(pend, timeout=1))
                except (Deadlock, Stop):
                    pass
    finally:
        asyncio.set_event_loop(None)
        try:
            loop.close()
        except Exception:
            pass
        for fd in (env.child_fd, getattr(env, "child_w", None)):
            if fd is not None:
                try:
                    os.close(fd)
                except OSError:
                    pass
    return trace, out, n, facts


def show(trace, out, n):
    return " ".join(trace) + " | " + out + " | " + str(n)


def show_all(trace, out, n, facts):
    """the earlier runs of the same group object, then the run the case's k belongs to"""
    return " || ".join([show(*r[:3]) for r in facts.get("earlier", [])] + [show(trace, out, n)])


def oracle(ctx, case, trace, out, facts):
    """the property text on the implementation's own trace, for every run of the group's history (each earlier run was
    cancelled too and is judged exactly like the last one, on its own trace and on the tables as it left them)"""
    prev = case.get("prev") or []
    ok = ctx.require(len(facts.get("earlier", [])) == len(prev), "an earlier run of the group did not end after its cancellation",
                     case, show_all(trace, out, 0, facts), "ends-cancelled")
    for j, (tr, o, n, f) in enumerate(facts.get("earlier", [])):
        oracle_run(ctx, case, prev[j], tr, o, f, f"run {j}: ")
    if ok:
        oracle_run(ctx, case, case["k"], trace, out, facts, f"run {len(prev)}: " if prev else "")


def oracle_run(ctx, case, k, trace, out, facts, which):
    obs = which + show(trace, out, 0) + " " + str({x: y for x, y in facts.items() if x != "earlier"})
    if k is None:
        return      # never cancelled: nothing is claimed (the run is only compared with the model)
    delivered = True
    ctx.require(out == "cancelled", "task did not end with CancelledError", case, obs, "ends-cancelled")
    for p, e in enumerate(trace):
        if e.startswith("st") and e.endswith("=8"):
            back = e[:-1] + "4"
            ctx.require(back in trace[p + 1:], f"terminal asked to go OPERATIONAL ({e}) is never asked back to SAFE-OPERATIONAL",
                        case, obs, "op-safeop")
        if e.startswith("slot") and e.endswith("=set"):
            ctx.require(e[:-3] + "clear" in trace[p + 1:], f"FMMU slot {e} never cleared", case, obs, "fmmu-freed")
    ctx.require(all(v is None for s in facts["slots"].values() for v in s), "FMMU slot table not empty at the end",
                case, obs, "fmmu-freed")
    if case["kind"] == "fast":
        ctx.require(facts["table_restored"], "program table entry not deleted", case, obs, "program-unregistered")
        ctx.require(facts["groups"] == 0, "sync_groups entry not removed", case, obs, "program-unregistered")
    if case["kind"] == "proc":
        ctx.require(not facts["running"], "child was not told to stop (runningValue still set)", case, obs, "child-stopped")
        ctx.require(facts["child_exited"] and facts["child_seen"], "task ended before the child's termination was observed",
                    case, obs, "child-stopped")
        ctx.require(not facts["reader_left"], "reader for the child's fd left registered", case, obs, "child-stopped")
    return delivered


def gen_spec(rng, nterm):
    spec = []
    for i in range(nterm):
        rw = rng.random() < 0.6
        insz = rng.choice([0, 2, 4])
        outsz = rng.choice([0, 2, 6])
        fmmu = rng.random() < 0.8
        need = (1 if fmmu and insz else 0) + (1 if fmmu and rw and outsz else 0)
        spec.append({"pos": 3 + 2 * i + rng.randrange(2), "rw": rw, "insz": insz, "outsz": outsz, "fmmu": fmmu,
                     "nf": rng.randrange(max(1, need), 5), "start": rng.choice([1, 2, 2, 4, 8])})
    rng.shuffle(spec)      # the group sorts by position itself
    return spec


def family(kind, spec, extra, cycles=CYCLES):
    """one terminal set -> the uncancelled run plus one case per await reached"""
    if extra.get("init"):       # what the library's start-up leaves: EBPFTerminal.apply_eeprom ends with SAFE-OPERATIONAL
        spec = [dict(t, start=4) for t in spec]
    base = {"kind": kind, "spec": spec, "terms": model_terms(spec), "cycles": cycles, **extra}
    first = dict(base, k=None)
    res = run_impl(first)
    yield first, res
    for k in range(res[2]):
        c = dict(base, k=k)
        yield c, run_impl(c)


def fixed_specs():
    T = lambda pos, rw, insz, outsz, fmmu=True, nf=3, start=2: {
        "pos": pos, "rw": rw, "insz": insz, "outsz": outsz, "fmmu": fmmu, "nf": nf, "start": start}
    return [
        [],
        [T(1, True, 2, 2)],
        [T(1, False, 2, 0)],
        [T(1, True, 0, 2, nf=1, start=1)],
        [T(1, True, 2, 2, fmmu=False)],
        [T(1, True, 2, 2, nf=2, start=1), T(2, False, 4, 0, start=4)],
        [T(5, True, 2, 2, start=8), T(2, True, 0, 6, start=1), T(9, False, 2, 2, start=2)],
        [T(1, True, 2, 2), T(2, True, 2, 2), T(3, True, 2, 2)],
    ]


def run(ctx):
    fams = []
    for spec in fixed_specs():
        fams.append(("slow", spec, {}))
        fams.append(("fast", spec, {"busy": [], "index": 5}))
    for _ in range(ctx.n(10, 400)):
        spec = gen_spec(ctx.rng, ctx.rng.randrange(0, 4))
        if ctx.rng.random() < 0.5:
            fams.append(("slow", spec, {}))
        else:
            busy = ctx.rng.sample(range(64), ctx.rng.randrange(0, 3))
            fams.append(("fast", spec, {"busy": busy, "index": ctx.rng.choice([i for i in range(64) if i not in busy])}))
    for se in (False, True):
        fams.append(("proc", [], {"selfExit": se}))
        fams.append(("proc", gen_spec(ctx.rng, 2), {"selfExit": se}))
    cases, impl = [], []

    def do(kind, spec, extra, cycles=CYCLES):
        n0 = None
        for c, (trace, out, n, facts) in family(kind, spec, extra, cycles):
            if c["k"] is None:
                n0 = n
            cases.append(c)
            impl.append(show_all(trace, out, n, facts))
            ctx.case(c, nontrivial=c["k"] is not None, kind=f"{kind}:{out}" + (":init" if c.get("init") else "") +
                     (f":start{len(c['prev']) + 1}" if c.get("prev") else ""))
            if facts.get("fmmu_active") and out == "cancelled":
                ctx.stats["note:fmmu-register-left-active-after-cancel"] += 1
            oracle(ctx, c, trace, out, facts)
        return n0
    for fi, (kind, spec, extra) in enumerate(fams):
        n0 = do(kind, spec, extra)
        if kind == "proc" or not n0:
            continue
        # the same group started again after a cancellation (start-up, OPERATIONAL request, cycles alike), and terminals that
        # went through the library's own initialisation; every await of the run that follows is a cancellation point again
        # (earlier runs are cancelled within the awaits of start-up + 2 cycles, the number the model's loops are given)
        n2 = n0 - 2 * (CYCLES - 2)
        firsts = sorted({n2 - 1, ctx.rng.randrange(n2)}) if fi < 16 or ctx.rng.random() < ctx.n(0.3, 1.0) else []
        for k1 in firsts:
            do(kind, spec, {**extra, "prev": [k1]}, cycles=2)
        if spec and all(t["insz"] or t["outsz"] for t in spec) and (fi < 16 or ctx.rng.random() < ctx.n(0.3, 1.0)):
            n1 = do(kind, spec, {**extra, "init": True}, cycles=2)
            if n1 and ctx.rng.random() < 0.5:
                do(kind, spec, {**extra, "init": True, "prev": [ctx.rng.randrange(n1), ctx.rng.randrange(n1)]}, cycles=2)
    ctx.extra["families"] = len(fams)
    model = ctx.drive(DRIVER, cases, "runCancel")
    if model is not None:
        for c, i, m in zip(cases, impl, model):
            ctx.agree("trace, outcome and await count at cancellation index k", c, i, m)


def replay(ctx, case):
    trace, out, n, facts = run_impl(case)
    oracle(ctx, case, trace, out, facts)
    return {"trace": show_all(trace, out, n, facts), "facts": {x: y for x, y in facts.items() if x != "earlier"}}


LEVEL_TEXT = ("Lean 4 proof over a structured-coroutine model with Python's cancellation semantics: for every cancellation index k, "
              "every terminal list and every number of cycles the slow and fast group end with CancelledError (or k is never reached "
              "and the run equals the uncancelled one), every OPERATIONAL request is followed by a SAFE-OPERATIONAL request for the same "
              "terminal, the FMMU slot table is empty at the end, the program-table and sync_groups entries are deleted, and the process "
              "group clears runningValue and observes the child's termination before it re-raises; the same for every run of a group that is "
              "started again and again, each run cancelled anywhere (runsOf, restart_slow, restart_fast: each run is a run on the same terminals in "
              "whatever AL state the run before left them). Tied to /repo by exact trace "
              "correspondence of the real coroutines with cancellation injected at every await reached in start-up and three cycles.")
LEVEL_NOTE = ("trusted: Lean kernel + propext/Classical.choice/Quot.sound; hand transcription Ebv.Coro validated (not verified) by differential "
              "traces; asyncio's cancellation delivery, pidfd/add_reader and multiprocessing are modelled (stub child); a second cancellation, "
              "AL errors, lost packets and self.running being cleared are outside the model")
TECHNIQUE = "Lean 4 induction over terminal lists and loop fuel on a coroutine semantics + differential trace correspondence at every await"
DESIGN_REF = "§4 C24"
