"""C23 — processes sharing an interface coordinate the dispatcher safely.
The real `ParallelEtherCat.run` (with the real `LockFile`, `FMMULock`, `get_ethertype`) of several
participant objects is driven in ONE process: each participant runs in its own thread, the modules
`ebpfcat.ebpfcat` / `ebpfcat.lock` see an emulated file system, bpf object layer and netlink attach
(module attributes replaced, no source change), and every emulated call that touches shared state is a
scheduling point at which a thread waits for its turn in the case's schedule.  The per-participant
operation traces and the final shared state are compared with the Lean model `Ebv.Parallel`; the
property's four clauses are evaluated on the implementation's states after every step."""
import errno
import os as _os
import threading

ID = "C23"
LEAN_MODULES = ["Ebv.Props.C23", "Ebv.Props.C23Hist"]
MODEL_MODULES = ["Ebv.Model.Parallel", "Ebv.Model.FmmuLock"]
DRIVER = "Drivers/C23.lean"
THEOREMS = [
    "Ebv.C23.ethertypes_distinct", "Ebv.C23.single_installer", "Ebv.C23.fmmu_windows_disjoint",
    "Ebv.C23.installed_while_running_refuted", "Ebv.C23.installed_while_running_stale_refuted",
    "Ebv.C23.installed_while_running_partial", "Ebv.C23.ethertypes_distinct_fault_refuted",
    # the addresses ParallelEtherCat.get_fmmu_addr hands out (what a participant actually receives)
    "Ebv.C23.given_in_window", "Ebv.C23.given_nodup_blocks", "Ebv.C23.fmmu_given_disjoint",
    # histories of the bitmap (Ebv.FmmuLock): every operation of FMMULock interleaved call by call, restarts, several objects, kills
    "Ebv.C23Hist.alloc_remove_interleaving_safe", "Ebv.C23Hist.hist_given_in_window", "Ebv.C23Hist.hist_bitmap_exact",
    "Ebv.C23Hist.hist_bitmap_exact_fresh", "Ebv.C23Hist.remove_preserves_others", "Ebv.C23Hist.remove_clears_own_bit",
    "Ebv.C23Hist.unlocked_remove_refuted",
]
TRUSTED = ["hand-written model Ebv.Parallel of ParallelEtherCat.run / LockFile / FMMULock, tied by exact correspondence of per-participant "
           "operation traces, final shared state, first violating prefix of each clause and the Quiet hypothesis under explicit schedules",
           "harness/vh/props/c23.py: emulated file system / bpf object / netlink layer and the thread-per-participant scheduler",
           "ethertype range, bitmap size, slot count and window geometry regenerated into Ebv.Generated.Consts (probed on the real classes)",
           "hand-written model Ebv.FmmuLock of FMMULock.__init__ / get_next_addr / remove used directly (scripts of operations per participant), "
           "tied by exact correspondence of per-participant call traces, objects (number, addresses handed out, in use), final bitmap, lock holder "
           "and first overlapping prefix under explicit schedules with kills"]
ASSUMPTIONS = ["process identity and liveness are emulated: os.getpid() = 1000 + participant number (this is what the lock files contain), "
               "os.kill(pid, 0) and reading a lock file are scheduling points; a participant listed in case['crash'] is dead after its last "
               "scheduled operation (a dead one holds / installs / runs nothing for the oracle), ended ones are dead, all others alive; "
               "the unchanged code calls neither, so the model has no liveness",
               "POSIX semantics as emulated: open('x')/O_EXCL atomic, rename(dir, dir) succeeds iff target absent or empty, rmdir iff empty, "
               "lockf record locks per process, bpffs pin = name -> object, netlink IFLA_XDP_FD replaces / fd -1 detaches whatever is attached",
               "one scheduling point per call that touches shared state; makedirs(exist_ok), connect, EtherXDP(), close, sleep and the second "
               "os.open of the never-unlinked bitmap file commute with everything and are merged into the following operation; "
               "shutil.rmtree is one step",
               "a crashed participant = one that is not scheduled again (its record lock stays held; a real crash would release it)",
               "histories of FMMULock objects: a participant is a thread of control with its own emulated pid; lockf excludes participants "
               "from each other, an operation that does not call lockf is not excluded by anybody; killing a participant (schedule entry -1-p) "
               "releases its record lock as the kernel does, writes nothing, and its windows are no longer in use; an object is in use from the "
               "return of its constructor to the first system call of its remove()"]
RULE = ("case = 2-4 participants (scripted randrange draws for ethertype and FMMU slot, number of get_fmmu_addr calls, optional attach fault), "
        "optional pre-existing bitmap file (initialised with random bits / wrong length), explicit schedule of participant numbers: "
        "the five witness schedules, a family of split points of the last-leaver race, random burst / fine-grained / session-boundary "
        "schedules, and the family 'one participant is killed holding its ethertype lock file, two others then start concurrently' "
        "(every single preemption + random fine-grained interleavings), and the family 'process numbers one bit apart (every bit of the 9-bit field, "
        "both complements), 1 / 2 / maximal number of get_fmmu_addr calls, all running together'; the family 'the last leaver's FMMULock.remove() "
        "is cut after each of its operations by a new session's FMMULock(...) whose number lies in the same bitmap byte / another byte / is the same, "
        "a third participant then joins and draws that number'; histories of FMMULock objects used directly (scripts of new / get_next_addr / remove "
        "per participant, 2-4 participants, schedule of single system calls and kills): remove() cut at every call by a constructor in the same byte "
        "followed by a third allocation, remove() against remove(), restart with the same draw, two objects in one participant, a participant killed "
        "at every point of constructor and remove(), random scripts and schedules over a small pool of numbers and earlier file contents; the oracle "
        "keeps the set of objects in use itself (window start at construction, addresses handed out) and never reads the bitmap; the window clause is judged on the addresses the "
        "real ParallelEtherCat.get_fmmu_addr RETURNED (4096-byte blocks) as well as on the process windows; a participant left unscheduled is a crash; non-trivial = at least two participants performed 5+ operations")
IF = "ifc23"
LOCKDIR = f"/run/lock/ebpf.{IF}.lock"
PIN = f"/sys/fs/bpf/{IF}/programs"
MBX = f"/run/ebpf/{IF}"
FM = f"/run/ebpf/{IF}.fmmu"


class Stop(BaseException):
    """the schedule is over: the participant is abandoned where it stands (crash)"""


class FileNode:
    def __init__(self, owner):
        self.owner = owner
        self.data = bytearray()


class World:
    """shared state of the emulated machine"""
    def __init__(self, fm0):
        self.dirs = {"/": {}, "/run": {}, "/run/lock": {}, "/sys": {}, "/sys/fs": {}, "/sys/fs/bpf": {}}
        self.pins = {}          # path -> map id
        self.attached = None    # map id used by the attached dispatcher
        self.fds = {}           # fd -> [FileNode, offset, path]
        self.maps = {}          # (pid, fd) -> map id
        self.reclock = {}       # id(FileNode) -> pid holding the whole-file lock
        self.nfd = 100
        self.ntmp = 0
        if fm0 is not None:
            self.dirs["/run/ebpf"] = {}
            n = FileNode(None)
            n.data = bytearray(fm0)
            self.dirs["/run/ebpf"][f"{IF}.fmmu"] = n

    # ---- path helpers
    def split(self, path):
        d, _, n = path.rstrip("/").rpartition("/")
        return d or "/", n

    def lookup(self, path):
        if path in self.dirs:
            return self.dirs[path]
        d, n = self.split(path)
        if d in self.dirs and n in self.dirs[d]:
            return self.dirs[d][n]
        return None

    def isdir(self, path):
        return path in self.dirs

    def mkdir(self, path):
        d, n = self.split(path)
        if d not in self.dirs:
            raise FileNotFoundError(errno.ENOENT, "no such directory", path)
        if self.lookup(path) is not None:
            raise FileExistsError(errno.EEXIST, "exists", path)
        self.dirs[path] = {}
        self.dirs[d][n] = self.dirs[path]

    def makedirs(self, path, exist_ok):
        parts = path.strip("/").split("/")
        cur = ""
        for k, part in enumerate(parts):
            cur += "/" + part
            if cur in self.dirs:
                if k == len(parts) - 1 and not exist_ok:
                    raise FileExistsError(errno.EEXIST, "exists", path)
                continue
            self.mkdir(cur)

    def create(self, path, owner, excl):
        d, n = self.split(path)
        if d not in self.dirs:
            raise FileNotFoundError(errno.ENOENT, "no such directory", path)
        node = self.dirs[d].get(n)
        if node is not None:
            if excl:
                raise FileExistsError(errno.EEXIST, "exists", path)
            if isinstance(node, dict):
                raise IsADirectoryError(errno.EISDIR, "is a directory", path)
            return node, False
        node = FileNode(owner)
        self.dirs[d][n] = node
        return node, True

    def unlink(self, path):
        d, n = self.split(path)
        if path in self.pins:
            del self.pins[path]
            return
        node = self.dirs.get(d, {}).get(n)
        if node is None:
            raise FileNotFoundError(errno.ENOENT, "no such file", path)
        if isinstance(node, dict):
            raise IsADirectoryError(errno.EISDIR, "is a directory", path)
        del self.dirs[d][n]

    def rmdir(self, path):
        if path not in self.dirs:
            raise FileNotFoundError(errno.ENOENT, "no such directory", path)
        if self.dirs[path]:
            raise OSError(errno.ENOTEMPTY, "directory not empty", path)
        d, n = self.split(path)
        del self.dirs[d][n]
        del self.dirs[path]

    def rmtree(self, path):
        if path not in self.dirs:
            raise FileNotFoundError(errno.ENOENT, "no such directory", path)
        for sub in [p for p in self.dirs if p.startswith(path + "/")]:
            del self.dirs[sub]
        d, n = self.split(path)
        del self.dirs[d][n]
        del self.dirs[path]

    def rename_dir(self, src, dst):
        if src not in self.dirs:
            raise FileNotFoundError(errno.ENOENT, "no such directory", src)
        if dst in self.dirs:
            if self.dirs[dst]:
                raise OSError(errno.ENOTEMPTY, "directory not empty", dst)
        elif self.lookup(dst) is not None:
            raise NotADirectoryError(errno.ENOTDIR, "not a directory", dst)
        dd, dn = self.split(dst)
        if dd not in self.dirs:
            raise FileNotFoundError(errno.ENOENT, "no such directory", dst)
        sd, sn = self.split(src)
        node = self.dirs.pop(src)
        del self.dirs[sd][sn]
        self.dirs[dst] = node
        self.dirs[dd][dn] = node

    # ---- what the oracle and the correspondence look at
    def members(self):
        d = self.dirs.get(LOCKDIR)
        if d is None:
            return None
        return [(name, node.owner) for name, node in d.items()]

    def fm(self):
        n = self.lookup(FM)
        return None if n is None else bytes(n.data)


class Sched:
    """turn-taking between participant threads: a participant performs one gated operation per turn"""
    def __init__(self, n):
        self.cv = threading.Condition()
        self.turn = None          # pid allowed to perform its next operation
        self.parked = [False] * n  # waiting at a gate
        self.ended = [False] * n   # thread finished
        self.dead = [False] * n    # killed: never scheduled again
        self.stop = False
        self.local = threading.local()

    def pid(self):
        return self.local.pid

    def gate(self):
        """called by a participant before an operation on shared state"""
        if self.stop:
            raise Stop()
        i = self.local.pid
        with self.cv:
            if self.stop:
                raise Stop()
            self.parked[i] = True
            if self.turn == i:      # the previous operation (and the code after it) is complete
                self.turn = None
            self.cv.notify_all()
            while self.turn != i and not self.stop:
                self.cv.wait()
            if self.stop:
                raise Stop()
            self.parked[i] = False

    def finish(self):
        i = self.local.pid
        with self.cv:
            self.ended[i] = True
            if self.turn == i:
                self.turn = None
            self.cv.notify_all()

    def settle(self, i):
        with self.cv:
            while not (self.parked[i] or self.ended[i]) or self.turn is not None:
                self.cv.wait()

    def grant(self, i):
        """let participant i perform one operation; returns when it waits at its next gate or has ended"""
        with self.cv:
            if self.ended[i] or self.dead[i]:
                return False
            self.turn = i
            self.cv.notify_all()
            while self.turn is not None:
                self.cv.wait()
        return True

    def abandon(self):
        with self.cv:
            self.stop = True
            self.cv.notify_all()


class Machine:
    """the emulated os / tempfile / shutil / fcntl / bpf / netlink layer seen by ebpfcat.ebpfcat and ebpfcat.lock"""
    def __init__(self, case):
        self.case = case
        n = len(case["scripts"] if "scripts" in case else case["cfgs"])
        self.w = World(bytes.fromhex(case["fm0"]) if case.get("fm0") is not None else None)
        self.s = Sched(n)
        self.tr = [[] for _ in range(n)]
        self.glob = []                # all operations in the order they happened
        self.pos = 0                  # number of schedule entries consumed (for the emulated liveness)
        self.et_i = [0] * n
        self.fm_i = [0] * n
        self.draws = [list(c["fm"]) for c in case["cfgs"]] if "cfgs" in case else [[] for _ in range(n)]
        self.removing = [None] * n    # histories: the object whose remove() has been called and has not performed an operation yet
        self.et_fallback = [None] * n
        self.joined = [None] * n      # ethertype of the member file the participant created, while it exists for it
        self.phase = ["start"] * n    # start | install | files | running | exit | done | failed

    def emit(self, tok):
        pid = self.s.pid()
        self.tr[pid].append(tok)
        self.glob.append((pid, tok, PIN in self.w.pins))
        if self.removing[pid] is not None:      # the first operation of remove(): the window is no longer in use
            self.removing[pid]["running"] = False
            self.removing[pid] = None

    def kill_proc(self, p):
        """the process dies where it stands: the kernel drops its record locks, nothing is written, it is never scheduled again"""
        if 0 <= p < len(self.tr):
            self.s.dead[p] = True
            for k in [k for k, v in self.w.reclock.items() if v == p]:
                del self.w.reclock[k]

    def kind(self, path):
        if path == PIN:
            return "pin"
        if path == MBX:
            return "mbx"
        if path == FM:
            return "fm"
        if path == LOCKDIR:
            return "lockdir"
        if path.startswith(LOCKDIR + "/"):
            return "member"
        if path.startswith("/run/lock/tmp"):
            return "tmp"
        return "other"

    # ---- ebpfcat.ebpfcat: os, tempfile, shutil, open, obj_get, obj_pin, create_map, randrange, sleep
    def makedirs(self, path, exist_ok=False):
        if self.kind(path) in ("lockdir", "tmp", "member"):
            self.s.gate()
            self.emit(f"makedirs:{self.kind(path)}")
        self.w.makedirs(path, exist_ok)

    def mkdtemp(self, dir=None):
        self.s.gate()
        self.w.ntmp += 1
        path = f"{dir}/tmp{self.w.ntmp}"
        self.w.mkdir(path)
        self.emit("mkdtemp")
        return path

    def open(self, path, mode="r"):
        m = self
        pid = self.s.pid()
        name = path.rsplit("/", 1)[1]
        et = name.split(".")[0]
        if mode in ("r", "rt"):
            return self.open_read(path, et)
        if mode not in ("x", "w"):
            raise AssertionError(f"unexpected open mode {mode}")
        self.s.gate()
        try:
            node, _ = self.w.create(path, pid, mode == "x")
        except FileExistsError:
            self.emit(f"open_{mode}:{et}:exists")
            raise
        except FileNotFoundError:
            self.emit(f"open_{mode}:{et}:enoent")
            raise
        self.emit(f"open_{mode}:{et}:ok")

        class F:
            def __enter__(s):
                return s

            def __exit__(s, *a):
                return False

            def write(s, text):
                node.data += text.encode()
        return F()

    def open_read(self, path, et):
        """reading a lock file (its content is what the creator wrote: the emulated pid)"""
        self.s.gate()
        node = self.w.lookup(path)
        if node is None or isinstance(node, dict):
            self.emit(f"open_r:{et}:enoent")
            raise FileNotFoundError(errno.ENOENT, "no such file", path)
        self.emit(f"open_r:{et}:ok")
        text = bytes(node.data).decode()

        class R:
            def __enter__(s):
                return s

            def __exit__(s, *a):
                return False

            def read(s, n=-1):
                return text
        return R()

    PID0 = 1000

    def getpid(self):
        return self.PID0 + self.s.pid()

    def alive(self, q):
        """emulated liveness: a participant that has ended is dead; one listed in case["crash"] is killed after its last
        scheduled operation; everybody else is alive (possibly just slow)"""
        if not (0 <= q < len(self.phase)) or self.s.ended[q]:
            return False
        return not (q in self.case.get("crash", ()) and q not in self.case["sched"][self.pos:])

    def kill(self, pid, sig):
        if sig != 0:
            raise AssertionError("only the liveness probe os.kill(pid, 0) is emulated")
        self.s.gate()
        q = pid - self.PID0
        if q == self.s.pid() or self.alive(q):
            self.emit("kill:alive")
            return
        self.emit("kill:dead")
        raise ProcessLookupError(errno.ESRCH, "no such process")

    def rename(self, src, dst):
        self.s.gate()
        try:
            self.w.rename_dir(src, dst)
        except OSError:
            self.emit("rename:fail")
            raise
        self.emit("rename:ok")

    def rmtree(self, path):
        self.s.gate()
        self.emit("rmtree_lock" if self.kind(path) == "lockdir" else f"rmtree_{self.kind(path)}")
        self.w.rmtree(path)

    def remove(self, path):
        k = self.kind(path)
        tok = {"pin": "remove_pin", "member": "remove_member", "mbx": "mbx_remove"}.get(k, f"remove_{k}")
        self.s.gate()
        try:
            self.w.unlink(path)
        except OSError:
            self.emit(tok + ":enoent")
            raise
        self.emit(tok + ":ok")

    def rmdir(self, path):
        self.s.gate()
        try:
            self.w.rmdir(path)
        except OSError:
            self.emit("rmdir:fail")
            raise
        self.emit("rmdir:ok")

    def create_map(self, *a, **k):
        self.s.gate()
        pid = self.s.pid()
        self.w.nfd += 1
        self.w.maps[(pid, self.w.nfd)] = pid      # a table is named by its creator
        self.emit("create_map")
        return self.w.nfd

    def obj_get(self, path):
        self.s.gate()
        pid = self.s.pid()
        if path not in self.w.pins:
            self.emit("obj_get:enoent")
            raise FileNotFoundError(errno.ENOENT, "no such object", path)
        self.w.nfd += 1
        self.w.maps[(pid, self.w.nfd)] = self.w.pins[path]
        self.emit("obj_get:ok")
        return self.w.nfd

    def obj_pin(self, path, fd):
        self.s.gate()
        pid = self.s.pid()
        d, n = self.w.split(path)
        if path in self.w.pins or self.w.lookup(path) is not None:
            self.emit("obj_pin:exists")
            raise FileExistsError(errno.EEXIST, "exists", path)
        if d not in self.w.dirs:
            raise FileNotFoundError(errno.ENOENT, "no such directory", path)
        self.w.pins[path] = self.w.maps[(pid, fd)]
        self.emit("obj_pin:ok")

    def randrange_et(self, a, b):
        pid = self.s.pid()
        draws = self.case["cfgs"][pid]["et"]
        k = self.et_i[pid]
        self.et_i[pid] += 1
        return draws[k] if k < len(draws) else a + (k - len(draws))

    def randrange_fm(self, a, b):
        pid = self.s.pid()
        draws = self.draws[pid]
        k = self.fm_i[pid]
        self.fm_i[pid] += 1
        if k < len(draws):
            return draws[k] if a <= draws[k] < b else self.randrange_fm(a, b)   # randrange never leaves its range
        if k - len(draws) + 1 >= b:      # every slot tried: the real loop never ends
            while True:
                self.s.gate()
        return a + (k - len(draws))

    async def attach(self, ebpf, network, *a, **k):
        self.s.gate()
        pid = self.s.pid()
        if self.case["cfgs"][pid]["attach_fails"]:
            self.emit("attach:fail")
            raise OSError(errno.EPERM, "netlink refused")
        self.w.attached = self.w.maps[(pid, ebpf.programs)]
        self.emit("attach")

    async def detach(self, ebpf, network, *a, **k):
        self.s.gate()
        self.w.attached = None
        self.emit("detach")

    # ---- ebpfcat.lock: os.open/write/pread/pwrite/ftruncate/close/remove/makedirs, fcntl.lockf
    def os_open(self, path, flags, mode=0o777):
        k = self.kind(path)
        excl = bool(flags & _os.O_EXCL)
        if k == "fm" and not excl and flags & _os.O_CREAT:
            self.s.gate()                    # FMMULock: open-or-create, cannot fail
            node, _ = self.w.create(path, self.s.pid(), False)
            self.emit("fm_open")
        elif k == "fm" and not excl and self.w.lookup(path) is not None:
            node = self.w.lookup(path)       # (older code) second open of the never-unlinked file: no effect
        else:
            self.s.gate()
            tok = f"{k}_open" if excl else f"{k}_reopen"
            try:
                if flags & _os.O_CREAT:
                    node, created = self.w.create(path, self.s.pid(), excl)
                else:
                    node = self.w.lookup(path)
                    if node is None or isinstance(node, dict):
                        raise FileNotFoundError(errno.ENOENT, "no such file", path)
            except FileExistsError:
                self.emit(tok + ":exists")
                raise
            except FileNotFoundError:
                self.emit(tok + ":enoent")
                raise
            self.emit(tok + (":created" if excl else ":ok"))
        self.w.nfd += 1
        self.w.fds[self.w.nfd] = [node, 0, k]
        return self.w.nfd

    def os_write(self, fd, data):
        node, off, k = self.w.fds[fd]
        self.s.gate()
        node.data[off:off + len(data)] = data
        self.w.fds[fd][1] = off + len(data)
        self.emit(f"{k}_write")
        return len(data)

    def os_pread(self, fd, n, off):
        node, _, k = self.w.fds[fd]
        self.s.gate()
        out = bytes(node.data[off:off + n])
        self.emit(f"{k}_read:{len(out)}" if n != 1 else f"{k}_rread:{'ok' if out else 'short'}")
        return out

    def os_pwrite(self, fd, data, off):
        node, _, k = self.w.fds[fd]
        self.s.gate()
        if len(node.data) < off:
            node.data += bytes(off - len(node.data))
        node.data[off:off + len(data)] = data
        self.emit(f"{k}_pwrite:{off}:{data[0]}" if len(data) == 1 else f"{k}_fix")
        return len(data)

    def os_ftruncate(self, fd, n):
        node, _, k = self.w.fds[fd]
        self.s.gate()
        if len(node.data) < n:
            node.data += bytes(n - len(node.data))
        del node.data[n:]
        self.emit(f"{k}_trunc")

    def os_close(self, fd):
        self.w.fds.pop(fd, None)

    # further system calls a rewrite of ebpfcat.lock may use (not used by the current code): a scheduling point each
    def os_fstat(self, fd):
        node, _, k = self.w.fds[fd]
        self.s.gate()
        self.emit(f"{k}_fstat:{len(node.data)}")
        return _os.stat_result((0o100644, id(node) & 0xffff, 0, 1, 0, 0, len(node.data), 0, 0, 0))

    def os_stat(self, path):
        k = self.kind(path)
        self.s.gate()
        node = self.w.lookup(path)
        if node is None:
            self.emit(f"{k}_stat:enoent")
            raise FileNotFoundError(errno.ENOENT, "no such file", path)
        n = 0 if isinstance(node, dict) else len(node.data)
        self.emit(f"{k}_stat:{n}")
        return _os.stat_result(((0o40755 if isinstance(node, dict) else 0o100644), 1, 0, 1, 0, 0, n, 0, 0, 0))

    def os_lseek(self, fd, pos, how):
        node, off, k = self.w.fds[fd]
        off = {0: pos, 1: off + pos, 2: len(node.data) + pos}[how]
        self.w.fds[fd][1] = off
        return off

    def os_read(self, fd, n):
        node, off, k = self.w.fds[fd]
        self.s.gate()
        out = bytes(node.data[off:off + n])
        self.w.fds[fd][1] = off + len(out)
        self.emit(f"{k}_read:{len(out)}")
        return out

    def lockf(self, fd, cmd, length=0, start=0, whence=0):
        import fcntl
        node, _, k = self.w.fds[fd]
        pid = self.s.pid()
        if length or start:
            raise AssertionError("byte-range lock not expected in run()")
        self.s.gate()
        if cmd & fcntl.LOCK_UN:
            if self.w.reclock.get(id(node)) == pid:
                del self.w.reclock[id(node)]
            self.emit(f"{k}_unlock")
            return
        while self.w.reclock.get(id(node), pid) != pid:
            if cmd & fcntl.LOCK_NB:
                raise BlockingIOError(errno.EAGAIN, "locked")
            self.s.gate()       # blocked: the turn passes without an operation
        self.w.reclock[id(node)] = pid
        self.emit(f"{k}_lock")


class Proxy:
    """stands in for a stdlib module inside ebpfcat.ebpfcat / ebpfcat.lock: only the listed functions exist
    (emulated), constants come from the real module, anything else is refused — the real file system,
    /sys/fs/bpf and the network are never reached"""
    def __init__(self, real, **funcs):
        self.__dict__["_real"] = real
        self.__dict__["_funcs"] = funcs

    def __getattr__(self, name):
        f = self.__dict__["_funcs"]
        if name in f:
            return f[name]
        v = getattr(self.__dict__["_real"], name)
        if callable(v):
            raise AssertionError(f"{self.__dict__['_real'].__name__}.{name} is not emulated")
        return v


import contextlib


@contextlib.contextmanager
def installed(m):
    import fcntl
    import shutil
    import tempfile
    import ebpfcat.ebpfcat as eb
    import ebpfcat.ethercat as ecm
    import ebpfcat.lock as lk
    from .. import fsim

    async def nosleep(t):
        return None

    async def connect(self):
        return None
    ebos = Proxy(_os, makedirs=m.makedirs, rename=m.rename, remove=m.remove, rmdir=m.rmdir,
                 getpid=m.getpid, kill=m.kill)
    lkos = Proxy(_os, makedirs=m.makedirs, open=m.os_open, write=m.os_write, pread=m.os_pread, pwrite=m.os_pwrite,
                 ftruncate=m.os_ftruncate, close=m.os_close, remove=m.remove, fstat=m.os_fstat, stat=m.os_stat,
                 lseek=m.os_lseek, read=m.os_read)
    patches = [
        (eb, "os", ebos), (eb, "tempfile", Proxy(tempfile, mkdtemp=m.mkdtemp)),
        (eb, "shutil", Proxy(shutil, rmtree=m.rmtree)), (eb, "open", m.open),
        (eb, "obj_get", m.obj_get), (eb, "obj_pin", m.obj_pin), (eb, "create_map", m.create_map),
        (eb, "randrange", m.randrange_et), (eb, "sleep", nosleep),
        (lk, "os", lkos), (lk, "fcntl", Proxy(fcntl, lockf=m.lockf)), (lk, "randrange", m.randrange_fm),
        (eb.EtherXDP, "attach", lambda self, *a, **k: m.attach(self, *a, **k)),
        (eb.EtherXDP, "detach", lambda self, *a, **k: m.detach(self, *a, **k)),
        (eb.EtherXDP, "close", lambda self: None),
        (ecm.EtherCat, "connect", connect),
    ]
    missing = object()
    saved = []
    for obj, name, new in patches:
        saved.append((obj, name, obj.__dict__.get(name, missing)))
        setattr(obj, name, new)
    try:
        with fsim.fake_maps():
            yield
    finally:
        for obj, name, old in reversed(saved):
            if old is missing:
                delattr(obj, name)
            else:
                setattr(obj, name, old)


def drive(coro):
    """run a coroutine that never really suspends (every await is emulated)"""
    try:
        coro.send(None)
    except StopIteration as e:
        return e.value
    coro.close()
    raise AssertionError("participant suspended outside the emulated layer")


def participant(m, pid, objs, info, cms):
    import ebpfcat.ebpfcat as eb
    s = m.s
    s.local.pid = pid
    cm = None
    entered = False
    try:
        pe = eb.ParallelEtherCat(IF)
        objs[pid] = pe
        cm = pe.run()
        drive(cm.__aenter__())
        entered = True
        base0 = pe.fmmu_lock_file.base_addr
        addrs = [pe.get_fmmu_addr() for _ in range(m.case["cfgs"][pid]["naddr"])]
        info[pid] = (base0, addrs)
        m.phase[pid] = "running"
        s.gate()
        m.emit("leave")
        m.phase[pid] = "exit"
        entered = False
        drive(cm.__aexit__(None, None, None))
        m.phase[pid] = "done"
    except Stop as e:
        if entered:
            try:
                drive(cm.__aexit__(Stop, e, None))
            except BaseException:
                pass
        m.phase[pid] += "/stopped"
    except BaseException as e:
        if entered:      # what `async with` does when the body raises: run the exit path with the exception
            try:
                m.phase[pid] = "exit"
                drive(cm.__aexit__(type(e), e, None))
            except BaseException:
                pass
        m.phase[pid] = "failed" if "stopped" not in m.phase[pid] and not m.s.stop else m.phase[pid] + "/stopped"
        info[pid] = info.get(pid) or type(e).__name__
    finally:
        cms[pid] = cm
        s.finish()


def observe(m, objs, info):
    """the observable state after a step, from the emulated machine and the real participant objects"""
    w = m.w
    n = len(m.case["cfgs"])
    st = []
    for pid in range(n):
        tr = m.tr[pid]
        alive = m.phase[pid] not in ("done", "failed") and m.alive(pid)    # a killed process holds / installs / runs nothing
        member = install = joiner = False
        for t in tr:
            if t == "rename:ok":
                member = install = True
            elif t == "rename:fail":
                joiner = True
            elif t.startswith(("open_x:", "open_w:")) and t.endswith(":ok") and joiner:
                member = True
            elif t.startswith("remove_member") or t == "rmtree_lock":
                member = False
            if t.startswith("obj_pin") or t == "attach:fail":
                install = False
        pe = objs.get(pid)
        st.append({
            "running": m.phase[pid] == "running" and alive, "member": member and alive, "install": install and alive,
            "et": getattr(pe, "ethertype", None),
            "table": w.maps.get((pid, getattr(pe, "programs", None))),
            "win": info.get(pid) if m.phase[pid] == "running" else None,
        })
    return {"procs": st, "attached": w.attached, "pin": w.pins.get(PIN)}


def run_impl(case):
    """returns (per-participant traces, final observation, list of observations after every prefix)"""
    m = Machine(case)
    n = len(case["cfgs"])
    objs, info, cms = {}, {}, {}
    with installed(m):
        threads = [threading.Thread(target=participant, args=(m, pid, objs, info, cms), daemon=True) for pid in range(n)]
        for t in threads:
            t.start()
        for pid in range(n):
            m.s.settle(pid)
        obs = [observe(m, objs, info)]
        for k, pid in enumerate(case["sched"]):
            m.pos = k + 1
            if 0 <= pid < n:
                m.s.grant(pid)
            obs.append(observe(m, objs, info))
        m.s.abandon()
        for t in threads:
            t.join(30)
        if any(t.is_alive() for t in threads):
            raise RuntimeError("participant thread did not end")
        for cm in cms.values():      # no generator of the real code may outlive the emulated layer
            if cm is not None:
                try:
                    drive(cm.aclose())
                except BaseException:
                    pass
    return m, objs, info, obs


# ---- histories of FMMULock objects used directly ---------------------------------------------------------------
# case = {"scripts": [[[op, arg], ...] per participant], "sched": [p >= 0: participant p performs its next call,
#         -1 - p: participant p is killed], "fm0": hex or None};  ops: ["new", draws] = FMMULock(file),
#         ["addr", k] = get_next_addr() on the participant's k-th object, ["rm", k] = its remove()

def hist_participant(m, pid, mine, errors):
    import ebpfcat.lock as lk
    s = m.s
    s.local.pid = pid
    try:
        for op, arg in m.case["scripts"][pid]:
            if op == "new":
                m.draws[pid], m.fm_i[pid] = list(arg), 0
                fl = lk.FMMULock(FM)
                # declared facts the oracle works with: the window start at construction and every address handed out
                mine.append({"fl": fl, "base0": fl.base_addr, "addrs": [], "running": True})
                continue
            o = mine[arg] if arg < len(mine) and mine[arg]["running"] else None
            if o is None or op == "addr":
                s.gate()
                if o is not None:
                    try:
                        o["addrs"].append(o["fl"].get_next_addr())
                        m.emit(f"addr:{o['addrs'][-1]}")
                    except RuntimeError:
                        m.emit("addr:err")
                continue
            m.removing[pid] = o
            try:
                o["fl"].remove()
            except Stop:
                raise
            except Exception:      # e.g. the byte could not be read: remove() raises after its unlock
                pass
    except Stop:
        pass
    except BaseException as e:
        errors[pid] = f"{type(e).__name__}: {e}"
    finally:
        s.finish()


def in_use(m, objs):
    """(window start, addresses handed out) of every object in use: constructed, remove() not begun, owner alive"""
    return [(o["base0"], list(o["addrs"])) for pid, mine in enumerate(objs) if not m.s.dead[pid] for o in mine if o["running"]]


def run_hist(case):
    m = Machine(case)
    n = len(case["scripts"])
    objs = [[] for _ in range(n)]
    errors = {}
    with installed(m):
        threads = [threading.Thread(target=hist_participant, args=(m, pid, objs[pid], errors), daemon=True) for pid in range(n)]
        for t in threads:
            t.start()
        for pid in range(n):
            m.s.settle(pid)
        obs = [in_use(m, objs)]
        for e in case["sched"]:
            if e < 0:
                m.kill_proc(-1 - e)
            elif e < n:
                m.s.grant(e)
            obs.append(in_use(m, objs))
        m.finished = list(m.s.ended)      # before the remaining threads are abandoned
        m.s.abandon()
        for t in threads:
            t.join(30)
        if any(t.is_alive() for t in threads):
            raise RuntimeError("participant thread did not end")
    return m, objs, errors, obs


def overlap(wins):
    """the window clause on declared facts: wins = [(window start, addresses handed out)] of the objects in use"""
    ws = [(b, b + 4096 * (len(a) + 1)) for b, a in wins]
    if any(x[0] < y[1] and y[0] < x[1] for i, x in enumerate(ws) for y in ws[i + 1:]):
        return True
    gs = [frozenset(c for x in a for c in (x >> 12, (x + 4095) >> 12)) for b, a in wins]
    return any(x & y for i, x in enumerate(gs) for y in gs[i + 1:])


def outside(wins):
    """an address handed out does not lie (with its whole 4096-byte block) in the process window the object was given"""
    return any((x >> 22) != (b >> 22) or ((x + 4095) >> 22) != (b >> 22) for b, a in wins for x in a)


def show_hist(case, m, objs, fw):
    parts = []
    for pid, mine in enumerate(objs):
        st = "dead" if m.s.dead[pid] else "done" if m.finished[pid] else "active"
        os_ = ",".join(f"{o['base0'] >> 22}:{len(o['addrs'])}:{o['addrs'][-1] if o['addrs'] else 0}:{sum(o['addrs'])}:"
                       f"{'R' if o['running'] and not m.s.dead[pid] else '-'}" for o in mine)
        parts.append(" ".join(m.tr[pid]) + f" # {st} objs=[{os_}]")
    fm = m.w.fm()
    node = m.w.lookup(FM)
    lock = None if node is None else m.w.reclock.get(id(node))
    opt = lambda x: "-" if x is None else str(x)
    return " ; ".join(parts) + f" ;; fm={'-' if fm is None else 'x' + fm.hex()} lock={opt(lock)} ;; fw={opt(fw)}"


def evaluate_hist(ctx, case):
    import logging
    logging.disable(logging.CRITICAL)
    try:
        m, objs, errors, obs = run_hist(case)
    finally:
        logging.disable(logging.NOTSET)
    fw = first(obs, overlap)
    out = first(obs, outside)
    line = show_hist(case, m, objs, fw)
    seen = (f"first prefix after which two objects in use overlap: {fw}; objects in use then: "
            f"{[(b >> 22, len(a)) for b, a in obs[fw]] if fw is not None else None}; errors {errors}")
    ctx.require(fw is None, "logical address windows of two FMMULock objects in use overlap", case, seen)
    ctx.require(out is None, "get_next_addr handed out an address outside the object's own process window", case, seen)
    ctx.require(not errors, "an FMMULock operation raised", case, seen)
    return line, fw, m


def first(obs, bad):
    for k, o in enumerate(obs):
        if bad(o):
            return k
    return None


def clauses(obs):
    """the property text on the implementation's states: index of the first prefix violating each clause"""
    def ed(o):
        ets = [p["et"] for p in o["procs"] if p["member"]]
        return len(ets) != len(set(ets))

    def si(o):
        return sum(1 for p in o["procs"] if p["install"]) > 1

    def iw(o):
        return any(p["running"] and not (o["attached"] is not None and o["pin"] == o["attached"] and p["table"] == o["pin"])
                   for p in o["procs"])

    blocks = {}

    def given(addrs):
        """the 4096-byte blocks (12 bits address the packet) named by the addresses get_fmmu_addr RETURNED to one participant"""
        if id(addrs) not in blocks:
            blocks[id(addrs)] = frozenset(b for a in addrs for b in (a >> 12, (a + 4095) >> 12))
        return blocks[id(addrs)]

    def fw(o):
        run = [p for p in o["procs"] if p["running"]]
        ws = [(p["win"][0], p["win"][0] + 4096 * (len(p["win"][1]) + 1)) for p in run]
        if any(a[0] < b[1] and b[0] < a[1] for i, a in enumerate(ws) for b in ws[i + 1:]):
            return True
        gs = [given(p["win"][1]) for p in run]
        return any(a & b for i, a in enumerate(gs) for b in gs[i + 1:])
    return {"ed": first(obs, ed), "si": first(obs, si), "iw": first(obs, iw), "fw": first(obs, fw)}


def show(case, m, objs, info, v):
    n = len(case["cfgs"])
    w = m.w
    parts = []
    for pid in range(n):
        ph = m.phase[pid].split("/")[0]
        status = ph if ph in ("done", "failed", "running") else "active"
        pe = objs.get(pid)
        fl = getattr(pe, "fmmu_lock_file", None)
        no = 0
        if fl is not None and hasattr(fl, "base_addr"):
            k = len(info[pid][1]) if isinstance(info.get(pid), tuple) else 0
            no = (fl.base_addr - 4096 * k) >> 22
        tab = w.maps.get((pid, getattr(pe, "programs", None)))
        ga = "-"
        if status == "running":      # the values get_fmmu_addr returned: count, first, last, sum
            g = info[pid][1]
            ga = f"{len(g)}:{g[0] if g else 0}:{g[-1] if g else 0}:{sum(g)}"
        parts.append(" ".join(m.tr[pid]) + f" # {status} et={pe.ethertype} no={no} progs={'-' if tab is None else tab} ga={ga}")
    mem = w.members()
    d = "-" if mem is None else "[" + ",".join(f"{nm.split('.')[0]}:{o}" for nm, o in mem) + "]"
    fm = w.fm()
    opt = lambda x: "-" if x is None else str(x)
    fmnode = w.lookup(FM)
    lock = None if fmnode is None else w.reclock.get(id(fmnode))
    sysl = (f"dir={d} pin={opt(w.pins.get(PIN))} att={opt(w.attached)} mbx={'true' if w.lookup(MBX) is not None else 'false'} "
            f"fm={'-' if fm is None else 'x' + fm.hex()} lock={opt(lock)}")
    viol = " ".join(f"{k}={opt(v[k])}" for k in ("ed", "si", "iw", "fw"))
    return " ; ".join(parts) + " ;; " + sysl + " ;; " + viol + f" quiet={'true' if v['quiet'] else 'false'}"


def predicates(case, glob):
    """defect classes as predicates on the schedule (= on the order of operations it produces)"""
    n = len(case["cfgs"])
    late = [False] * n       # last leaver: its rmdir succeeded, its remove(programs) has not happened yet
    left = [False] * n       # is past its start section and the lock-file constructors
    race = stale = rmtree = False
    for pid, t, pin_exists in glob:
        start_op = t.startswith(("mkdtemp", "open_", "rename", "rmtree_", "obj_get", "create_map", "attach", "obj_pin")) \
            or (t.startswith(("remove_pin", "remove_member")) and not left[pid])
        if start_op and any(late):
            race = True
        if t == "rename:ok" and pin_exists:
            stale = True
        if t in ("leave", "fm_unlock", "fm_write"):     # past FMMULock(...): from here on only the exit path follows
            left[pid] = True                            # (the body may raise instead of reaching `leave`)
        if t == "rmdir:ok":
            late[pid] = True
        if t.startswith("remove_pin") and left[pid]:
            late[pid] = False
        if t == "rmtree_lock":
            rmtree = True
    return {"leaver-starter-race": race, "stale-programs-file": stale, "installer-fault-rmtree": rmtree}


WINDOW_GROUPS = (1 << 22) // (1 << 12)   # property text: "10 bits for sync groups within a process"


def evaluate(ctx, case):
    """real code under the case's schedule + the property oracle; returns the canonical line"""
    import logging
    logging.disable(logging.CRITICAL)
    try:
        m, objs, info, obs = run_impl(case)
    finally:
        logging.disable(logging.NOTSET)
    v = clauses(obs)
    pr = predicates(case, m.glob)
    v["quiet"] = not (pr["leaver-starter-race"] or pr["stale-programs-file"])   # hypothesis of installed_while_running_partial
    line = show(case, m, objs, info, v)
    seen = f"first violating prefix per clause {v}; classes {sorted(k for k, b in pr.items() if b)}"
    fault = "installer-fault-rmtree" if pr["installer-fault-rmtree"] else None
    ctx.require(v["ed"] is None, "two participants hold the same ethertype", case, seen, fault)
    ctx.require(v["si"] is None, "two participants are in the install section at once", case, seen, fault)
    ctx.require(v["iw"] is None, "a participant runs without the dispatcher attached / its program table pinned",
                case, seen, "leaver-starter-race" if pr["leaver-starter-race"] else
                "stale-programs-file" if pr["stale-programs-file"] else fault)
    if v["fw"] is not None:
        ctx.require(False, "logical address windows of two running participants overlap", case, seen)   # proved: no known class
    return line, v, pr, m


SLOTS = [1, 1, 2, 2, 3, 4, 7, 8, 9, 15, 16, 17, 255, 256, 511]


def gen(rng):
    n = rng.choice([2, 2, 3, 3, 3, 4])
    cfgs = []
    for _ in range(n):
        r = rng.random()
        naddr = rng.randrange(0, 4) if r < 0.85 else rng.choice([WINDOW_GROUPS - 1, WINDOW_GROUPS, WINDOW_GROUPS + 5, 2 * WINDOW_GROUPS])
        cfgs.append({"et": [rng.randrange(0x3000, 0x3003) for _ in range(rng.randrange(0, 4))],
                     "fm": [rng.choice(SLOTS) for _ in range(rng.randrange(0, 4))],
                     "naddr": naddr, "attach_fails": rng.random() < 0.03})
    r = rng.random()
    if r < 0.6:
        fm0 = None
    elif r < 0.9:
        b = bytearray(64)
        for _ in range(rng.randrange(0, 5)):
            k = rng.choice(SLOTS)
            b[k // 8] |= 1 << (k % 8)
        fm0 = b.hex()
    else:
        fm0 = bytes(rng.randrange(256) for _ in range(rng.choice([0, 1, 63, 65]))).hex()
    sched = []
    mode = rng.random()
    total = rng.randrange(20, 40 * n)
    if mode > 0.55:       # session boundary: one participant goes through a whole life cycle up to somewhere in its exit
        p = rng.randrange(n)
        k = rng.randrange(14, 28)
        if mode > 0.8:    # a joiner arrives early and sits in its obj_get window
            q = (p + 1) % n
            sched += [p] * 3 + [q] * rng.randrange(5, 10)
            k -= 3
        sched += [p] * k
    while len(sched) < total:
        p = rng.randrange(n)
        k = 1 if mode < 0.3 else rng.choice([1, 1, 2, 3, 5, 8, 11, 12, 13, 14, 15, 20])
        sched += [p] * k
    return {"cfgs": cfgs, "sched": sched, "fm0": fm0}


def C(et=(), fm=(), naddr=0, fails=False):
    return {"et": list(et), "fm": list(fm), "naddr": naddr, "attach_fails": fails}


# witnesses of the two repaired FMMU defects (fixed in /repo): they must pass now
FORMER_WITNESSES = [
    # P0 opens/creates the bitmap file; before it goes on P1 allocates slot 7; P0 continues; P2 draws 7 as well
    {"cfgs": [C(), C(et=[12288], fm=[7]), C(et=[12288, 12289], fm=[7])],
     "sched": [0] * 10 + [1] * 18 + [0] * 6 + [2] * 18, "fm0": None},
    {"cfgs": [C(), C(et=[12288], fm=[7]), C(et=[12288, 12289], fm=[7])],
     "sched": [0] * 12 + [1] * 18 + [0] * 6 + [2] * 18, "fm0": None},
    {"cfgs": [C(), C(et=[12288], fm=[7]), C(et=[12288, 12289], fm=[7])],
     "sched": [0] * 10 + [1] * 16 + [0] + [2] * 16, "fm0": None},
    # P0 asks for 1024 sync-group addresses (the last one would lie in the window of process number 2, which P1 owns)
    {"cfgs": [C(naddr=WINDOW_GROUPS), C(et=[12288], fm=[2])], "sched": [0] * 15 + [1] * 16, "fm0": None},
    {"cfgs": [C(fm=[1], naddr=WINDOW_GROUPS - 1), C(et=[12288], fm=[2])], "sched": [0] * 15 + [1] * 16, "fm0": None},
]

WITNESSES = {
    # P0 is the last leaver: after its rmdir P1 installs and runs; then P0 detaches P1's dispatcher and unlinks P1's pin
    "leaver-starter-race": {"cfgs": [C(), C(fm=[7])], "sched": [0] * 19 + [1] * 14 + [0, 0], "fm0": None},
    # P1 joins P0's session but its obj_get come too early; P0 runs and leaves (rmdir fails: P1's file); P1's clean-up empties the
    # lock dir, dispatcher and pin stay.  P2 renames over the empty dir, P3 joins with the OLD table and runs, P2 removes the old pin.
    # P0's netlink attach fails: its `except` path rmtree()s the lock dir together with P1's member file (ethertype 12288);
    # P2 starts a new session, P1's second obj_get succeeds and it runs; P3 draws 12288 and gets it
    "installer-fault-rmtree": {"cfgs": [C(fails=True), C(et=[12288]), C(), C(et=[12288], fm=[3])],
                               "sched": [0] * 5 + [1] * 7 + [0] * 2 + [2] * 7 + [1] * 10 + [3] * 14, "fm0": None},
    "stale-programs-file": {"cfgs": [C(), C(et=[12288]), C(), C(et=[12288], fm=[3])],
                            "sched": [0] * 3 + [1] * 8 + [0] * 16 + [1] + [2] * 3 + [3] * 14 + [2] * 2, "fm0": None},
}


def nontrivial(m):
    return sum(1 for tr in m.tr if len(tr) >= 5) >= 2


def kind_of(v, pr, m):
    bad = [k for k in ("ed", "si", "iw", "fw") if v[k] is not None]
    if not bad and not v["quiet"]:
        return "race-window-no-violation"
    return ("viol:" + "+".join(bad)) if bad else ("race-window" if any(pr.values()) else "clean")


def fmmu_family(quick):
    """three / four participants whose scripted FMMU draws fall into the same bitmap byte; all are brought to the point just
    before `FMMULock(...)`, then x performs a operations, y performs b, x and afterwards the others finish (y gets no further turn,
    so it keeps running): every way one participant's FMMULock section can be cut once by another's; each cut also with y resuming
    after x and before the others, on a map file that does not exist yet"""
    import itertools
    out = []
    zeros = "00" * 64
    sets = [([C(fm=[9]), C(et=[12288], fm=[10]), C(et=[12288, 12289], fm=[10])], [9, 9, 10], range(2, 9) if quick else range(1, 11), range(4, 11) if quick else range(1, 11)),
            ([C(fm=[10]), C(et=[12288], fm=[11]), C(et=[12288, 12289], fm=[10]), C(et=[12288, 12289, 12290], fm=[11])],
             [9, 9, 10, 11], range(3, 7) if quick else range(1, 11), range(7, 11) if quick else range(1, 11))]
    for cfgs, pre, ra, rb in sets:
        n = len(cfgs)
        prefix = [p for p in range(n) for _ in range(pre[p])]
        for fm0 in ([zeros] if quick else [zeros, None]):
            for x, y in itertools.permutations(range(n), 2):
                rest = [z for z in range(n) if z not in (x, y)]
                for a in ra:
                    for b in rb:
                        sched = prefix + [x] * a + [y] * b + [x] * 10 + [z for z in rest for _ in range(10)]
                        out.append({"cfgs": cfgs, "sched": sched, "fm0": fm0})
                        # ... and the same cut with y resuming once x is through, before the others start (what y decided
                        # before the cut, e.g. that the map is new, is acted upon after x has allocated)
                        sched = prefix + [x] * a + [y] * b + [x] * 12 + [y] * 12 + [z for z in rest for _ in range(12)]
                        out.append({"cfgs": cfgs, "sched": sched, "fm0": None})
    return out


def neighbour_family(rng, quick):
    """participants whose process numbers differ in exactly one of the 9 bits of the process-number field (or are complements in
    it), with 1, 2 and the maximal number of get_fmmu_addr calls, all running at the same time (an installer and one or two
    joiners, started one after the other): the addresses they RECEIVE must name disjoint blocks.  A wrapper or window computation
    that loses, shifts or folds a bit of the address makes two of them coincide."""
    out = []
    top = (1 << 9) - 1
    for b in range(9):
        xs = {top, (1 << b) | (1 if b else 2), rng.randrange(1, top + 1)}
        for x in sorted(xs):
            y = x ^ (1 << b)
            if not 1 <= y <= top:
                continue
            for na, nb in ((1, 1), (2, WINDOW_GROUPS - 1)) if quick else ((1, 1), (2, WINDOW_GROUPS - 1), (WINDOW_GROUPS - 1, 3), (0, 2)):
                if rng.random() < 0.5:
                    x, y = y, x
                # installer: 16 operations up to running on a fresh bitmap file; joiner that finds k ethertypes taken: 13 + k
                out.append({"cfgs": [C(fm=[x], naddr=na), C(et=[12288], fm=[y], naddr=nb)], "sched": [0] * 16 + [1] * 14, "fm0": None})
        z = top ^ (1 << b)
        out.append({"cfgs": [C(fm=[1 << b], naddr=2), C(et=[12288], fm=[z], naddr=1), C(et=[12288, 12289], fm=[top], naddr=3)],
                    "sched": [0] * 16 + [1] * 14 + [2] * 15, "fm0": None})
    return out


def leaver_remove_family(quick):
    """through the real run(): P0 installs, runs and leaves as the last leaver; its FMMULock.remove() (the last four operations of
    its exit) is cut after a = 0..4 operations by P1, which starts a new session and goes b operations into / through its
    FMMULock(...) with a drawn number in the same bitmap byte as P0's (or in another byte, or P0's own number); P0 finishes, P1 runs
    on, and a third participant P2 joins whose first draw is P1's number.  All call get_fmmu_addr()."""
    out = []
    for x, y, z in ((9, 10, 11), (10, 9, 12), (15, 8, 9), (9, 17, 18), (9, 9, 10)):
        cfgs = [C(fm=[x], naddr=1), C(fm=[y, z], naddr=2), C(et=[12288], fm=[y, z, z + 1], naddr=1)]
        for a in range(5):
            for b in (range(9, 15) if not quick else (10, 11, 12, 13, 14)):
                # installer: 16 operations to running, 6 from `leave` to mbx_remove, then remove(): lock, pread, pwrite, unlock
                # P1 (a new installer on the existing bitmap file) is running after 14 operations, the joiner P2 after 13 + 1;
                # turns P1 spends waiting for the lock held by P0 (a = 1..3, from its 11th turn on) are made up for - and the
                # same schedule without the make-up (what P1 needs when nothing holds it up)
                wait = max(0, b - 10) if 1 <= a <= 3 else 0
                for w in {0, wait}:
                    out.append({"cfgs": cfgs, "sched": [0] * (22 + a) + [1] * b + [0] * 5 + [1] * (14 - b + w) + [2] * 14, "fm0": None})
    return out


def HS(*ops):
    return [[o[0], list(o[1]) if o[0] == "new" else o[1]] for o in ops]


def hist_families(rng, quick):
    """histories of FMMULock objects used directly (see run_hist); `[p] * k` with k larger than what p has left is harmless:
    a participant that has finished or waits for the lock does nothing on its turn"""
    out = []
    zeros = "00" * 64
    # (a) remove() of A cut after every operation by the constructor of B (number in the same byte / another byte / A's own
    #     number), B keeps running; afterwards C arrives whose first draw is B's number
    for x, y, z in ((9, 10, 11), (10, 9, 12), (15, 8, 9), (9, 17, 18), (9, 9, 10)):
        scripts = [HS(("new", [x]), ("addr", 0), ("rm", 0)), HS(("new", [y, z]), ("addr", 0), ("addr", 0)),
                   HS(("new", [y, z, z + 1]), ("addr", 0))]
        for fm0 in ((zeros,) if quick and x != 9 else (zeros, None)):
            pre = 6 if fm0 else 8
            for a in range(5):
                for b in range(1, 7):
                    out.append({"scripts": scripts, "sched": [0] * (pre + a) + [1] * b + [0] * 6 + [1] * 10 + [2] * 10, "fm0": fm0})
    # (b) remove() against remove() in the same byte, a third object in that byte in use throughout, a fourth participant
    #     allocates afterwards drawing the three numbers
    scripts = [HS(("new", [9]), ("rm", 0)), HS(("new", [10]), ("rm", 0)), HS(("new", [11]), ("addr", 0)),
               HS(("new", [11, 10, 9]), ("addr", 0))]
    for a in range(5):
        for b in range(1, 6):
            for p, q in ((0, 1), (1, 0)):
                out.append({"scripts": scripts, "sched": [0] * 7 + [1] * 5 + [2] * 6 + [p] * a + [q] * b + [p] * 6 + [q] * 6 + [3] * 8,
                            "fm0": None})
    # (c) restart: A allocates, uses, releases and allocates again with the same draw, B's constructor cuts in at every point,
    #     C arrives last;  (d) two objects in one participant, B allocating between and during A's operations
    for scripts, n0 in (([HS(("new", [9]), ("addr", 0), ("rm", 0), ("new", [9, 12]), ("addr", 1)), HS(("new", [9, 10]), ("addr", 0)),
                          HS(("new", [9, 10, 12, 13]), ("addr", 0))], 19),
                        ([HS(("new", [9]), ("new", [10, 12]), ("addr", 0), ("addr", 1), ("rm", 0), ("new", [9, 13]), ("addr", 2)),
                          HS(("new", [10, 9, 11]), ("addr", 0)), HS(("new", [9, 10, 11, 12, 13, 14]), ("addr", 0))], 27)):
        for k in range(0, n0, 2 if quick else 1):
            for j in (2, 4, 6):
                out.append({"scripts": scripts, "sched": [0] * k + [1] * j + [0] * (n0 + 2) + [1] * 8 + [2] * 8, "fm0": None})
    # (e) a participant is killed at every point of its constructor / its remove(); two others then allocate concurrently
    scripts = [HS(("new", [9]), ("addr", 0), ("rm", 0)), HS(("new", [9, 10]), ("addr", 0)), HS(("new", [9, 10, 11]), ("addr", 0))]
    for fm0 in (None, zeros):
        for k in range(0, 13):
            out.append({"scripts": scripts, "sched": [0] * k + [-1] + [1] * 3 + [2] * 3 + [1] * 8 + [2] * 8, "fm0": fm0})
            out.append({"scripts": scripts, "sched": [0] * k + [1] * 3 + [-1] + [2] * 3 + [1] * 8 + [2] * 8, "fm0": fm0})
    return out


POOL = [9, 9, 10, 10, 11, 12, 15, 16, 17, 1, 511, 0, 512]


def gen_hist(rng):
    n = rng.choice([2, 3, 3, 4])
    scripts = []
    for _ in range(n):
        sc, made = [], 0
        for _ in range(rng.randrange(1, 7)):
            r = rng.random()
            if made == 0 or r < 0.4:
                sc.append(["new", [rng.choice(POOL) for _ in range(rng.randrange(0, 4))]])
                made += 1
            elif r < 0.7:
                sc.append(["rm", rng.randrange(made + (rng.random() < 0.1))])
            else:
                sc.append(["addr", rng.randrange(made + (rng.random() < 0.1))])
        scripts.append(sc)
    r = rng.random()
    if r < 0.5:
        fm0 = None
    elif r < 0.85:
        b = bytearray(64)
        for _ in range(rng.randrange(0, 5)):
            k = rng.choice(POOL) % 512
            b[k // 8] |= 1 << (k % 8)
        fm0 = b.hex()
    else:
        fm0 = bytes(rng.randrange(256) for _ in range(rng.choice([0, 1, 2, 63, 65]))).hex()
    sched = []
    fine = rng.random() < 0.5
    for _ in range(rng.randrange(10, 30 * n)):
        p = rng.randrange(n)
        if rng.random() < 0.01:
            sched.append(-1 - p)
        else:
            sched += [p] * (1 if fine else rng.choice([1, 1, 2, 3, 4, 5, 7]))
    return {"scripts": scripts, "sched": sched, "fm0": fm0}


def run(ctx):
    cases = []
    cases += neighbour_family(ctx.rng, ctx.quick)
    # every split point of the last-leaver race: P1 starts after k operations of P0 (k = 11 … 18), P0 continues afterwards
    for k in range(14, 24):
        for j in (3, 7, 14):
            cases.append({"cfgs": [C(), C(et=[12288], fm=[3])], "sched": [0] * k + [1] * j + [0] * 8 + [1] * 20, "fm0": None})
    # the bitmap file's first opener is overtaken at every point by a second one; a third draws the same slot
    for k in range(8, 17):
        for j in (12, 16, 18):
            cases.append({"cfgs": [C(), C(et=[12288], fm=[7]), C(et=[12288, 12289], fm=[7])],
                          "sched": [0] * k + [1] * j + [0] * 7 + [1] * 4 + [2] * 18, "fm0": None})
    # one participant crashes (is never scheduled again) holding its ethertype lock file; two others then start concurrently:
    # every single preemption of the two starters, plus random fine-grained interleavings
    for k in (7, 16):
        for a in range(3, 13):
            for b in range(3, 13, 2 if ctx.quick else 1):
                cases.append({"cfgs": [C(), C(et=[12288], fm=[2]), C(et=[12289], fm=[3])], "crash": [0],
                              "sched": [0] * k + [1] * a + [2] * b + [1] * 30 + [2] * 30, "fm0": None})
        for _ in range(ctx.n(20, 600)):
            cases.append({"cfgs": [C(), C(et=[12288], fm=[2]), C(et=[12289], fm=[3])], "crash": [0],
                          "sched": [0] * k + [ctx.rng.choice([1, 1, 2, 2, 1, 2, 1]) for _ in range(70)], "fm0": None})
    cases += fmmu_family(ctx.quick)
    cases += leaver_remove_family(ctx.quick)
    cases += hist_families(ctx.rng, ctx.quick)
    for _ in range(ctx.n(400, 12000)):
        cases.append(gen_hist(ctx.rng))
    for _ in range(ctx.n(500, 20000)):
        cases.append(gen(ctx.rng))
    cases += [dict(w) for w in FORMER_WITNESSES]
    cases += [dict(w) for w in WITNESSES.values()]      # last: a new failure is first reported on a case the unchanged tree passes
    lines = []
    for c in cases:
        if "scripts" in c:
            line, fw, m = evaluate_hist(ctx, c)
            lines.append(line)
            ctx.case(c, nontrivial=nontrivial(m), kind="hist:clean" if fw is None else "hist:viol")
        else:
            line, v, pr, m = evaluate(ctx, c)
            lines.append(line)
            ctx.case(c, nontrivial=nontrivial(m), kind=kind_of(v, pr, m))
        for tr in m.tr:
            for t in tr:
                ctx.stats["op:" + t.split(":")[0]] += 1
    model = ctx.drive(DRIVER, cases, "parallel run")
    if model is not None:
        for c, i, mo in zip(cases, lines, model):
            ctx.agree("operation traces, final state and first violating prefixes", c, i, mo)


def replay(ctx, case):
    if "scripts" in case:
        line, fw, m = evaluate_hist(ctx, case)
        return {"result": line, "first_overlap": fw}
    line, v, pr, m = evaluate(ctx, case)
    return {"result": line, "violations": v, "classes": sorted(k for k, b in pr.items() if b)}


LEVEL_TEXT = ("Lean 4 proof over a hand-written model of ParallelEtherCat.run with LockFile/FMMULock (one step per file-system / bpf / netlink "
              "operation, explicit schedules, any number of participants, crash = not scheduled again): ethertypes of members are pairwise "
              "distinct and at most one participant is in the install section (invariant proofs, no injected fault); the FMMU windows of "
              "running participants are pairwise disjoint for all schedules, draws, earlier file contents and any number of get_fmmu_addr "
              "calls, and so are the blocks named by the addresses get_fmmu_addr hands out, each of which carries the participant's full process number "
              "(invariant proof, no hypothesis; repaired in /repo); installed-while-running is REFUTED on concrete witness schedules "
              "(last-leaver/new-starter race, stale programs file after a joiner's clean-up) and proved for the remainder (no start-section "
              "operation while a last leaver is between rmdir and remove(programs) and no rename succeeding over an old programs file). "
              "Second model Ebv.FmmuLock for FMMULock used directly: any number of participants, each any script of FMMULock(...) / "
              "get_next_addr() / remove() (restarts, several objects), interleaved system call by system call, kills at any point, any earlier "
              "file contents: windows of objects in use pairwise disjoint, addresses handed out inside the own window, the bitmap exact (owner's "
              "bit set; a set bit was set at the start or has an owner), remove() clears its own bit and preserves everybody else's "
              "(invariant proofs); without the lock around remove()'s read-modify-write the window clause is REFUTED on a witness schedule. Tie: "
              "the real coroutines of several participant objects driven in one process over an emulated fs/bpf/netlink layer under the same "
              "schedules, exact equality of traces, final state, first violating prefixes and the theorem's schedule hypothesis.")
LEVEL_NOTE = ("partial: trusted are the Lean kernel + standard axioms, the hand transcription (validated by differential runs, not verified), "
              "the emulated POSIX/bpffs/netlink semantics and real process scheduling; three defect classes of run() are known findings, "
              "the two FMMULock defects are fixed in /repo")
TECHNIQUE = "Lean 4 invariant proofs over all schedules + kernel-decided refutations on witness schedules + differential schedule replay of the real code"
DESIGN_REF = "§4 C23"
