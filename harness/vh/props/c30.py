"""C30 — slow sync groups exchange process data and check working counters.

A real `SyncGroup` over fake terminals (real `EBPFTerminal.allocate`, pdo sizes, use_fmmu on/off)
and small real `Device` subclasses whose `TerminalVar`s are linked to `PacketDesc` variables is
started with the real `start()`/`run()`/`update_devices()`; frames leave through the real
`EtherCat.roundtrip_packet` into a recording transport, responses come back through the real
`datagram_received`.  `to_operational`/`set_state`/`map_fmmu` of the terminals are served by a
simulated bus, `ebpfcat.ebpfcat.sleep/monotonic/wait_for` are replaced so that cycles run
instantly and timeouts are scripted.  The simulated bus is semantic: it finds the datagrams by
parsing the frame on the wire, serves FPRD/FPWR by station address and LRD/LWR through the FMMU
mappings the code asked for, and fills in scripted working counters.

The oracle states the property on what terminals and devices saw; the same events (as byte patches
on the frame sent last) go to the Lean model `Ebv.SlowCycle` and frames, device-visible values,
wkc_errors and missed_counter must agree exactly.

Histories: the same SyncGroup object (same terminal and device objects) may have run before (`restart`: 1-2 earlier runs through the
real start(), while its terminals had other process-data sizes / FMMU use / sync-manager offsets, i.e. another frame layout with other
counter positions and expectations), and other groups of another composition may have run before it in the process (`before`).
Every run is judged by itself against the terminals as configured for it, and every run goes to the model together with the runs
before it (`Ebv.SlowCycle.runAfter`; `restart_invariant`: only missed_counter carries over)."""
import asyncio
import logging
import random
import struct
from contextlib import asynccontextmanager

ID = "C30"
LEAN_MODULES = ["Ebv.Props.C30", "Ebv.Props.C30Restart"]
MODEL_MODULES = ["Ebv.Model.SlowCycle", "Ebv.Model.Bytes"]
DRIVER = "Drivers/C30.lean"
THEOREMS = [
    "Ebv.C30.inputs_visible", "Ebv.C30.inputs_visible_run",
    "Ebv.C30.outputs_next_frame", "Ebv.C30.outputs_next_frame_run", "Ebv.C30.timeout_resends",
    "Ebv.C30.wkc_cleared_step", "Ebv.C30.wkc_cleared", "Ebv.C30.cleared_bytes", "Ebv.C30.first_frames",
    "Ebv.C30.error_iff_mismatch_step", "Ebv.C30.error_iff_mismatch", "Ebv.C30.wkc_full_width",
    "Ebv.C30.run_after_restart", "Ebv.C30.restart_invariant", "Ebv.C30.restart_error_iff_mismatch", "Ebv.C30.restart_inputs_visible",
    "Ebv.C30.restart_sent", "Ebv.C30.restart_witness",
]
TRUSTED = ["hand-written model Ebv.SlowCycle of SyncGroup.update_devices / SyncGroupBase.run / PacketVar.get,set (Python path), "
           "tied by exact correspondence of frames sent, device-visible values, wkc_errors, missed_counter",
           "harness/vh/props/c30.py simulated bus (independent frame parser, FMMU mappings as requested by the code), scripted "
           "wait_for/sleep/monotonic; counter positions, expected counts and variable offsets are taken from the real allocate()",
           "layout hypothesis of the theorems (Ebv.SlowCycle.Layout) evaluated by the driver on the real allocate() result of every case"]
ASSUMPTIONS = ["responses have the length of the frame sent and keep the packet index (a response with another index never "
               "reaches the group; a shorter one makes unpack_from raise)",
               "nothing but Device.update writes process variables between two cycles; a timeout means the frame is lost "
               "(no late response is delivered)",
               "variables and counters lie inside the frame, inputs overlap no counter and no output, outputs overlap no "
               "counter and are pairwise independent (established by allocate: C18; checked per case by the driver)",
               "a group is started again only after its task ended (start() asserts it); between two runs only the terminals' "
               "configuration changes (the group keeps its devices and terminals); devices are stateless between runs",
               "the first frame carries the expected counts in its counter fields (Packet.assemble gets wkc=counter), so 'from the "
               "second cycle on' = every response is compared alike, wkc_errors starts at 1"]
RULE = ("case = 1..4 terminals (station address, pdo in/out sizes 0..9, use_fmmu on/off), 1..3 devices with 0..3 input and "
        "0..3 output variables (B H I b h i and bits, outputs non-overlapping), scripted affine device functions, 0..7 bus events "
        "(timeout | response with random inputs and per-datagram counter kinds: conformant, exact, 0, +1, expected+k*256, "
        "random >=256, random <256, 0xffff); ~30% of the cases: the group object ran 1-2 times before (1-4 events each) under other "
        "sizes / FMMU use / offsets of 1..all of its terminals; ~12%: 1-2 other groups (cases of their own) ran before in the process; "
        "non-trivial = at least one response and one variable")

FMT = {"B": (1, False), "H": (2, False), "I": (4, False), "b": (1, True), "h": (2, True), "i": (4, True)}
KINDS = ["conf", "conf", "conf", "ok", "zero", "inc", "hi", "hi", "big", "lo", "ffff"]


# ---------------------------------------------------------------- independent view of the wire

def parse_frame(fr):
    """datagrams of a frame as (cmd, addr4, data_start, length, wkc_pos), written from the frame format"""
    out = []
    o = 2
    while True:
        cmd = fr[o]
        lenf, = struct.unpack_from("<H", fr, o + 6)
        ln = lenf & 0x7ff
        out.append((cmd, bytes(fr[o + 2:o + 6]), o + 10, ln, o + 10 + ln))
        o += 12 + ln
        if not lenf & 0x8000:
            return out


class SimTerm:
    def __init__(self, spec):
        self.spec = spec
        self.inputs = bytes(spec["in_sz"])
        self.outputs = None          # what the last frame delivered to this terminal
        self.maps = {}               # write(bool) -> logical address, while mapped


def bus_process(frame, sims, kinds, rnd):
    """what a bus with these terminals does to the frame; returns (response, per datagram (processed, returned wkc))"""
    resp = bytearray(frame)
    info = []
    for n, (cmd, addr, ds, ln, wp) in enumerate(parse_frame(frame)):
        processed = 0
        if cmd in (4, 5):
            adp, ado = struct.unpack("<HH", addr)
            for s in sims:
                if s.spec["pos"] != adp:
                    continue
                if cmd == 4 and ado == s.spec["in_off"] and ln == s.spec["in_sz"]:
                    resp[ds:ds + ln] = s.inputs
                    processed += 1
                elif cmd == 5 and ado == s.spec["out_off"] and ln == s.spec["out_sz"]:
                    s.outputs = bytes(frame[ds:ds + ln])
                    processed += 1
        elif cmd in (10, 11):
            logical, = struct.unpack("<I", addr)
            for s in sims:
                la = s.maps.get(cmd == 11)
                sz = s.spec["out_sz" if cmd == 11 else "in_sz"]
                if la is None or not (logical <= la and la + sz <= logical + ln):
                    continue
                off = ds + la - logical
                if cmd == 10:
                    resp[off:off + sz] = s.inputs
                else:
                    s.outputs = bytes(frame[off:off + sz])
                processed += 1
        if n == 0:
            info.append((0, 0))
            continue
        sent, = struct.unpack_from("<H", frame, wp)
        kind = kinds[(n - 1) % len(kinds)]
        wkc = {"conf": (sent + processed) & 0xffff, "ok": processed, "zero": 0, "inc": processed + 1,
               "hi": processed + 0x100 * rnd.randint(1, 3), "big": rnd.randint(256, 65535),
               "lo": rnd.randint(0, 255), "ffff": 0xffff}[kind]
        struct.pack_into("<H", resp, wp, wkc)
        info.append((processed, wkc))
    return bytes(resp), info


# ---------------------------------------------------------------- the real code under a scripted environment

def runs_of(case):
    """the runs of the case's group object, oldest first: (terminal specs of that time, bus events); `restart` lists the
    earlier ones as {"conf": per terminal what differed then (process-data sizes, FMMU use, offsets), "events": [...]}"""
    out = [([{**t, **o} for t, o in zip(case["terms"], r["conf"])], r["events"]) for r in case.get("restart") or []]
    return out + [(case["terms"], case["events"])]


def run_impl(case):
    """obs of the group's latest run; obs["earlier"] = obs of its earlier runs (same SyncGroup, terminal and device objects,
    started again through the real start() after the terminals were configured anew); obs["before"] = obs of other groups
    (`before`: complete cases of their own) that ran earlier in the same process"""
    before = [run_impl(sub) for sub in case.get("before") or []]
    import ebpfcat.ebpfcat as EB
    from ebpfcat.ebpfcat import SyncGroup, EBPFTerminal, Device, TerminalVar, PacketDesc, SyncManager
    from ebpfcat.ethercat import EtherCat, MachineState

    sims = []
    life = []
    frames = []
    maphist = {}
    loop = asyncio.new_event_loop()

    class Transport:
        def sendto(self, data, addr):
            frames.append(bytes(data))
            life.append("frame")

    def make_term(k, ec):
        attrs = {}
        for d, dev in enumerate(case["devs"]):
            for tag in ("ins", "outs"):
                for j, (tk, pos, fmt) in enumerate(dev[tag]):
                    if tk == k:
                        attrs[f"d{d}{tag[0]}{j}"] = PacketDesc(SyncManager.IN if tag == "ins" else SyncManager.OUT, pos,
                                                               fmt if isinstance(fmt, str) else int(fmt))

        async def to_operational(self, target=MachineState.OPERATIONAL):
            life.append(f"toop{k}:{target.name}")

        async def set_state(self, state):
            life.append(f"set{k}:{state.name}")

        @asynccontextmanager
        async def map_fmmu(self, logical, write):
            sim = sims[k]
            sim.maps[bool(write)] = logical
            maphist.setdefault(k, {})[bool(write)] = logical
            life.append(f"map{k}:{int(bool(write))}")
            try:
                yield 0
            finally:
                del sim.maps[bool(write)]
                life.append(f"unmap{k}:{int(bool(write))}")
        attrs.update(to_operational=to_operational, set_state=set_state, map_fmmu=map_fmmu)
        t = type(f"Term{k}", (EBPFTerminal,), attrs)(ec)
        t.name = f"T{k}"
        return t

    def configure(terms, specs):
        """what a terminal's PDO configuration decides"""
        for t, spec in zip(terms, specs):
            t.position = spec["pos"]
            t.pdo_in_sz, t.pdo_out_sz = spec["in_sz"], spec["out_sz"]
            t.pdo_in_off, t.pdo_out_off = spec["in_off"], spec["out_off"]
            t.use_fmmu = bool(spec["fmmu"])

    def make_dev(d, dev, terms):
        nin, nout = len(dev["ins"]), len(dev["outs"])
        log = {"seen": [], "written": [], "errs": []}

        def update(self):
            seen = [getattr(self, f"i{j}") for j in range(nin)]
            log["seen"].append([int(v) for v in seen])
            log["errs"].append(self.sync_group.wkc_errors)
            total = 0
            for v, (_, _, fmt) in zip(seen, dev["ins"]):
                total += int(v) & ((1 << 8 * FMT[fmt][0]) - 1) if isinstance(fmt, str) else int(v)
            c = len(log["written"])
            vals = []
            for j, ((_, _, fmt), (a, m, kk)) in enumerate(zip(dev["outs"], dev["params"])):
                v = a + m * total + kk * c
                if isinstance(fmt, str):
                    size, signed = FMT[fmt]
                    v %= 1 << 8 * size
                    if signed and v >= 1 << (8 * size - 1):
                        v -= 1 << 8 * size
                else:
                    v = bool(v % 2)
                setattr(self, f"o{j}", v)
                vals.append(int(v))
            log["written"].append(vals)
        attrs = {"update": update}
        for j in range(nin):
            attrs[f"i{j}"] = TerminalVar()
        for j in range(nout):
            attrs[f"o{j}"] = TerminalVar()
        obj = type(f"Dev{d}", (Device,), attrs)()
        for j, (tk, _, _) in enumerate(dev["ins"]):
            setattr(obj, f"i{j}", getattr(terms[tk], f"d{d}i{j}"))
        for j, (tk, _, _) in enumerate(dev["outs"]):
            setattr(obj, f"o{j}", getattr(terms[tk], f"d{d}o{j}"))
        return obj, log

    events = []
    cycles = []      # per response: {"inputs": {k: bytes}, "info": [(processed, wkc)], "frame_no": index of the frame answered}
    state = {"k": 0}
    real_sleep = asyncio.sleep

    async def fake_sleep(t):
        await real_sleep(0)

    async def fake_wait_for(fut, timeout=None):
        assert state["k"] < len(events), "run() waits although the script is over"
        ev = events[state["k"]]
        state["k"] += 1
        if state["k"] == len(events):
            sg.running = False
        if ev[0] == "t":
            life.append("timeout")
            fut.cancel()
            await real_sleep(0)
            raise TimeoutError()
        spec = ev[1]
        rnd = random.Random(spec["seed"])
        for s in sims:
            s.inputs = bytes(rnd.randrange(256) for _ in range(s.spec["in_sz"]))
        resp, info = bus_process(frames[-1], sims, spec["wkc"], rnd)
        cycles.append({"inputs": {k: s.inputs for k, s in enumerate(sims)}, "info": info,
                       "frame_no": len(frames) - 1, "resp": resp})
        life.append("resp")
        ec.datagram_received(resp, None)
        return await fut

    saved = (EB.sleep, EB.wait_for, EB.monotonic, SyncGroup.packet_index)
    EB.sleep, EB.wait_for, EB.monotonic = fake_sleep, fake_wait_for, (lambda: 0.0)
    SyncGroup.packet_index = 1000
    logging.disable(logging.CRITICAL)
    try:
        asyncio.set_event_loop(loop)
        ec = EtherCat("sim")
        ec.transport = Transport()
        runs = runs_of(case)
        terms = [make_term(k, ec) for k in range(len(case["terms"]))]
        configure(terms, runs[0][0])
        devs = [make_dev(d, dev, terms) for d, dev in enumerate(case["devs"])]
        sg = SyncGroup(ec, [d for d, _ in devs])
        results = []
        for specs, evs in runs:
            configure(terms, specs)
            sims[:] = [SimTerm(t) for t in specs]
            events[:] = evs
            del life[:], frames[:], cycles[:]
            maphist.clear()
            state["k"] = 0
            for _, log in devs:
                for v in log.values():
                    del v[:]
            sg.running = bool(evs)

            async def main():
                await sg.start()
            loop.run_until_complete(main())
            # after every frame: what reached the terminals (bus semantics on the wire image)
            outputs = []
            probe = [SimTerm(t) for t in specs]
            for fr in frames:
                for k, p in enumerate(probe):
                    p.maps, p.outputs = maphist.get(k, {}), None
                bus_process(fr, probe, ["ok"], random.Random(0))
                outputs.append({k: p.outputs for k, p in enumerate(probe)})
            layout = {
                "asm": frames[0].hex(),
                "counters": [[int(p), int(c)] for p, c in sg.packet.counters.items()],
                "devs": [],
            }
            for (obj, _), dev in zip(devs, case["devs"]):
                ent = {"ins": [], "outs": [], "params": [list(p) for p in dev["params"]]}
                for tag, pre in (("ins", "i"), ("outs", "o")):
                    for j, (_, _, fmt) in enumerate(dev[tag]):
                        start = obj.__dict__[f"{pre}{j}"]._start(obj)
                        ent[tag].append([0, start, FMT[fmt][0], int(FMT[fmt][1])] if isinstance(fmt, str) else [1, start, int(fmt), 0])
                layout["devs"].append(ent)
            results.append({"frames": list(frames), "cycles": list(cycles), "life": list(life),
                            "logs": [{k: [list(x) if isinstance(x, list) else x for x in v] for k, v in l.items()} for _, l in devs],
                            "errors": sg.wkc_errors, "missed": sg.missed_counter, "layout": layout, "outputs": outputs,
                            "specs": specs, "events": list(evs),
                            "group": [(k, bool(sg.terminals[t])) for k, t in enumerate(terms) if t in sg.terminals]})
        obs = results[-1]
        obs["earlier"], obs["before"] = results[:-1], before
        return obs
    finally:
        EB.sleep, EB.wait_for, EB.monotonic, SyncGroup.packet_index = saved
        logging.disable(logging.NOTSET)
        asyncio.set_event_loop(None)
        loop.close()


def show(obs):
    ncyc = len(obs["cycles"])
    seen = ";".join("/".join(",".join(str(v) for v in log["seen"][c]) for log in obs["logs"]) for c in range(ncyc))
    return " ".join(f.hex() for f in obs["frames"]) + " | " + seen + f" | {obs['errors']} | {obs['missed']}"


def run_line(obs):
    """one run: the layout the real allocate() computed for it and its events as byte patches on the frame sent last"""
    line = dict(obs["layout"])
    evs = []
    c = 0
    for ev in obs["events"]:
        if ev[0] == "t":
            evs.append(["t"])
            continue
        cyc = obs["cycles"][c]
        c += 1
        sent, resp = obs["frames"][cyc["frame_no"]], cyc["resp"]
        patches, i = [], 0
        while i < len(resp):
            if resp[i] != sent[i]:
                j = i
                while j < len(resp) and resp[j] != sent[j]:
                    j += 1
                patches.append([i, resp[i:j].hex()])
                i = j
            else:
                i += 1
        evs.append(["r", patches])
    line["events"] = evs
    return line


def driver_lines(obs):
    """per run of the group object (oldest first): (what the implementation showed, the model's input: that run with all the
    runs before it as `earlier`)"""
    runs = obs["earlier"] + [obs]
    lines = [run_line(o) for o in runs]
    return [(show(o), {**lines[k], "earlier": lines[:k]}) for k, o in enumerate(runs)]


def driver_line(case, obs):
    return driver_lines(obs)[-1][1]


def decode(raw, fmt):
    if isinstance(fmt, str):
        return int.from_bytes(raw, "little", signed=FMT[fmt][1])
    return (raw[0] >> fmt) & 1


def size_of(fmt):
    return FMT[fmt][0] if isinstance(fmt, str) else 1


def oracle(ctx, case, obs):
    """every run of the case — the group's earlier runs, its latest one, and the groups that ran before it in the process —
    is judged by itself, against the terminals as they were configured for that run"""
    for sub, o in zip(case.get("before") or [], obs["before"]):
        oracle(ctx, sub, o)
    runs = obs["earlier"] + [obs]
    for k, o in enumerate(runs):
        oracle_run(ctx, case, o, "" if len(runs) == 1 else f"run {k + 1} of {len(runs)} of the group: ")


def oracle_run(ctx, case, obs, label):
    """the property text, on what the simulated terminals delivered / received and what the devices saw"""
    out = label + show(obs)[:600]
    frames, cycles, logs = obs["frames"], obs["cycles"], obs["logs"]
    events = obs["events"]
    nresp = sum(1 for e in events if e[0] == "r")
    ctx.require(len(frames) == 1 + len(events) and len(cycles) == nresp, label + "one frame per bus event expected", case, out, "frames")
    for c, cyc in enumerate(cycles):
        # 1. inputs: every device read, at each input variable, the bytes its terminal delivered in this response
        for d, dev in enumerate(case["devs"]):
            ctx.require(len(logs[d]["seen"]) > c, label + "device update did not run in this cycle", case, out, "inputs")
            if len(logs[d]["seen"]) <= c:
                continue
            for j, (tk, pos, fmt) in enumerate(dev["ins"]):
                want = decode(cyc["inputs"][tk][pos:pos + size_of(fmt)], fmt)
                ctx.require(logs[d]["seen"][c][j] == want,
                            f"{label}cycle {c + 1}: device {d} input {j} saw {logs[d]['seen'][c][j]}, terminal delivered {want}",
                            case, out, "inputs")
        # 2. outputs: the next frame (and every re-send of it) delivers what the devices wrote to the terminals
        last = cycles[c + 1]["frame_no"] if c + 1 < len(cycles) else len(frames) - 1
        for nxt in range(cyc["frame_no"] + 1, last + 1):
            for d, dev in enumerate(case["devs"]):
                if len(logs[d]["written"]) <= c:
                    continue
                for j, (tk, pos, fmt) in enumerate(dev["outs"]):
                    got = obs["outputs"][nxt][tk]
                    ok = got is not None and decode(got[pos:pos + size_of(fmt)], fmt) == logs[d]["written"][c][j]
                    ctx.require(ok, f"{label}cycle {c + 1}: device {d} output {j} = {logs[d]['written'][c][j]} not delivered by frame {nxt + 1}",
                                case, out, "outputs")
        # 4. errors: from the second cycle on the increase of wkc_errors = datagrams whose counter != terminals that process it
        if c >= 1 and logs and len(logs[0]["errs"]) > c:
            inc = logs[0]["errs"][c] - logs[0]["errs"][c - 1]
            want = sum(1 for processed, wkc in cyc["info"][1:] if wkc != processed)
            ctx.require(inc == want, f"{label}cycle {c + 1}: wkc_errors grew by {inc}, {want} datagram(s) had a wrong counter "
                        f"{[w for _, w in cyc['info'][1:]]} vs {[p for p, _ in cyc['info'][1:]]}", case, out, "wkc-errors")
    # 3. every frame sent after a response has been processed has every working counter zero (both bytes)
    if cycles:
        for n in range(cycles[0]["frame_no"] + 1, len(frames)):
            bad = [wp for _, _, _, _, wp in parse_frame(frames[n]) if frames[n][wp:wp + 2] != b"\0\0"]
            ctx.require(not bad, f"{label}frame {n + 1} sent with non-zero working counter at {bad}", case, out, "wkc-cleared")


# ---------------------------------------------------------------- generator

def gen(rng, history=True):
    nt = rng.randint(1, 4)
    stations = rng.sample(range(1001, 1040), nt)
    terms = []
    for k in range(nt):
        in_sz, out_sz = rng.choice([0, 1, 2, 4, 6, 9]), rng.choice([0, 1, 2, 4, 7])
        if in_sz == 0 and out_sz == 0:
            in_sz = 2
        terms.append({"pos": stations[k], "in_sz": in_sz, "out_sz": out_sz, "fmmu": rng.random() < 0.6,
                      "in_off": 0x1100 + 0x20 * rng.randrange(8), "out_off": 0x1000 + 0x20 * rng.randrange(8)})
    free = {k: list(range(t["out_sz"])) for k, t in enumerate(terms)}      # free output bytes
    bitbytes = {}                                                           # (k, byte) -> free bits
    devs = []
    for _ in range(rng.randint(1, 3)):
        ins, outs, params = [], [], []
        for _ in range(rng.randint(0, 3)):
            cand = [k for k, t in enumerate(terms) if t["in_sz"]]
            if not cand:
                break
            k = rng.choice(cand)
            if rng.random() < 0.25:
                ins.append([k, rng.randrange(terms[k]["in_sz"]), rng.randrange(8)])
            else:
                fmt = rng.choice([f for f in FMT if FMT[f][0] <= terms[k]["in_sz"]])
                ins.append([k, rng.randint(0, terms[k]["in_sz"] - FMT[fmt][0]), fmt])
        for _ in range(rng.randint(0, 3)):
            if rng.random() < 0.3:
                if bitbytes and rng.random() < 0.6:
                    key = rng.choice(sorted(bitbytes))
                else:
                    cand = [k for k in free if free[k]]
                    if not cand:
                        continue
                    k = rng.choice(cand)
                    b = rng.choice(free[k])
                    free[k].remove(b)
                    key = (k, b)
                    bitbytes[key] = list(range(8))
                bit = rng.choice(bitbytes[key])
                bitbytes[key].remove(bit)
                if not bitbytes[key]:
                    del bitbytes[key]
                outs.append([key[0], key[1], bit])
            else:
                opts = []
                for k, fr in free.items():
                    for f, (sz, _) in FMT.items():
                        for p in fr:
                            if all(p + i in fr for i in range(sz)):
                                opts.append((k, p, f))
                if not opts:
                    continue
                k, p, f = rng.choice(opts)
                for i in range(FMT[f][0]):
                    free[k].remove(p + i)
                outs.append([k, p, f])
            params.append([rng.choice([0, 1, 77, 255, 256, 65535, 70001]), rng.choice([0, 1, 3, 257]), rng.choice([0, 1, 5])])
        devs.append({"ins": ins, "outs": outs, "params": params})
    if not any(d["ins"] or d["outs"] for d in devs):
        k = 0
        if terms[k]["in_sz"]:
            devs[0]["ins"].append([k, 0, "B"])
        else:
            devs[0]["outs"].append([k, 0, "B"])
            devs[0]["params"].append([1, 1, 1])
    case = {"terms": terms, "devs": devs, "events": gen_events(rng)}
    if history and rng.random() < 0.3:
        case["restart"] = gen_restart(rng, case)
    if history and rng.random() < 0.12:
        case["before"] = [gen(rng, history=False) for _ in range(rng.choice([1, 1, 2]))]
    return case


def gen_events(rng, lengths=(0, 1, 2, 3, 3, 4, 5, 7)):
    events = []
    for n in range(rng.choice(lengths)):
        if rng.random() < 0.2:
            events.append(["t"])
        else:
            healthy = rng.random() < 0.35
            events.append(["r", {"seed": rng.randrange(1 << 30),
                                 "wkc": ["conf"] if healthy else [rng.choice(KINDS) for _ in range(4)]}])
    return events


def gen_restart(rng, case):
    """1-2 earlier runs of the same group object: the terminals had other process-data sizes (never below what the variables
    need), other FMMU use or other sync-manager offsets then — another frame layout, other counter positions and expectations"""
    need = {}
    for dev in case["devs"]:
        for tag, key in (("ins", "in_sz"), ("outs", "out_sz")):
            for tk, pos, fmt in dev[tag]:
                need[tk, key] = max(need.get((tk, key), 0), pos + size_of(fmt))
    out = []
    for _ in range(rng.choice([1, 1, 2])):
        conf = [{} for _ in case["terms"]]
        for k in rng.sample(range(len(conf)), rng.randrange(1, len(conf) + 1)):
            t = case["terms"][k]
            for key in ("in_sz", "out_sz"):
                if rng.random() < 0.6:
                    conf[k][key] = max(need.get((k, key), 0), t[key] + rng.choice([-4, -2, -1, 1, 1, 2, 3, 6]))
            if rng.random() < 0.4:
                conf[k]["fmmu"] = not t["fmmu"]
            if rng.random() < 0.2:
                conf[k]["out_off"] = 0x1000 + 0x20 * rng.randrange(8)
            if not (conf[k].get("in_sz", t["in_sz"]) or conf[k].get("out_sz", t["out_sz"])):
                conf[k]["in_sz"] = 2
        out.append({"conf": conf, "events": gen_events(rng, (1, 2, 3, 3, 4))})
    return out


def run(ctx):
    cases = [gen(ctx.rng) for _ in range(ctx.n(1500, 40000))]
    # fixed family: one FMMU and one plain terminal, a healthy bus with one lost frame, then one counter kind per run
    for kind in sorted(set(KINDS)):
        cases.append({
            "terms": [{"pos": 1001, "in_sz": 2, "out_sz": 2, "fmmu": True, "in_off": 0x1100, "out_off": 0x1000},
                      {"pos": 1002, "in_sz": 1, "out_sz": 1, "fmmu": False, "in_off": 0x1120, "out_off": 0x1020}],
            "devs": [{"ins": [[0, 0, "H"], [1, 0, 7]], "outs": [[0, 0, "h"], [1, 0, 0], [1, 0, 3]],
                      "params": [[1, 1, 1], [0, 1, 0], [1, 0, 1]]}],
            "events": [["r", {"seed": 1, "wkc": ["conf"]}], ["t"], ["r", {"seed": 2, "wkc": ["conf"]}],
                       ["r", {"seed": 3, "wkc": [kind]}], ["r", {"seed": 4, "wkc": ["conf"]}]]})
    impl, lines, owner = [], [], []
    for c in cases:
        obs = run_impl(c)
        nvar = sum(len(d["ins"]) + len(d["outs"]) for d in c["devs"])
        kinds = sorted({k for e in c["events"] if e[0] == "r" for k in e[1]["wkc"]})
        ctx.case(c, nontrivial=bool(obs["cycles"]) and nvar > 0,
                 kind=f"resp={min(len(obs['cycles']), 4)}{'+' if len(obs['cycles']) > 4 else ''},timeouts={min(obs['missed'], 2)}")
        for k in kinds:
            ctx.stats["wkc:" + k] += 1
        if obs["earlier"]:
            moved = any(o["layout"]["counters"] != obs["layout"]["counters"] for o in obs["earlier"])
            ctx.stats["restart:counters-moved" if moved else "restart:same-counters"] += 1
        if obs["before"]:
            ctx.stats["other-groups-before"] += 1
        oracle(ctx, c, obs)
        for o in obs["before"] + [obs]:              # every run of every group of the case goes to the model
            for i, line in driver_lines(o):
                impl.append(i)
                lines.append(line)
                owner.append(c)
    model = ctx.drive(DRIVER, lines, "slow cycle")
    if model is not None:
        for c, i, m in zip(owner, impl, model):
            mm, _, lay = m.rpartition(" | ")
            ctx.require(lay == "layout=1", "layout hypothesis of the theorems not met by the real allocate()", c, lay, "layout")
            ctx.agree("frames sent | device-visible values | wkc_errors | missed_counter", c, i, mm)


def replay(ctx, case):
    obs = run_impl(case)
    oracle(ctx, case, obs)
    return {"trace": show(obs)[:2000], "driver_line": driver_line(case, obs)}


LEVEL_TEXT = ("Lean 4 proof over a hand-written model of update_devices and the run loop on byte lists: for every counter table, "
              "every set of scripted devices over byte/bit variables meeting the layout hypotheses, every frame length and every "
              "list of bus events (arbitrary response bytes, timeouts): each device update reads exactly the bytes of the latest "
              "response at its inputs; what a device wrote reads back in the frame sent next and in every re-send; every frame "
              "sent after a processed response has all counters zero in both bytes; wkc_errors = 1 + number of datagrams whose "
              "16-bit counter != expected over all responses (>= 256 and high-byte-only differences count); missed_counter = "
              "timeouts.  Restart (Ebv.Props.C30Restart): after any history of earlier runs of the group object under any layouts the latest run "
              "is the run of a fresh group on the layout of now — frames, values seen, process image, wkc_errors — and missed_counter is the "
              "sum of all timeouts (run_after_restart, restart_invariant; restart_error_iff_mismatch, restart_inputs_visible, restart_sent; "
              "restart_witness = what a counter table kept from the first start counts and leaves uncleared).  Tied to /repo by exact correspondence of the real SyncGroup (real allocate, TerminalVar/PacketDesc/"
              "PacketVar Python path, roundtrip_packet/datagram_received) on a semantic simulated bus.")
LEVEL_NOTE = ("trusted: Lean kernel + propext/Classical.choice/Quot.sound; hand transcription Ebv.SlowCycle validated (not verified) by "
              "differential runs; layout hypotheses are C18's business and are only re-checked per generated case; wait_for/sleep/"
              "monotonic are scripted (timing itself is not modelled); the first frame and its re-sends carry the expected counts, "
              "so a healthy bus makes the first cycle count one error per datagram - excluded by the property text, modelled as is")
TECHNIQUE = "Lean 4 induction over bus-event lists + frame lemmas for byte/bit variables + differential correspondence on a simulated bus"
DESIGN_REF = "§4 C30"
