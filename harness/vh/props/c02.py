"""C02 — fixed-point arithmetic follows the per-100000 decimal semantics.

(a) tie: exact equality of the instruction list (incl. the scaled integers that reach `imm`), the object tree with its
    `fixed` attribute, rejections and class predicates between the REAL generator (dsl_fixed.py) and the Lean model
    `Ebv.GenFixed` (driver Drivers/C02.lean); the two sides of a comparison after `comparison` scaled them;
(b) property oracle: the real emitted code runs in the independent interpreter (interp.py); the destination is compared
    with an exact evaluation over fractions.Fraction (dropped by floor or truncation), non-negative and negative operand
    streams separately; a comparison's scaled sides must order like the exact values; executed conditions run the branch
    the exact comparison selects (signed / unsigned precondition by dsl.psigned on the program text; the class
    divmod-negative by `neg_class` on the program text -- neither from the implementation's objects);
(c) the binary64 model (`Ebv.F64`) against CPython's float: exhaustive sweep of n/10^5 and random fractions -- a TEST of
    the float model, not a proof; Python-side set/get of `x` map variables through a bytearray-backed map;
(d) the Python side over HISTORIES (a later use of the same live objects): main programs of a class and of a derived class
    with sub-program instances of one class -- all sharing the descriptor objects and one ArrayMap object -- are created
    one after another and kept in use; assignments of decimals from Python, runs of the really generated code on the very
    same map memory, reads and integer assignments alternate (the value assigned before is assigned again after the
    program changed the variable).  Oracle on the raw bytes of every live map after every operation; model
    `Ebv.FixedStore` (theorems in Props/C02Hist.lean: the result of an assignment does not depend on earlier uses)."""
import math
from fractions import Fraction

from .. import dsl, dsl_fixed as D, fsim, interp
from . import c01

ID = "C02"
LEAN_MODULES = ["Ebv.Props.C02", "Ebv.Props.C02Hist"]
MODEL_MODULES = ["Ebv.Model.GenFixed", "Ebv.Model.Float64", "Ebv.Model.FixedStore"]
DRIVER = "Drivers/C02.lean"
FB = D.FB
M64 = dsl.M64
GLOBAL_BASE = interp.MAP_BASE
CLASSES = ["narrow-reg-in-64"]     # inherited, program level (C01)
NEG = "divmod-negative"                                                               # inherited, input level (C01)


class Runner(c01.Runner):
    """c01.Runner with the `x` format (8 bytes)"""

    def __init__(self, prog, built, insns):
        self.prog, self.built, self.insns = prog, built, insns
        self.layout = built.layout()
        self.fm = {n: f for n, f, _ in prog["vars"]}
        self.has_global = any(v[2] == "g" for v in prog["vars"])
        self.gsize = max([8] + [off + D.FSIZE[f] for (b, off, f) in self.layout.values() if b == 7])

    def machine(self, code, regs, varbytes):
        regions = []
        if self.has_global:
            regions.append(interp.Region(GLOBAL_BASE, bytearray(self.gsize + 8), "globals"))
        m = interp.Machine(code + [(0x95, 0, 0, 0, 0)], regions)
        for k, v in regs.items():
            if k != 10:
                m.regs[k] = v & M64
                m.init[k] = True
        for name, raw in varbytes.items():
            m.store(self.addr(name), D.FSIZE[self.fm[name]], raw)
        return m

    def run_stmt(self, i, regs, varbytes):
        lo = self.built.cuts[i - 1] if i else 0
        code = [tuple(x) for x in self.insns[lo:self.built.cuts[i]]]
        m = self.machine(code, regs, varbytes)
        try:
            m.run()
        except interp.Fault as e:
            if not (m.trace and m.trace[-1] == len(code)):
                return f"fault:{e}"
        regs2 = {k: m.regs[k] for k in range(10) if m.init[k]}
        return regs2, {n: m.load(self.addr(n), D.FSIZE[self.fm[n]]) for n in varbytes}


def stored_obj(E, ebpf, stmt, obj, fm):
    """the object `RegisterArray.__setitem__` / `Memory._set` calculates: the right-hand side after the store scaling
    (rebuilt with the real `*=` / `/=`; which of the two applies is decided here from the declared types)"""
    if obj is None:
        return None
    v = E.ensure_expression(ebpf, obj)
    df = D.dest_fixed(stmt[1], fm)
    if df and not v.fixed:
        v *= FB
    elif not df and v.fixed:
        v /= FB
    return v


def real_classes(E, ebpf, stmt, obj, fm, flags):
    out = set(flags)
    if obj is None:
        return out, None
    v = stored_obj(E, ebpf, stmt, obj, fm)
    d = stmt[1]
    if d[0] == "v":
        c01.tree_classes(E, v, fm[d[1]] in "Qqx", False, None, out)
    else:
        c01.tree_classes(E, v, d[0] in ("r", "sr", "x"), True, d[1], out)
    if D.dest_bits(d, fm) <= 32 and not D.dest_fixed(d, fm) and (isinstance(obj, float) or getattr(obj, "fixed", False)):
        out.add("fixed-to-short")
    return out, v


def node_values(E, v, regs, varat, acc):
    """integer value of every node of the real object tree (appended to acc); raises Outside"""
    if isinstance(v, E.Binary):
        a = node_values(E, v.left, regs, varat, acc)
        b = node_values(E, v.right, regs, varat, acc)
        op = v.operator.name
        if op in ("DIV", "MOD"):
            if b == 0:
                raise dsl.Outside("division by zero")
            r = a // b if op == "DIV" else a % b
        else:
            r = {"ADD": a + b, "SUB": a - b, "MUL": a * b}[op]
    else:
        r = c01.eval_obj(E, v, regs, varat)
    acc.append(r)
    return r


def neg_class(stmt, regs, vars_, fm):
    """divmod-negative (class NEG), decided on the PROGRAM TEXT with the exact Fraction values -- not on the implementation's
    object tree: one of the divisions the generator has to emit has a negative operand.  Those are the explicit / // %, the
    rescaling of a fixed * fixed product (the product is divided by 10^5) and the rescaling of a fixed value that is stored
    into an integer destination"""
    def neg(j):
        try:
            return min(D.eval_q(j, regs, vars_, fm)) < 0
        except (dsl.Outside, KeyError, ZeroDivisionError):
            return False

    def go(j):
        if j[0] in ("c", "d", "x", "v") or j[0] in D.VIEWS:
            return False
        k, a, b = j
        if go(a) or go(b):
            return True
        if k == "//" and a[0] == "d" and not D.is_fixed(b, fm):
            # decimal // integer expression: `__rfloordiv__` takes int(decimal) as dividend (see CORRESPONDED_NOT_PROVED)
            return int(Fraction(a[1], FB)) < 0 or neg(b)
        if k in ("/", "//", "%"):
            return neg(a) or neg(b)
        if k == "*" and D.is_fixed(a, fm) and D.is_fixed(b, fm):
            return neg(j)
        return False
    d, e = stmt[1], stmt[2]
    return go(e) or (not D.dest_fixed(d, fm) and D.is_fixed(e, fm) and neg(e))


def make_inputs(rng, prog, mode):
    """mode 'nonneg': every register/variable holds a non-negative value; 'neg': some are negative"""
    def val(fixed, bits):
        r = rng.random()
        if fixed:
            v = rng.choice([0, 1, 29000, 57000, FB, 115000, 250000, 12345, 999999, 3 * FB]) if r < 0.6 else \
                rng.randrange(1 << rng.choice([8, 17, 24, 31, 40]))
        else:
            v = rng.choice([0, 1, 2, 3, 7, 10, 100, 1000, 21474]) if r < 0.6 else rng.randrange(1 << rng.choice([4, 10, 15, 31]))
        if mode == "neg" and rng.random() < 0.4:
            v = -v
        return v & ((1 << bits) - 1)
    has_global = any(v[2] == "g" for v in prog["vars"])
    xregs = {l[1] for st in prog["stmts"] for l in D.leaves(st[2]) if l[0] == "x"}
    regs = {k: val(k in xregs, 64) for k in prog["owned"] if k != 10 and not (k == 7 and has_global)}
    vars_ = {n: val(f == "x", 8 * D.FSIZE[f]) for n, f, _ in prog["vars"]}
    if mode == "nonneg":                               # keep the sign bit of every signed variable clear
        vars_ = {n: v & ((1 << (8 * D.FSIZE[f] - 1)) - 1) for (n, f, _), v in zip(prog["vars"], vars_.values())}
    return {"regs": {str(k): v for k, v in regs.items()}, "vars": vars_, "mode": mode}


def check_program(ctx, prog, built, insns, inputs_list):
    """property oracle for one accepted program; returns status strings"""
    E = built.E
    R = Runner(prog, built, insns)
    fm = R.fm
    status = []
    for inp in inputs_list:
        regs = {int(k): v for k, v in inp["regs"].items()}
        if R.has_global:
            regs[7] = GLOBAL_BASE
        varbytes = dict(inp["vars"])
        owned = set(prog["owned"])
        for i, st in enumerate(prog["stmts"]):
            dest, expr = st[1], st[2]
            case = {"prog": prog, "inputs": inp, "stmt": i}
            if not all(l[1] in owned for l in D.leaves(expr) if l[0] in D.VIEWS or l[0] == "x"):
                status.append("ill-typed")
                break
            W = D.width_W(prog, st)
            regview = dict(regs)
            regview.setdefault(10, interp.STACK_TOP)
            byloc = {(b, off): n for n, (b, off, f) in R.layout.items()}
            varat = lambda base, off, fmt, _v=varbytes, _b=byloc: (
                dsl.sx(_v[_b[(base, off)]], 64) if fmt == "x" else dsl.fmt_value(fmt, _v[_b[(base, off)]]))
            pcls, sobj = real_classes(E, built.e, st, built.objs[i], fm, built.flags[i])
            inherited = next((c for c in CLASSES if c in pcls), None)
            res = R.run_stmt(i, regs, varbytes)
            try:
                want = D.expected_raw(st, regview, varbytes, fm)
                vals = []
                node_values(E, sobj, regview, varat, vals)
                inside = all(-(1 << (W - 1)) <= v < (1 << (W - 1)) for v in vals)
                neg = neg_class(st, regview, varbytes, fm)
            except (dsl.Outside, KeyError, ZeroDivisionError):
                want, inside, neg = None, False, False
            if isinstance(res, str):
                if inside and inherited is None:
                    ctx.require(False, "generated code faults inside the precondition", case, res, NEG if neg else None)
                status.append("fault")
                break
            regs2, vb2 = res
            changed = [f"r{k}" for k in sorted(owned) if k != 10 and not (dest[0] != "v" and dest[1] == k)
                       and regs2.get(k) != regs.get(k)]
            changed += [n for n in varbytes if not (dest[0] == "v" and dest[1] == n) and vb2[n] != varbytes[n]]
            if inherited is not None:
                status.append("inherited:" + inherited)
            elif not inside:
                status.append("outside" + (":fixed-to-short" if "fixed-to-short" in pcls else ""))
            else:
                bits = D.dest_bits(dest, fm)
                got = (vb2[dest[1]] if dest[0] == "v" else regs2.get(dest[1], 0)) & ((1 << bits) - 1)
                cls = NEG if neg else None
                ok = ctx.require(got in want, "destination differs from the exact rational result dropped to the "
                                 "destination's representation", case, f"got={got} want={sorted(want)[:2]}", cls)
                ok2 = ctx.require(not changed, "another owned register or declared variable changed", case,
                                  "changed=" + ",".join(changed), cls)
                status.append(("ok:" if ok and ok2 else "fail:" + str(cls) + ":") + inp["mode"])
                if not (ok and ok2):
                    break
            regs, varbytes = regs2, vb2
            if dest[0] != "v":
                owned.add(dest[1])
    return status


# ----------------------------------------------------------------------------- canonical forms, families
def canon_real(res, built):
    if isinstance(res, str):
        return "err " + res
    fm = {n: f for n, f, _ in built.prog["vars"]}
    cls = []
    for st, obj, fl in zip(built.prog["stmts"], built.objs, built.flags):
        cls.append(",".join(sorted(real_classes(built.E, built.e, st, obj, fm, fl)[0])) or "-")
    return ("ok " + " ".join(":".join(map(str, i)) for i in res) + " | " + " ; ".join(built.trees)
            + " | " + " ; ".join(cls))


def gen_programs(ctx):
    rng, out = ctx.rng, []
    for nn in (True, False):
        tag = "nonneg" if nn else "neg"
        for _ in range(ctx.n(450, 15000)):
            out.append((f"random-{tag}", nn, D.gen_random(rng, 3, nn)))
        d1 = list(D.enum_depth1())
        if ctx.quick:
            d1 = rng.sample(d1, 500)
        for d in d1:
            out.append((f"depth1-{tag}", nn, D.build_desc(rng, d, nn)))
        for _ in range(ctx.n(120, 4000)):
            out.append((f"special-{tag}", nn, D.gen_special(rng, nn)))
    return out


def cmp_probe(ctx, rng):
    """`a < b` with mixed typing: the scaled sides (real objects) against the model and against the exact order"""
    prog = D.base_prog(rng, "l")
    kinds = rng.choice([("x", "c"), ("c", "x"), ("vx", "r"), ("r", "vx"), ("x", "d"), ("d", "x"), ("x", "vi"), ("sr", "d"),
                        ("vx", "c"), ("x", "vx"), ("r", "c"), ("vi", "x"),
                        ("w", "d"), ("d", "sw"), ("vi", "d"), ("d", "vi")])          # a 32-bit integer against a decimal constant
    a, b = (D.pick_leaf(rng, prog, k, True) for k in kinds)
    if D.is_const(a) and D.is_const(b):
        return None
    return dict(prog, cmp=[a, b])


def check_cmp(ctx, case, inputs=None):
    built = D.FBuilt(case)
    E = built.E
    try:
        l, r = built.compare(*case["cmp"])
    except Exception as ex:                       # noqa: BLE001
        return "err other:" + type(ex).__name__
    impl = "ok " + D.plain_tree(E, l) + " ; " + D.plain_tree(E, r)
    fm = {n: f for n, f, _ in case["vars"]}
    lay = built.layout()
    byloc = {(b, off): n for n, (b, off, f) in lay.items()}
    for k in range(1 if inputs is not None else 4):
        inp = inputs if inputs is not None else make_inputs(
            ctx.rng, dict(case, stmts=[["set", ["x", 0], case["cmp"][0]], ["set", ["x", 0], case["cmp"][1]]]), "nonneg")
        regs = {int(x): v for x, v in inp["regs"].items()}
        regs[10] = interp.STACK_TOP
        varat = lambda base, off, fmt, _v=inp["vars"]: (dsl.sx(_v[byloc[(base, off)]], 64) if fmt == "x"
                                                      else dsl.fmt_value(fmt, _v[byloc[(base, off)]]))
        try:
            lv, rv = c01.eval_obj(E, l, regs, varat), c01.eval_obj(E, r, regs, varat)
            qa, = D.eval_q(case["cmp"][0], regs, inp["vars"], fm)
            qb, = D.eval_q(case["cmp"][1], regs, inp["vars"], fm)
        except (dsl.Outside, KeyError):
            continue
        swapped = D.is_const(case["cmp"][0])        # number < expr is the reflected expr > number
        exact = qa < qb
        ctx.require(((lv > rv) if swapped else (lv < rv)) == exact,
                    "the scaled sides of a mixed comparison do not order like the exact values",
                    {"cmp": case, "inputs": inp}, f"left={lv} right={rv} exact={qa}<{qb}", None)
    return impl


# ----------------------------------------------------------------------------- the float model and the Python side
def dy(x):
    f = Fraction(x)
    return f"{f.numerator}/{f.denominator}"


def sweep_ref(lo, hi, step):
    h, bad, M = 7, 0, 2305843009213693951
    for n in range(lo, hi, step):
        d = Fraction(D.dec_float(n))
        c = round(D.dec_float(n) * FB)
        bad += c != n
        num = d.numerator
        h = (h * 1000003 + max(num, 0) + 3 * max(-num, 0) + 7 * d.denominator + 11 * abs(c) + 13 * abs(c)) % M
    return f"{h} {bad}"


def float_model(ctx):
    """binary64 model vs CPython (a test of the model): sweep of n/10^5, boundary decimals, random fractions"""
    rng = ctx.rng
    sweeps = [(-60000, 60001, 1), (-2000000, 2000001, 37)] if ctx.quick else [(-2000000, 2000001, 1)]
    for _ in range(ctx.n(4, 40)):
        lo = rng.randrange(-2**51, 2**51 - 3000)
        sweeps.append((lo, lo + rng.randrange(200, 2000), 1))
    cases = [{"sweep": list(s)} for s in sweeps]
    fl = []
    for _ in range(ctx.n(300, 20000)):
        a = rng.randrange(-(1 << rng.choice([10, 40, 64, 90])), 1 << rng.choice([10, 40, 64, 90]))
        b = rng.randrange(1, 1 << rng.choice([3, 20, 53, 70]))
        if a != 0 and 2.0**-1000 < abs(Fraction(a, b)) < 2.0**1000:
            fl.append((a, b))
    cases += [{"fl": [a, b]} for a, b in fl]
    consts = sorted(set(D.BELOW + sum(D.DEC_CLASSES.values(), []) + [rng.randrange(-2**51 + 1, 2**51) for _ in range(200)]))
    cases += [{"const": n} for n in consts]
    impl = [sweep_ref(*s) for s in sweeps]
    impl += [dy(a / b) + " " + str(round(a / b)) for a, b in fl]     # int / int is correctly rounded in CPython
    for n in consts:
        c = round(D.dec_float(n) * FB)
        ctx.require(c == n, "a decimal with <= 5 fractional digits is not represented exactly as a constant",
                    {"const": n}, f"stored={c}", None)
        impl.append(f"{c} {c} {int(D.dec_float(n))} {dy(c / FB)}")
    model = ctx.drive(DRIVER, cases, "float")
    if model is not None:
        for c, i, m in zip(cases, impl, model):
            ctx.case(c, kind="float:" + next(iter(c)))
            ctx.agree("binary64 model vs CPython float", c, i, m)
    ctx.extra["float_sweep"] = [f"{lo}..{hi} step {st}" for lo, hi, st in sweeps[:2]] + [f"+{len(sweeps) - 2} random windows"]


def python_side(ctx, ns):
    """real ArrayGlobalVarDesc.__set__/__get__ of an `x` variable on a bytearray-backed map"""
    from ebpfcat import ebpf as E
    from ebpfcat.arraymap import ArrayMap
    import struct
    m = ArrayMap()
    cls = type("P", (E.EBPF,), {"gmap": m, "gq": m.globalVar("q"), "gx": m.globalVar("x")})
    with fsim.fake_maps():
        e = cls()
    e.loaded = True
    off = e.__dict__["gx"]
    for n in ns:
        case = {"pyset": n}
        ctx.case(case, kind="python-side")
        e.gx = D.dec_float(n)
        raw = struct.unpack_from("q", e.__dict__["gmap"], off)[0]
        ctx.require(raw == n, "Python-side assignment of a decimal to an x variable is not exact", case, f"stored={raw}", None)
        ctx.require(e.gx == D.dec_float(n), "reading an x variable back does not give the decimal that was written", case,
                    f"read={e.gx!r}", None)


# ----------------------------------------------------------------------------- executed fixed-point conditions
import operator as _op
CMPS = {"<": _op.lt, "<=": _op.le, ">": _op.gt, ">=": _op.ge, "==": _op.eq, "!=": _op.ne}
RAW_EDGES = [0, 1, 29000, 2**31 - 1, 2**31, 2**31 + 1, 2**32 - 1, 2**32, 2**32 + 29, 3 * 10**9, 5 * 10**9, 12345678901]
INT_EDGES = [0, 1, 7, 21474, 21475, 30000, 42949, 42950, 65000, 123456]


def gen_cond(rng):
    """`with <comparison>: marker = 1` (+ `with Else: marker = 2`): 64-bit operands only (x variables, x registers, decimal
    and integer constants, r/sr registers, q variables; optionally one arithmetic step on a side), values on both sides of
    2^31 and 2^32 raw"""
    prog = D.base_prog(rng, rng.choice(["l", "g"]))
    fx = lambda: (["d", rng.choice(RAW_EDGES[1:] + [3000050000, 2147483648])] if rng.random() < 0.25
                  else D.pick_leaf(rng, prog, rng.choice(["vx", "vx", "x"]), True))
    it = lambda: (["c", rng.choice(INT_EDGES)] if rng.random() < 0.4 else D.pick_leaf(rng, prog, rng.choice(["r", "sr", "vq"]), True))
    a, b = rng.choice([(fx, it), (it, fx), (fx, fx), (fx, fx)])
    a, b = a(), b()
    if D.is_const(a) and D.is_const(b):
        a = D.pick_leaf(rng, prog, "vx")
    if rng.random() < 0.3:
        k = rng.randrange(2)
        side = [a, b][k]
        if not D.is_const(side):
            side = rng.choice([["*", side, ["c", 2]], ["+", side, it()], ["/", side, ["c", 4]], ["-", side, ["d", 50000]]])
            a, b = (side, b) if k == 0 else (a, side)
    elif rng.random() < 0.25:
        # register +- int against a fixed-point value: the signedness of the Sum object decides the jump (a signed register with
        # a non-negative number, an unsigned one with a negative number, numbers that merge to another sign)
        regs = [r for r in prog["owned"] if r < 10 and r != 7] or [1]
        sm = [rng.choice("+-"), [rng.choice(["sr", "sr", "r"]), rng.choice(regs)], ["c", rng.choice([0, 1, 1, 7, -1, -7, 21474])]]
        if rng.random() < 0.3:
            sm = [rng.choice("+-"), sm, ["c", rng.choice([1, -1, 7, -7])]]
        a, b = rng.choice([(fx(), sm), (sm, fx())])
    return dict(prog, cond=[rng.choice(list(CMPS)), a, b], els=rng.random() < 0.6)


def cond_inputs(rng, case):
    """operand values near each other and near the 2^31 / 2^32 raw boundaries (all non-negative)"""
    n = rng.choice(INT_EDGES)
    near = lambda: max(0, n * FB + rng.choice([-1, 0, 0, 1, FB // 2]))
    xv = lambda: near() if rng.random() < 0.5 else rng.choice(RAW_EDGES) + rng.choice([0, 0, 1, 7])
    iv = lambda: n if rng.random() < 0.6 else rng.choice(INT_EDGES)
    has_global = any(v[2] == "g" for v in case["vars"])
    xregs = {l[1] for l in D.leaves(case["cond"][1]) + D.leaves(case["cond"][2]) if l[0] == "x"}
    regs = {str(k): (xv() if k in xregs else iv()) for k in case["owned"] if k != 10 and not (k == 7 and has_global)}
    vars_ = {nm: (xv() if f == "x" else iv() & ((1 << (8 * D.FSIZE[f] - 1)) - 1)) for nm, f, _ in case["vars"]}
    mode = "nonneg"

    def has(j, ops):
        return isinstance(j, list) and (j[0] in ops or any(has(x, ops) for x in j[1:]))
    if not has(case["cond"], ("/", "*", "//", "%")) and rng.random() < 0.5:
        # signed operands: x variables, x registers, sr registers and q variables may be negative (no division or product in the
        # condition, so the unsigned DIV of the known finding divmod-negative is not involved)
        mode = "signed"
        signed_regs = {l[1] for l in D.leaves(case["cond"][1]) + D.leaves(case["cond"][2]) if l[0] in ("x", "sr")}
        for k in list(regs):
            if int(k) in signed_regs and rng.random() < 0.6:
                regs[k] = (-regs[k]) % (1 << 64)
        for nm, f, _ in case["vars"]:
            if f in ("x", "q") and rng.random() < 0.6:
                vars_[nm] = (-vars_[nm]) % (1 << 64)
    return {"regs": regs, "vars": vars_, "mode": mode}


def build_cond(case):
    """the REAL program object: comparison built by the real overloads, real `with` blocks"""
    b = D.FBuilt(dict(case, stmts=[]))
    mk = next(n for n, f, _ in case["vars"] if f == "Q")
    op, x, y = case["cond"]
    c = CMPS[op](b.expr(x), b.expr(y))
    with c as Else:
        setattr(b.e, mk, 1)
    if case["els"]:
        with Else:
            setattr(b.e, mk, 2)
    return b, c, mk


def check_cond(ctx, case, inputs_list):
    try:
        built, c, mk = build_cond(case)
    except Exception as ex:                       # noqa: BLE001
        return ["emit-error:" + type(ex).__name__]
    E = built.E
    insns = built.insns()
    R = Runner(dict(case, stmts=[]), built, insns)
    fm = R.fm
    sc = c.value if isinstance(c, E.InvertComparison) else c          # == is ~(!=)
    byloc = {(b, off): n for n, (b, off, f) in R.layout.items()}
    out = []
    for inp in inputs_list:
        regs = {int(k): v for k, v in inp["regs"].items()}
        if R.has_global:
            regs[7] = GLOBAL_BASE
        varbytes = dict(inp["vars"], **{mk: 0})
        regview = dict(regs)
        regview.setdefault(10, interp.STACK_TOP)
        varat = lambda base, off, fmt, _v=varbytes: (dsl.sx(_v[byloc[(base, off)]], 64) if fmt == "x"
                                                   else dsl.fmt_value(fmt, _v[byloc[(base, off)]]))
        try:
            vals = []
            node_values(E, sc.left, regview, varat, vals)
            node_values(E, sc.right, regview, varat, vals)
            qa = D.eval_q(case["cond"][1], regview, varbytes, fm)
            qb = D.eval_q(case["cond"][2], regview, varbytes, fm)
        except (dsl.Outside, KeyError, ZeroDivisionError):
            out.append("cond:outside")
            continue
        truths = {CMPS[case["cond"][0]](x, y) for x in qa for y in qb}
        lo = -(1 << 63) if inp.get("mode") == "signed" else 0
        # precondition as for C03: a signed comparison needs both sides in the signed 64-bit range, an unsigned one (neither real
        # operand object is signed) needs both sides non-negative
        # (signedness as the property defines it, dsl.psigned on the program text -- not the implementation's own typing:
        # x registers/variables, sr/sw views, lower-case formats and negative constants are signed)
        unsigned_cmp = not (dsl.psigned(case["cond"][1], fm) or dsl.psigned(case["cond"][2], fm))
        if unsigned_cmp and (min(qa) < 0 or min(qb) < 0):
            out.append("cond:outside")
            continue
        if len(truths) != 1 or not all(lo <= v < (1 << 63) for v in vals):
            out.append("cond:outside")
            continue
        want = 1 if truths.pop() else (2 if case["els"] else 0)
        m = R.machine([tuple(i) for i in insns], regs, varbytes)
        try:
            m.run()
        except interp.Fault as e:
            if not (m.trace and m.trace[-1] == len(insns)):
                ctx.require(False, "code of a fixed-point condition faults", {"cond": case, "inputs": inp}, str(e), None)
                out.append("cond:fault")
                continue
        got = m.load(R.addr(mk), 8)
        ok = ctx.require(got == want, "a condition on fixed-point operands runs the wrong branch (exact rational comparison "
                         "of the operand values)", {"cond": case, "inputs": inp},
                         f"marker={got} want={want} left={sorted(qa)[0]} right={sorted(qb)[0]}", None)
        big = any(v >= (1 << 31) for v in vals)
        out.append(("cond:ok" if ok else "cond:fail") + (":negative" if any(v < 0 for v in vals) else ":ge2^31" if big else ":small"))
    return out


# ----------------------------------------------------------------------------- histories of the Python side
# "assigned from Python is represented exactly" for a LATER use: real program instances (main programs of a class and of
# a derived class, sub-program instances of one class -- they share the descriptor objects) are kept alive; assignments
# from Python, runs of the really generated code on the very same map memory and reads alternate.  Observation: the raw
# bytes of every live map after every operation.  Oracle: after `var = decimal n/10^5` the variable holds exactly n,
# whatever happened before; a read gives stored/10^5; a run leaves what the exact arithmetic says; every other byte of
# every live map is unchanged.  Model: Ebv.FixedStore (no memo, nothing per instance), theorems in Props/C02Hist.lean.
HPOOL = sorted(set(D.BELOW[:12] + D.DEC_CLASSES["unit"] + [150000, 250000, 123456, 2**31 - 1, 2**31, 2**32 + 29000]))
HFIT = 1 << 62


def h_classes(H):
    """the real classes of one history case: main program, derived program, sub-program, all on ONE ArrayMap object"""
    from ebpfcat import ebpf as E
    from ebpfcat.arraymap import ArrayMap
    amap = ArrayMap()
    ns = {"gmap": amap}
    ns.update({n: amap.globalVar(f) for n, f in H["vars"]})
    main = type("HMain", (E.EBPF,), ns)
    der = type("HDer", (main,), {n: amap.globalVar(f) for n, f in H["extra"]})
    sub = type("HSub", (E.SubProgram,), {n: amap.globalVar(f) for n, f in H["sub"]})
    return E, {"main": main, "der": der}, sub


def h_vars(H, world, s):
    """declared variables [(name, fmt)] of instance s (0 = the main program, 1.. = its sub-programs) of a world"""
    if s:
        return [tuple(v) for v in H["sub"]]
    return [tuple(v) for v in H["vars"]] + ([tuple(v) for v in H["extra"]] if world["cls"] == "der" else [])


def h_fm(H, world):
    return {f"{s}.{n}": f for s in range(world["subs"] + 1) for n, f in h_vars(H, world, s)}


def h_expr(insts, j):
    k = j[0]
    if k == "c":
        return int(j[1])
    if k == "d":
        return D.dec_float(j[1])
    if k == "v":
        s, n = j[1].split(".")
        return getattr(insts[int(s)], n)
    return D.FOPS[k](h_expr(insts, j[1]), h_expr(insts, j[2]))


class HWorld:
    """one live main program with its sub-programs; the statements are issued into the real program, then it counts as
    loaded (the map memory is a bytearray, fsim.fake_maps)"""

    def __init__(self, E, classes, sub, H, world):
        self.fm = h_fm(H, world)
        with fsim.fake_maps():
            subs = [sub() for _ in range(world["subs"])]
            self.e = classes[world["cls"]](subprograms=subs)
        self.insts = [self.e] + subs
        n0 = len(self.e.opcodes)
        for st in world["stmts"]:
            s, n = st[1][1].split(".")
            setattr(self.insts[int(s)], n, h_expr(self.insts, st[2]))
        self.code = [(i.opcode.value, i.dst, i.src, i.off, i.imm) for i in self.e.opcodes[n0:]]
        self.mem = self.e.__dict__["gmap"]
        self.off = {}                                   # where the variables are, recorded once
        for key in self.fm:
            s, n = key.split(".")
            self.off[key] = self.insts[int(s)].__dict__[n]
        self.e.loaded = True

    def raw(self, key):
        import struct
        f = self.fm[key]
        return struct.unpack_from("q" if f == "x" else f, self.mem, self.off[key])[0]

    def run(self):
        m = interp.Machine(self.code + [(0x95, 0, 0, 0, 0)], [interp.Region(GLOBAL_BASE, self.mem, "globals")])
        m.regs[7], m.init[7] = GLOBAL_BASE, True
        try:
            m.run()
        except interp.Fault as e:
            if not (m.trace and m.trace[-1] == len(self.code)):
                return f"fault:{e}"
        return None


def h_fits(j, vars_, fm):
    """every node of the statement has an exact value v with |v| * 10^10 < 2^62 (so neither a scaled operand nor the
    unscaled product of two fixed values leaves 64 bits)"""
    for q in D.eval_q(j, {}, vars_, fm):
        if abs(q) * FB * FB >= HFIT:
            return False
    return j[0] in ("c", "d", "v") or (h_fits(j[1], vars_, fm) and h_fits(j[2], vars_, fm))


def h_reference(world, fm, shadow):
    """what the program of a world does to the shadow {key: signed raw}: list of (key, new raw) per statement, or None
    when a statement is outside the precondition (does not fit / negative operand of a division / two acceptable results)"""
    out, cur = [], dict(shadow)
    for st in world["stmts"]:
        vars_ = {k: v & M64 for k, v in cur.items()}
        try:
            if not h_fits(st[2], vars_, fm) or neg_class(st, {}, vars_, fm):
                return None
            want = D.expected_raw(st, {}, vars_, fm)
        except (dsl.Outside, KeyError, ZeroDivisionError, AssertionError):
            return None
        if len(want) != 1:
            return None
        key = st[1][1]
        new = dsl.sx(next(iter(want)), 64) if fm[key] in "xq" else next(iter(want))
        out.append((key, new))
        cur[key] = new
    return out


def h_gen_stmt(rng, fm):
    xs = [k for k, f in fm.items() if f == "x"]
    qs = [k for k, f in fm.items() if f == "q"]
    dec = lambda: ["d", rng.choice(HPOOL[:24] + [100000, 50000, 1])]
    v = lambda: ["v", rng.choice(xs)]
    if qs and rng.random() < 0.2:
        dest = rng.choice(qs)
        e = rng.choice([v(), ["+", ["v", dest], ["c", rng.randrange(1, 9)]], ["//", v(), ["d", rng.choice([50000, 29000, 100000, 1])]]])
    else:
        dest = rng.choice(xs)
        e = rng.choice([["+", ["v", dest], dec()], ["+", ["v", dest], dec()], ["-", ["v", dest], dec()], ["+", v(), v()],
                        ["*", v(), ["c", rng.randrange(2, 4)]], ["*", v(), dec()], dec(), v(), ["+", v(), ["c", 1]],
                        ["/", v(), ["c", rng.choice([2, 4, 8])]]] + ([["v", rng.choice(qs)]] if qs else []))
    return ["set", ["v", dest], e]


def gen_hist(rng):
    """one history case; the generator simulates the reference so that every run stays inside the precondition"""
    H = {"vars": [["va", "x"], ["vb", "x"]] + ([["vc", "x"]] if rng.random() < 0.5 else []) + ([["vk", "q"]] if rng.random() < 0.6 else []),
         "extra": [["vd", "x"]] + ([["vj", "q"]] if rng.random() < 0.3 else []),
         "sub": [["su", "x"]] + ([["st", "x"]] if rng.random() < 0.4 else []), "worlds": [], "ops": []}
    for w in range(rng.choice([1, 2, 2])):
        world = {"cls": rng.choice(["main", "der"]), "subs": rng.choice([0, 1, 2, 2])}
        fm = h_fm(H, world)
        world["stmts"] = [h_gen_stmt(rng, fm) for _ in range(rng.randrange(1, 5))]
        H["worlds"].append(world)
    fms = [h_fm(H, w) for w in H["worlds"]]
    shadow = [None] * len(H["worlds"])
    born = sorted(rng.sample(range(1, 9), len(H["worlds"]) - 1))          # when the later worlds are created
    pool = rng.sample(HPOOL, 3) + [rng.randrange(0, 1 << 33)]
    if rng.random() < 0.3:
        pool += [-rng.choice(HPOOL[:20]), -rng.randrange(1, 1 << 30)]
    sets, ops = [], H["ops"]

    def new(w):
        ops.append(["new", w])
        shadow[w] = {k: 0 for k in fms[w]}
    new(0)
    for t in range(rng.randrange(6, 16)):
        while born and born[0] <= t:
            born.pop(0)
            new(sum(s is not None for s in shadow))
        live = [w for w, s in enumerate(shadow) if s is not None]
        w = rng.choice(live)
        xs = [k for k, f in fms[w].items() if f == "x"]
        qs = [k for k, f in fms[w].items() if f == "q"]
        r = rng.random()
        if r < 0.45:
            prev = [s for s in sets if s[0] in live]
            if prev and rng.random() < 0.55:                 # the value assigned before, to the same variable, again
                w, key, n = rng.choice(prev)
            else:
                key, n = rng.choice(xs), rng.choice(pool)
            ops.append(["set", w, key, n])
            sets.append((w, key, n))
            shadow[w][key] = n
        elif r < 0.75:
            ref = h_reference(H["worlds"][w], fms[w], shadow[w])
            if ref is not None:
                ops.append(["run", w])
                shadow[w].update(dict(ref))
        elif r < 0.93 or not qs:
            ops.append(["get", w, rng.choice(xs + qs)])
        else:
            key, n = rng.choice(qs), rng.choice([0, 1, 7, 100000, -3, 2**40 + 5])
            ops.append(["seti", w, key, n])
            shadow[w][key] = n
    return {"hist": H}


def h_model_case(case):
    """the same history as operations of Ebv.FixedStore: instance number = 4 * world + s, variable number = position
    in the instance's declaration list; a run becomes the writes the REFERENCE predicts (one operation per statement);
    `vis` = which model operations end a harness operation (their dumps are compared)"""
    H = case["hist"]
    fms = [h_fm(H, w) for w in H["worlds"]]
    num = lambda w, key: (4 * w + int(key.split(".")[0]),
                          [n for n, _ in h_vars(H, H["worlds"][w], int(key.split(".")[0]))].index(key.split(".")[1]))
    decl = [list(num(w, k)) for w in range(len(fms)) for k in fms[w]]
    shadow = [{k: 0 for k in fm} for fm in fms]
    mops, vis = [], []
    for op in H["ops"]:
        k, w = op[0], op[1]
        if k == "new":
            continue
        if k == "set":
            i, v = num(w, op[2])
            mops.append(["set", i, v, op[3]])
            shadow[w][op[2]] = op[3]
        elif k == "seti":
            i, v = num(w, op[2])
            mops.append(["write", i, [[v, op[3]]]])
            shadow[w][op[2]] = op[3]
        elif k == "get":
            i, v = num(w, op[2])
            mops.append(["get" if fms[w][op[2]] == "x" else "geti", i, v])
        else:
            ref = h_reference(H["worlds"][w], fms[w], shadow[w])
            if ref is None:
                break                                          # outside the precondition: the history ends here
            for key, new in ref:
                i, v = num(w, key)
                mops.append(["write", i, [[v, new]]])
            shadow[w].update(dict(ref))
        vis.append(len(mops) - 1)
    return {"mops": mops, "decl": decl}, vis


def h_dump(H, worlds):
    """raw contents of every declared variable, worlds not created yet read as the fresh map they will get"""
    out = []
    for w, world in enumerate(H["worlds"]):
        for key in h_fm(H, world):
            out.append(str(worlds[w].raw(key)) if worlds[w] is not None else "0")
    return ",".join(out)


def check_hist(ctx, case):
    """real code + property oracle for one history; returns the observation lines (one per operation that is no `new`)"""
    import struct
    H = case["hist"]
    lines = []
    try:
        E, classes, sub = h_classes(H)
    except Exception as ex:                              # noqa: BLE001 - an observation
        ctx.require(False, "declaring the program classes raises", case, f"{type(ex).__name__}: {ex}", None)
        return ["declare:" + type(ex).__name__]
    worlds = [None] * len(H["worlds"])
    shadow = [None] * len(H["worlds"])
    for t, op in enumerate(H["ops"]):
        k, w = op[0], op[1]
        at = dict(case, at=t)
        before = [bytes(x.mem) if x is not None else None for x in worlds]
        seen = ""
        try:
            if k == "new":
                worlds[w] = HWorld(E, classes, sub, H, H["worlds"][w])
                shadow[w] = {key: 0 for key in worlds[w].fm}
                ranges = sorted((o, o + 8) for o in worlds[w].off.values())
                ctx.require(all(a[1] <= b[0] for a, b in zip(ranges, ranges[1:])) and ranges[-1][1] <= len(worlds[w].mem),
                            "variables of one map overlap or lie outside the map", at, str(ranges), None)
                ctx.require(not any(worlds[w].mem), "a fresh map is not zero", at, None, None)
                touched = None
            elif k == "set":
                s, n = op[2].split(".")
                setattr(worlds[w].insts[int(s)], n, D.dec_float(op[3]))
                shadow[w][op[2]] = op[3]
                touched = {op[2]}
            elif k == "seti":
                s, n = op[2].split(".")
                setattr(worlds[w].insts[int(s)], n, op[3])
                shadow[w][op[2]] = op[3]
                touched = {op[2]}
            elif k == "get":
                s, n = op[2].split(".")
                got = getattr(worlds[w].insts[int(s)], n)
                want = shadow[w][op[2]] / FB if worlds[w].fm[op[2]] == "x" else shadow[w][op[2]]
                ctx.require(type(got) is type(want) and got == want, "reading a variable from Python does not give the value "
                            "it holds (stored / 10^5 for an x variable)", at, f"read={got!r} want={want!r}", None)
                seen = (dy(got) if isinstance(got, float) else str(got)) + " "
                touched = set()
            else:
                ref = h_reference(H["worlds"][w], worlds[w].fm, shadow[w])
                if ref is None:
                    lines.append("outside")
                    ctx.stats["hist:outside"] += 1
                    return lines
                res = worlds[w].run()
                if res is not None:
                    ctx.require(False, "generated code faults inside the precondition", at, res, None)
                    return lines + [res]
                shadow[w].update(dict(ref))
                touched = {key for key, _ in ref}
        except Exception as ex:                          # noqa: BLE001 - an exception of the real code is an observation
            ctx.require(False, "an operation of the history raises", at, f"{type(ex).__name__}: {ex}", None)
            return lines + ["raise:" + type(ex).__name__]
        # the oracle on the raw bytes of every live map
        for v, x in enumerate(worlds):
            if x is None or (k == "new" and v == w):
                continue
            want = bytearray(before[v])
            if v == w:
                for key in touched:
                    f = "q" if x.fm[key] in "xq" else x.fm[key]
                    struct.pack_into(f, want, x.off[key], shadow[w][key])
            if bytes(x.mem) == bytes(want):
                continue
            bad = [key for key in x.fm if x.raw(key) != shadow[v][key]]
            if k == "set" and v == w and op[2] in bad:
                ctx.require(False, "Python-side assignment of a decimal to an x variable is not exact (later use: after earlier "
                            "assignments, program runs and reads)", at, f"stored={x.raw(op[2])} want={op[3]}", None)
            elif k == "run" and v == w and set(bad) <= touched:
                ctx.require(False, "a program run leaves something else than the exact result in its destinations", at,
                            " ".join(f"{key}: got={x.raw(key)} want={shadow[v][key]}" for key in bad), None)
            else:
                ctx.require(False, "an operation changed bytes it must not touch (another variable, another instance, another "
                            "program's map)", at, f"world={v} differing variables={bad}", None)
            return lines + ["diverged"]
        if k != "new":
            lines.append(seen + h_dump(H, worlds))
    return lines


def hist_family(ctx, cases):
    impl, model_in, vis = [], [], []
    for c in cases:
        H = c["hist"]
        ctx.case(c, kind=f"hist:{len(H['worlds'])}w:" + ("rerun" if sum(o[0] == "run" for o in H["ops"]) > 1 else "run1"))
        impl.append(check_hist(ctx, c))
        m, v = h_model_case(c)
        model_in.append(m)
        vis.append(v)
    model = ctx.drive(DRIVER, model_in, "hist")
    if model is not None:
        for c, i, m, v in zip(cases, impl, model, vis):
            parts = m.split(" ; ") if m else []
            picked = [parts[j] for j in v if j < len(parts)]
            if i and i[-1] == "outside":
                i = i[:-1]
            ctx.agree("raw map contents and values read over a history (real descriptors + generated code vs Ebv.FixedStore)",
                      c, " ; ".join(i), " ; ".join(picked))


# ----------------------------------------------------------------------------- run / replay
def run(ctx):
    progs = gen_programs(ctx)
    impl_lines, accepted = [], []
    for fam, nn, p in progs:
        res, built = D.emit_real(p, True)
        impl_lines.append(canon_real(res, built))
        kind = "accepted" if not isinstance(res, str) else res
        ctx.case(p, nontrivial=not isinstance(res, str) and len(res) > 1, kind=f"{fam}:{kind}")
        if not isinstance(res, str):
            accepted.append((fam, nn, p, built, res))
    cmps = [c for c in (cmp_probe(ctx, ctx.rng) for _ in range(ctx.n(150, 3000))) if c]
    cmp_impl = []
    for c in cmps:
        ctx.case(c, kind="cmp")
        cmp_impl.append(check_cmp(ctx, c))
    # (a) the tie
    model = ctx.drive(DRIVER, [p for _, _, p in progs] + cmps, "emit")
    if model is not None:
        for (fam, nn, p), i, m in zip(progs, impl_lines, model):
            ctx.agree("emitted instruction list, object tree, classes (real generator vs GenFixed)", p, i, m)
        for c, i, m in zip(cmps, cmp_impl, model[len(progs):]):
            ctx.agree("scaled sides of a comparison (real `comparison` vs cmpScale)", c, i, m)
    # (b) the property oracle on the real emitted code
    accepted.sort(key=lambda a: len(a[4]))
    n = 0
    for fam, nn, p, built, res in accepted:
        modes = ["nonneg", "nonneg", "neg"] if nn else ["neg", "neg", "nonneg"]
        inputs = [make_inputs(ctx.rng, p, m) for m in modes[:ctx.n(3, 3)]]
        for st in check_program(ctx, p, built, res, inputs):
            ctx.stats["oracle:" + st] += 1
            n += 1
    ctx.extra["oracle_executions"] = n
    # (b') comparisons on fixed-point operands, executed (which branch runs), judged by the Fraction reference
    for _ in range(ctx.n(700, 12000)):
        c = gen_cond(ctx.rng)
        ctx.case(c, kind="cond")
        for st in check_cond(ctx, c, [cond_inputs(ctx.rng, c) for _ in range(4)]):
            ctx.stats["oracle:" + st] += 1
    # (c) float model, Python side
    float_model(ctx)
    python_side(ctx, sorted(set(D.BELOW + D.DEC_CLASSES["unit"] + D.DEC_CLASSES["neg"] + D.DEC_CLASSES["big"]
                                + [ctx.rng.randrange(-2**51 + 1, 2**51) for _ in range(ctx.n(300, 20000))])))
    # (d) the Python side over histories: live instances used again after the program ran, several instances and programs
    hist_family(ctx, [gen_hist(ctx.rng) for _ in range(ctx.n(1200, 20000))])
    ctx.extra["proved"] = PROVED
    ctx.extra["corresponded_not_proved"] = CORRESPONDED_NOT_PROVED


def replay(ctx, case):
    if "const" in case:
        n = case["const"]
        c = round(D.dec_float(n) * FB)
        ctx.require(c == n, "a decimal with <= 5 fractional digits is not represented exactly as a constant", case, f"stored={c}")
        return {"stored": c}
    if "pyset" in case:
        python_side(ctx, [case["pyset"]])
        return {"pyset": case["pyset"]}
    if "hist" in case:
        return {"hist": check_hist(ctx, {"hist": case["hist"]})}
    if "cond" in case:
        c = case["cond"]
        return {"cond": check_cond(ctx, c, [case["inputs"]] if "inputs" in case else [cond_inputs(ctx.rng, c) for _ in range(6)])}
    if "cmp" in case:
        return {"cmp": check_cmp(ctx, case["cmp"], case.get("inputs"))}        # the stored inputs, not fresh ones
    prog = case["prog"]
    res, built = D.emit_real(prog, True)
    if isinstance(res, str):
        return {"emit": res}
    inputs = [case["inputs"]] if "inputs" in case else [make_inputs(ctx.rng, prog, m) for m in ("nonneg", "neg", "nonneg")]
    return {"emit": res, "status": check_program(ctx, prog, built, res, inputs), "classes": canon_real(res, built).split(" | ")[-1]}


THEOREMS = [
    "Ebv.F64.rne_err", "Ebv.F64.rne_sandwich", "Ebv.F64.flPos_spec", "Ebv.F64.decConstAbs_eq",
    "Ebv.C02.C02_const", "Ebv.C02.C02_py_roundtrip", "Ebv.C02.product_below_witness",
    "Ebv.GenFixed.floor_div_int", "Ebv.GenFixed.fNode_rep", "Ebv.GenFixed.fOp_rep", "Ebv.GenFixed.elabF_rep",
    "Ebv.C02.fx_typing", "Ebv.C02.storeVal_rep", "Ebv.Gen.evalBV_eq_evalZ_fx",
    "Ebv.C02.C02_ops_reg", "Ebv.C02.C02_ops_mem", "Ebv.C02.stmtsF_correct", "Ebv.C02.C02_partial", "Ebv.C02.divOkB_sound",
    "Ebv.C02.C02_full_refuted", "Ebv.C02.divmod_negative_mul_refuted", "Ebv.C02.divmod_negative_store_refuted",
    "Ebv.C02.fixed_to_short_div32_refuted",
    "Ebv.C02.set_exact_after_history", "Ebv.C02.set_history_irrelevant", "Ebv.C02.set_frame", "Ebv.C02.untouched_keeps",
    "Ebv.C02.last_set_wins", "Ebv.C02.instances_independent", "Ebv.C02.other_instances_keep", "Ebv.C02.memo_refuted",
]
TRUSTED = ["hand-written models Ebv.GenFixed (FIXED_BASE insertion of the operator overloads, Constant.__imul__ folding, store "
           "scaling, x registers/variables) on top of C01's Ebv.Gen, tied to ebpfcat/ebpf.py by EXACT opcode-list equality "
           "(incl. the scaled integers that reach imm), object trees with the root's `fixed` attribute, rejections and class "
           "predicates on generated programs -- only as far as the generated programs reach",
           "binary64 model Ebv.F64 (round-to-nearest-even with unbounded exponent; float(str), int/int and float*float of "
           "CPython assumed correctly rounded): validated against CPython by a sweep every run, NOT proved against hardware",
           "instruction semantics Ebv.Ebpf (validated three-way by C01), harness/vh/dsl_fixed.py, harness/vh/interp.py",
           "FIXED_BASE regenerated from /repo into Ebv.Generated.Consts",
           "hand-written model Ebv.FixedStore of the Python side over histories (state = the raw contents per instance and "
           "variable, nothing else): tied by exact equality of the raw contents of every declared variable and of the values read "
           "after every operation of the generated histories; the effect of a program run enters the model as the writes the "
           "Fraction reference predicts (the arithmetic is (a)/(b)'s subject)"]
ASSUMPTIONS = ["decimal constants are decimal literals n/10^5 with |n| < 2^51 (arbitrary floats, NaN, infinities, subnormals: "
               "outside); arithmetic between two Python numbers one of which is a float is CPython's, not ebpfcat's (not generated)",
               "fit precondition of the oracle: every node of the tree the generator computes (after the store scaling) has a value "
               "in the signed W-bit range, W = 32 if the destination or any leaf is at most 4 bytes wide, else 64; divisors non-zero; "
               "statements in a program-level class of C01 (narrow-reg-in-64, ...) are counted, not judged (C01's findings); Sum - x is "
               "judged at full strength since Sum.__sub__ was repaired",
               "comparisons: the scaling rule of `comparison` is corresponded with the model (cmpScale); the emitted compare/branch code of "
               "fixed-point conditions is covered by EXECUTION against the Fraction reference only (operands 64 bits wide, non-negative, "
               "every node < 2^63); its opcode model is C03's (Ebv.Model.GenCond), not used here",
               "signedness of a condition's operands is the property's (dsl.psigned: x registers/variables, sr/sw views, lower-case "
               "formats, negative constants signed; a result signed as soon as one operand is); the class divmod-negative is decided on "
               "the program text with exact values (neg_class: an explicit / // %, the rescaling of a fixed*fixed product or of a "
               "fixed value stored into an integer destination has a negative operand)"]
RULE = ("programs = JSON surface DSL with fixed typing (dsl_fixed.py): leaves x registers, x stack/array-map variables, decimal "
        "constants (boundary set: decimals whose double product lies just below the decimal -- 0.29 0.57 0.58 1.13 1.15 ... --, "
        "units, negatives, >= 2^31 scaled, 2^51-1), ints, r/sr/w/sw registers, variables of the 8 integer formats; operators "
        "+ - * / // %; destinations x registers/variables, integer views and variables; random trees to depth 3, the depth-1 "
        "family (operator x leaf kind x leaf kind x destination kind; sampled in the quick tier), targeted shapes (Sum objects "
        "meeting fixed point, Binary + Sum, int/fixed, float // expr); a non-negative and a negative stream of constants and "
        "inputs; mixed comparisons (scaled sides), and executed conditions `with <cmp>: marker = 1 / with Else: marker = 2` over x "
        "variables (stack and array-map), x registers, decimal and integer constants, r/sr registers, q variables on either side, "
        "optionally one arithmetic step or a register +- int operand (Sum objects: signed register with a non-negative number, "
        "merged numbers), all six operators, operand values next to each other and on both sides of 2^31 and 2^32 "
        "raw; float model: n/10^5 for |n| <= 2*10^6 (exhaustive in the thorough tier, |n| <= 6*10^4 plus "
        "stride 37 in the quick tier), random windows below 2^51, random fractions; non-trivial = accepted with > 1 instruction; "
        "histories (gen_hist): 1-2 main programs (class with 2-3 x variables and optionally a q variable, or its derived class with "
        "1-2 more variables) each with 0-2 sub-program instances of one class (1-2 x variables), all on one ArrayMap object, the later "
        "program created in the middle of the history; per program 1-4 statements (+ - * / // between x variables of any of its "
        "instances, decimal and integer constants, the q variable); 6-15 operations: assign a decimal from Python (pool of 3-6 "
        "values per case incl. decimals below their double, >= 2^31 scaled, negatives; with probability 1/4 exactly an assignment "
        "made before), run the program (only where the reference says every node fits and no division has a negative operand), "
        "read, assign an integer")
PROVED = [
    "fx_typing / elabF_rep: induction over surface trees, all signs, over Z/Q -- every operator overload branch (direct, reflected, "
    "Sum.__radd__ first, delegation of integer-only nodes to Gen) builds a tree whose C01 integer semantics is the exact rational "
    "result dropped by floor, times 10^5 iff typed fixed (one factor per mixed node, FIXED_BASE^2 for int/fixed, Constant folding)",
    "store scaling (storeVal_rep), x registers, x variables (as 8-byte signed memory operands)",
    "evalBV_eq_evalZ_fx: unsigned DIV/MOD = // % for non-negative operands that fit the width; C02_ops_reg/mem from C01's "
    "calc_correct; C02_partial in terms of Ebpf.run and the surface expression the user wrote",
    "C02_const: decimals n/10^5, |n| < 2^51, are stored exactly (|fl(fl(d)*10^5) - n| <= 1/4) in the binary64 model; Python-side "
    "set/get round trip",
    "Python side over histories (Ebv.FixedStore, any number of instances, arbitrary writes in between): set_exact_after_history, "
    "set_history_irrelevant (the result of an assignment does not depend on earlier uses or contents), set_frame, untouched_keeps, "
    "last_set_wins, instances_independent / other_instances_keep; memo_refuted: the variant that remembers the value assigned last "
    "and skips the write is refuted on assign 1.5 / program makes 2.5 / assign 1.5",
]
CORRESPONDED_NOT_PROVED = [
    "float // non-fixed expression (`__rfloordiv__` truncates the float with int() first): modelled (decTrunc) + corresponded + "
    "oracle; excluded from the typing theorem by FExpr.ok (exact only for positive divisors)",
    "`comparison` scaling rule (cmpScale): corresponded + order oracle on the real objects; no theorem (C03)",
    "executed fixed-point conditions (with / Else): real code in interp.py vs the Fraction reference; not modelled in GenFixed",
    "the Rat formulation decConstQ (normalised fractions between the roundings) = decConst: compared by the sweep, not proved; "
    "roundToDouble's second branch (quotients >= 2^53) is only exercised by the random-fraction test",
    "the fit precondition is stated on the built tree (divOk), not re-derived from the surface tree",
]
LEVEL_TEXT = ("Lean 4 proofs over hand-written models: (1) fx_typing by structural induction over surface expression trees (all "
              "trees, all signs, Z/Q): the FIXED_BASE insertions of the operator overloads make C01's integer semantics of the "
              "built tree equal the exact rational value dropped by floor; (2) C02_ops/C02_partial: C01's calc_correct plus a new "
              "homomorphism lemma for the unsigned DIV/MOD give, for every program of the fragment outside the excluded classes and "
              "every machine state satisfying the fit precondition, that the emitted code run by Ebpf.run leaves exactly that "
              "integer in the destination; (3) C02_const: for all |n| < 2^51 the binary64 model of round(float(d)*100000) returns n "
              "(error bound 1/4 for the two roundings); refutations of the full-strength statement and of each inherited class on "
              "kernel-evaluated witnesses. Tie: exact opcode/tree/class equality of the real generator and the model every run; "
              "oracle: real code in an independent interpreter against fractions.Fraction; float model swept against CPython.")
LEVEL_NOTE = ("trusted: Lean kernel + propext/Classical.choice/Quot.sound; models <-> Python only as far as the generated programs "
              "reach. Operations: proof (induction + C01's compiler correctness) for non-negative operands at the divisions. "
              "Constants: proof MODULO the IEEE model -- Ebv.F64 is a hand-written rational model of binary64 round-to-nearest-even, "
              "validated by a sweep against CPython every run, not proved against hardware; C02_const is stated on the unnormalised "
              "fraction pipeline (decConst). Corresponded + oracle only: float // non-fixed, comparison scaling, decConstQ. Known "
              "defect class of the unchanged tree (inherited from C01, refuted in Lean on witnesses): divmod-negative -- every "
              "fixed*fixed, /, //, % and every integer store of a fixed value uses the unsigned DIV/MOD. Seen, outside the "
              "property's fit precondition: a fixed value stored into a <= 32-bit destination is divided by FIXED_BASE in 32 bits "
              "(x = 50000.0 -> I stores 7050; fixed_to_short_div32_refuted), counted as outside:fixed-to-short.")
TECHNIQUE = "Lean 4 structural induction (typing + compiler correctness on top of C01) + error-bound proof for the float model + exact opcode-list correspondence"
DESIGN_REF = "§4 C02"
