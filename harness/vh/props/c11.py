"""C11 — assembled EtherCAT frames are well-formed.
Real `Packet.append/assemble/full` and `SterilePacket.append/append_writer/sterile` are run on
generated datagram sequences; the bytes, returned positions, rejections and bookkeeping are compared
with the Lean model `Ebv.Frame`, and the property text is evaluated on the real bytes with an
independent frame parser (written from the EtherCAT frame format, `int.from_bytes` only)."""
import struct

ID = "C11"
LEAN_MODULES = ["Ebv.Props.C11"]
MODEL_MODULES = ["Ebv.Model.Frame"]
DRIVER = "Drivers/C11.lean"
THEOREMS = [
    "Ebv.C11.parse_assemble", "Ebv.C11.ident_more", "Ebv.C11.old_header_refuted", "Ebv.C11.expect_addr",
    "Ebv.C11.assemble_isSome_iff", "Ebv.C11.more_flags", "Ebv.C11.positions_exact", "Ebv.C11.size_bound",
    "Ebv.C11.pad_min", "Ebv.C11.reject_iff", "Ebv.C11.appendAll_spec", "Ebv.C11.appendAll_isSome_iff",
    "Ebv.C11.full_iff", "Ebv.C11.sterile_spec", "Ebv.C11.sterile_bytes", "Ebv.C11.sterile_diff",
    "Ebv.C11.sterile_parse", "Ebv.C11.counters_exact",
]
TRUSTED = ["hand-written model Ebv.Frame of Packet.append/assemble/full and SterilePacket.append/append_writer/sterile, "
           "tied by exact byte/position correspondence",
           "struct.pack modelled as: raises iff a field is outside its format's range, else little-endian bytes",
           "harness/vh/props/c11.py independent frame parser; Packet constants and the probed literals "
           "(15 datagrams, 46 bytes, pad byte) regenerated into Ebv.Generated.Consts"]
ASSUMPTIONS = ["cmd is an ECCmd member (value 0..14); data is a bytes object; idx/address/wkc/index/ethertype are Python ints",
               "the frame is what assemble()/sterile() return (Ethernet header added by the kernel socket is outside)"]
RULE = ("case = packet|sterile x sequence of append / append_writer calls (cmd from ECCmd, data length 0..1480, idx, "
        "position/node or logical address, wkc/counter preset) x index x ethertype; families: short random, count boundary "
        "(13..17 datagrams), size boundary (last datagram fits exactly / by one byte not, then a smaller one), single maximal "
        "datagram, fields just outside their struct range, wrong address arity; non-trivial = at least one accepted datagram")

# the property's own numbers (Ethernet / EtherCAT frame format, library limit of 15 datagrams)
MTU, MINPAY, DG_OVERHEAD, FRAME_HDR, ID_DGRAM, MAXDG = 1500, 46, 12, 2, 14, 15


def data_of(op):
    if "data" in op:
        return bytes.fromhex(op["data"])
    n, a, b = op["pat"]
    return bytes((a + b * i) & 255 for i in range(n))


def le(b, pos, n):
    return int.from_bytes(b[pos:pos + n], "little")


def parse_frame(b):
    """EtherCAT frame (without Ethernet header) -> dict, or a string naming what is malformed.
    A `more` flag on the datagram that ends the datagram area is reported as dangling_more."""
    if len(b) < 2:
        return "short"
    w = le(b, 0, 2)
    ln, rsv, typ = w & 0x7FF, (w >> 11) & 1, w >> 12
    if 2 + ln > len(b):
        return "length beyond frame"
    dgs, pos, end, dangling = [], 2, 2 + ln, False
    while True:
        if pos + 10 > end:
            return "datagram header beyond area"
        lf = le(b, pos + 6, 2)
        l = lf & 0x7FF
        if pos + 10 + l + 2 > end:
            return "datagram data beyond area"
        d = {"off": pos, "cmd": b[pos], "idx": b[pos + 1], "adp": le(b, pos + 2, 2), "ado": le(b, pos + 4, 2),
             "len": l, "rc": (lf >> 11) & 15, "more": lf >> 15, "irq": le(b, pos + 8, 2),
             "data": bytes(b[pos + 10:pos + 10 + l]), "wkc": le(b, pos + 10 + l, 2), "end": pos + 12 + l}
        dgs.append(d)
        pos += 12 + l
        if not d["more"]:
            break
        if pos == end:
            dangling = True
            break
    if pos != end:
        return "area not used up by the last datagram"
    return {"len": ln, "rsv": rsv, "typ": typ, "dgrams": dgs, "pad": bytes(b[end:]), "dangling_more": dangling}


def in_range(case, acc):
    """are all packed fields inside their struct format's range"""
    ok = -2**31 <= case["index"] < 2**31 and 0 <= case["ethertype"] < 65536
    for op in acc:
        a = op["addr"]
        ok = ok and 0 <= op["idx"] < 256 and 0 <= op["wkc"] < 65536
        if len(a) == 2:
            ok = ok and -32768 <= a[0] < 32768 and 0 <= a[1] < 65536
        elif len(a) == 1:
            ok = ok and -2**31 <= a[0] < 2**31
        else:
            ok = False
    return ok


def run_impl(case):
    """-> (canonical line, observations for the oracle)"""
    from ebpfcat.ethercat import Packet, ECCmd
    from ebpfcat.ebpfcat import SterilePacket
    sterile = case["kind"] == "sterile"
    p = SterilePacket() if sterile else Packet()
    outs, obs = [], {"ops": [], "sterile": sterile}
    for op in case["ops"]:
        data = data_of(op)
        before = (list(p.data), p.size) + ((list(p.on_the_fly), dict(p.counters)) if sterile else ())
        kw = {}
        if not op.get("dflt"):
            kw["counter" if sterile else "wkc"] = op["wkc"]
        try:
            if sterile:
                r = (p.append_writer if op.get("w") else p.append)(ECCmd(op["cmd"]), data, op["idx"], *op["addr"], **kw)
                outs.append(f"ok:{p.size}:{int(p.full())}")
            else:
                r = p.append(ECCmd(op["cmd"]), data, op["idx"], *op["addr"], **kw)
                outs.append(f"ok:{r[0]}:{r[1]}:{p.size}:{int(p.full())}")
            obs["ops"].append(("ok", r))
        except OverflowError:
            after = (list(p.data), p.size) + ((list(p.on_the_fly), dict(p.counters)) if sterile else ())
            outs.append(f"overflow:{p.size}:{int(p.full())}")
            obs["ops"].append(("overflow", before == after))
    args = (case["index"],) if case.get("dflt_et") else (case["index"], case["ethertype"])
    try:
        frame = bytes(p.assemble(*args))
        fs = frame.hex()
    except struct.error:
        frame, fs = None, "struct-error"
    obs["frame"] = frame
    line = " ".join(outs) + " | " + fs
    if sterile:
        try:
            st = bytes(p.sterile(*args))
            ss = st.hex()
        except struct.error:
            st, ss = None, "struct-error"
        except Exception as ex:          # anything else the real sterile() raises is an observation, not a harness crash
            st, ss = None, f"other:{type(ex).__name__}"
            obs["sterile_error"] = ss
        obs["sterile_frame"] = st
        obs["otf"] = [(a, b, c.value) for a, b, c in p.on_the_fly]
        obs["counters"] = dict(p.counters)
        line += (" | " + ss + " | " + ",".join(f"{a}:{b}:{c}" for a, b, c in obs["otf"])
                 + " | " + ",".join(f"{k}={v}" for k, v in p.counters.items()))
    return line, obs


def oracle(ctx, case, obs):
    """the property text, evaluated on what the real code did"""
    def req(cond, what, cls=None):
        return ctx.require(cond, what, case, {"frame": None if obs["frame"] is None else obs["frame"].hex()}, cls)

    # rejection: exactly when the datagram does not fit (size or count), and then nothing changes
    size, acc = FRAME_HDR + ID_DGRAM, []
    for op, (res, extra) in zip(case["ops"], obs["ops"]):
        n = len(data_of(op))
        fits = size + n + DG_OVERHEAD <= MTU and len(acc) < MAXDG
        req((res == "ok") == fits, f"datagram of {n} bytes at size {size}, count {len(acc)}: "
            + ("rejected although it fits" if fits else "accepted although it does not fit"), "reject")
        if res == "ok":
            acc.append((op, extra, size))
            size += n + DG_OVERHEAD
        else:
            req(extra, "rejected append changed the packet", "reject-state")
    frame = obs["frame"]
    accops = [a[0] for a in acc]
    req((frame is not None) == in_range(case, accops), "assemble raises struct.error iff a field is outside its range", "range")
    if frame is None:
        return
    req(len(frame) <= MTU, f"frame of {len(frame)} bytes exceeds the maximum size", "size")
    req(len(frame) >= MINPAY, f"frame of {len(frame)} bytes is below the Ethernet minimum", "pad")
    f = parse_frame(frame)
    if not req(isinstance(f, dict), f"independent parser rejects the frame: {f}", "parse"):
        return
    req(not f["dangling_more"], "last datagram of the frame has the 'more' flag set", "more")
    paylen = ID_DGRAM + sum(len(data_of(o)) + DG_OVERHEAD for o in accops)
    req(f["len"] == paylen and f["typ"] == 1 and f["rsv"] == 0, "frame header: length/type", "header")
    req(len(frame) == max(MINPAY, FRAME_HDR + paylen), "frame length is payload padded to the minimum", "pad")
    dgs = f["dgrams"]
    if not req(len(dgs) == len(acc) + 1, "number of datagrams", "count"):
        return
    d0 = dgs[0]
    req((d0["cmd"], d0["idx"], d0["adp"] | d0["ado"] << 16, d0["len"], d0["rc"], d0["irq"], d0["data"], d0["wkc"])
        == (0, 0, case["index"] & 0xFFFFFFFF, 2, 0, 0, case["ethertype"].to_bytes(2, "little"), 0)
        and d0["off"] == FRAME_HDR, "identification datagram first", "ident")
    req(d0["more"] == (1 if acc else 0), "identification datagram: more flag", "more")
    for k, ((op, ret, _), d) in enumerate(zip(acc, dgs[1:])):
        data, a = data_of(op), op["addr"]
        addr = ((a[0] & 0xFFFF) | a[1] << 16) if len(a) == 2 else a[0] & 0xFFFFFFFF
        req((d["cmd"], d["idx"], d["adp"] | d["ado"] << 16, d["len"], d["rc"], d["irq"], d["data"], d["wkc"])
            == (op["cmd"], op["idx"], addr, len(data), 0, 0, data, op["wkc"]), f"datagram {k}: header/data/wkc", "dgram")
        if len(a) == 2:
            req(d["adp"] == a[0] & 0xFFFF and d["ado"] == a[1], f"datagram {k}: position/offset", "dgram")
        req(d["more"] == (1 if k < len(acc) - 1 else 0), f"datagram {k}: more flag", "more")
        if not obs["sterile"]:
            start, stop = ret
            req(frame[start:stop] == data and stop - start == len(data) and frame[stop:stop + 2] == op["wkc"].to_bytes(2, "little")
                and start == d["off"] + 10, f"datagram {k}: data/wkc not at the returned positions", "positions")
    if obs["sterile"]:
        st = obs["sterile_frame"]
        writers = [d for (op, _, _), d in zip(acc, dgs[1:]) if op.get("w")]
        wpos = {d["off"] for d in writers}
        if req(st is not None and len(st) == len(frame), "sterile frame has the length of the assembled one", "sterile"):
            req(all(st[i] == (0 if i in wpos else frame[i]) for i in range(len(frame))),
                "sterile differs from assemble other than by NOP in the cmd byte of the writer datagrams", "sterile")
        req([(a, b) for a, b, _ in obs["otf"]] == [(d["off"], d["end"]) for d in writers]
            and [c for _, _, c in obs["otf"]] == [op["cmd"] for (op, _, _) in acc if op.get("w")],
            "on_the_fly is not the extent of the writer datagrams", "sterile")
        req(obs["counters"] == {d["end"] - 2: op["wkc"] for (op, _, _), d in zip(acc, dgs[1:])}
            and all(frame[k:k + 2] == v.to_bytes(2, "little") for k, v in obs["counters"].items()),
            "counters are not the working-counter positions with their presets", "counters")


# ---------------------------------------------------------------- generators

def gen_addr(rng, bad=False):
    if bad:
        return rng.choice([[32768, 0], [-32769, 0], [0, -1], [0, 65536], [2**31], [-2**31 - 1], [], [1, 2, 3]])
    r = rng.random()
    if r < 0.55:
        return [rng.choice([0, -1, -2, -7, 1, 5, 1000, 30000, 32767, -32768, rng.randrange(-32768, 32768)]),
                rng.choice([0, 0x10, 0x120, 0x130, 0x502, 0x800, 0x1000, 65535, rng.randrange(0, 65536)])]
    return [rng.choice([0, 0x800, 0x1000, 0x10000, 0x10800, 2**31 - 1, -2**31, -1, rng.randrange(-2**31, 2**31)])]


def gen_op(rng, n, cmds, sterile, bad=False):
    op = {"cmd": rng.choice(cmds), "idx": rng.randrange(0, 256), "addr": gen_addr(rng),
          "wkc": rng.choice([0, 0, 1, 1, 2, 3, 7, 0xFFFF, rng.randrange(0, 65536)])}
    if n <= 24 and rng.random() < 0.7:
        op["data"] = bytes(rng.randrange(256) for _ in range(n)).hex()
    else:
        op["pat"] = [n, rng.randrange(256), rng.randrange(256)]
    if sterile:
        op["w"] = rng.random() < 0.45
    if rng.random() < 0.15:
        op["dflt"] = 1
        op["wkc"] = 1 if sterile else 0
    if bad:
        which = rng.randrange(3)
        if which == 0:
            op["addr"] = gen_addr(rng, True)
        elif which == 1:
            op["idx"] = rng.choice([256, -1, 1000])
        else:
            op["wkc"] = rng.choice([65536, -1])
            op.pop("dflt", None)
    return op


def gen(rng, cmds):
    sterile = rng.random() < 0.4
    fam = rng.random()
    lens = []
    if fam < 0.35:                      # short random
        lens = [rng.choice([0, 1, 2, 4, 6, 8, 10, 32, rng.randrange(0, 64)]) for _ in range(rng.randrange(0, 6))]
        tag = "short"
    elif fam < 0.55:                    # count boundary
        lens = [rng.choice([0, 1, 2, 4, rng.randrange(0, 40)]) for _ in range(rng.choice([13, 14, 15, 16, 17]))]
        tag = "count"
    elif fam < 0.85:                    # size boundary: the last one fits exactly / not by one byte
        k = rng.randrange(0, 9)
        room = MTU - 16 - 12 * (k + 1)
        cuts = sorted(rng.randrange(0, room + 1) for _ in range(k))
        lens = [b - a for a, b in zip([0] + cuts, cuts + [room])]
        used = sum(lens[:-1])
        lens[-1] = room - used + rng.choice([-2, -1, 0, 0, 1, 1, 2])
        if lens[-1] < 0:
            lens[-1] = 0
        for _ in range(rng.randrange(0, 3)):          # something smaller afterwards
            lens.append(rng.choice([0, 1, 2, rng.randrange(0, 30)]))
        tag = "size"
    elif fam < 0.92:                    # one maximal datagram
        lens = [MTU - 28 + rng.choice([-1, 0, 1, 2, 100])] + [0] * rng.randrange(0, 2)
        tag = "max"
    else:                               # medium random mix
        lens = [rng.randrange(0, 300) for _ in range(rng.randrange(3, 12))]
        tag = "mix"
    badop = rng.randrange(len(lens)) if lens and rng.random() < 0.06 else None
    ops = [gen_op(rng, n, cmds, sterile, bad=(i == badop)) for i, n in enumerate(lens)]
    case = {"kind": "sterile" if sterile else "packet", "ops": ops,
            "index": rng.choice([0, 1, -1, 2000, 2**31 - 1, -2**31, rng.randrange(2000, 1000000000)]),
            "ethertype": 0x88A4}
    r = rng.random()
    if r < 0.3:
        case["dflt_et"] = 1
    elif r < 0.4:
        case["ethertype"] = rng.choice([0, 0x88A4, 0xA488, 0xFFFF, rng.randrange(0, 65536)])
    elif r < 0.43:
        case["ethertype"] = rng.choice([65536, -1])
    elif r < 0.46:
        case["index"] = rng.choice([2**31, -2**31 - 1, 2**32])
    return case, tag


def fixed_cases(cmds):
    """small exhaustive families: every command x addressing x 0..2 datagrams; exact count and size edges"""
    out = []
    out.append({"kind": "packet", "ops": [], "index": 0x12345678, "ethertype": 0x88A4})
    out.append({"kind": "sterile", "ops": [], "index": 7, "ethertype": 0x88A4, "dflt_et": 1})
    for c in cmds:
        for addr in ([3, 0x130], [-3, 0x10], [0x10000]):
            for kind in ("packet", "sterile"):
                ops = [{"cmd": c, "idx": c, "addr": addr, "wkc": 1, "data": "a1b2", "w": c % 2 == 0},
                       {"cmd": cmds[-1 - cmds.index(c)], "idx": 255, "addr": [0x800], "wkc": 2, "pat": [30, c, 1], "w": c % 3 == 0}]
                out.append({"kind": kind, "ops": ops[:1], "index": 2000 + c, "ethertype": 0x88A4})
                out.append({"kind": kind, "ops": ops, "index": -c, "ethertype": 0x88A4})
    for n in (14, 15, 16):
        for kind in ("packet", "sterile"):
            out.append({"kind": kind, "index": n, "ethertype": 0x88A4,
                        "ops": [{"cmd": cmds[i % len(cmds)], "idx": i, "addr": [i, 0x120], "wkc": i, "pat": [i % 3, i, 0], "w": i % 2 == 1}
                                for i in range(n)]})
    for last in (1471, 1472, 1473):
        out.append({"kind": "packet", "index": 5, "ethertype": 0x88A4,
                    "ops": [{"cmd": 12, "idx": 0, "addr": [0x10000], "wkc": 3, "pat": [last, 1, 3]},
                            {"cmd": 7, "idx": 1, "addr": [0, 0], "wkc": 0, "pat": [0, 0, 0]}]})
    return out


def check_cases(ctx, cases, tags):
    impl, obsl = [], []
    for c, tag in zip(cases, tags):
        line, obs = run_impl(c)
        impl.append(line)
        nacc = sum(1 for r in obs["ops"] if r[0] == "ok")
        nrej = len(obs["ops"]) - nacc
        ctx.case(c, nontrivial=nacc > 0, kind=f"{c['kind']}:{tag}")
        ctx.stats["struct-error" if obs["frame"] is None else "assembled"] += 1
        ctx.stats[f"accepted={min(nacc, 16)}"] += 1
        if nrej:
            ctx.stats["with-rejection"] += 1
        if obs["frame"] is not None and len(obs["frame"]) >= MTU - 1:
            ctx.stats["frame>=1499"] += 1
        oracle(ctx, c, obs)
    model = ctx.drive(DRIVER, cases, "Packet/SterilePacket")
    if model is not None:
        for c, i, m in zip(cases, impl, model):
            ctx.agree("append/assemble/sterile bytes and positions", c, i, m)


def run(ctx):
    from ebpfcat.ethercat import ECCmd
    cmds = [m.value for m in ECCmd]
    cases, tags = [], []
    for c in fixed_cases(cmds):
        cases.append(c)
        tags.append("fixed")
    for _ in range(ctx.n(6000, 150000)):
        c, tag = gen(ctx.rng, cmds)
        cases.append(c)
        tags.append(tag)
    step = 10000
    for i in range(0, len(cases), step):
        check_cases(ctx, cases[i:i + step], tags[i:i + step])


def replay(ctx, case):
    line, obs = run_impl(case)
    oracle(ctx, case, obs)
    return {"impl": line}


LEVEL_TEXT = ("Lean 4 proof over a hand-written model of Packet/SterilePacket: for every accepted datagram sequence an independent "
              "EtherCAT frame parser recovers header length/type, the identification datagram and every datagram's cmd, idx, address, "
              "length, more flag, data and working counter; data and wkc sit exactly at the positions append returned; frames are "
              "<= MAXSIZE and padded to 46 bytes; append rejects iff size or count limit is exceeded; sterile = assemble with NOP in "
              "the cmd byte of writer datagrams. Full strength, the empty sequence included (the identification datagram carries "
              "'more' exactly when a datagram follows). Tied to /repo by exact byte/position correspondence and regenerated constants.")
LEVEL_NOTE = ("trusted: Lean kernel + propext/Classical.choice/Quot.sound; hand transcription Ebv.Frame validated (not verified) by "
              "differential runs; struct.pack range behaviour modelled; old_header_refuted keeps the pre-a879e33 header (always 0x8002) "
              "as a proven-malformed regression marker")
TECHNIQUE = "Lean 4 induction over datagram lists (independent parser round-trip, layout lemmas) + differential byte correspondence"
DESIGN_REF = "§4 C11"
