"""C25 — terminal addresses assigned by the master are unique.

The real `EtherCat.scan_serial_numbers` (with its TaskGroup of `get_serial` tasks), the real
`EtherCat.assigned_address` / `find_free_address` and the head of the real `Terminal.initialize`
run on a simulated bus.  `random.randint` as seen by ebpfcat.ethercat is the scripted PRNG, the
interleaving of the tasks is enforced by the order in which the simulated bus acts on requests
and lets answers through (two phases per request).  The property text is evaluated on the bus log
and the per-call results of find_free_address; the same script goes to the Lean model `Ebv.Addr`
and log, registers, results, returned map and used_addresses must agree exactly."""
import asyncio
import logging
import struct

ID = "C25"
LEAN_MODULES = ["Ebv.Props.C25"]
MODEL_MODULES = ["Ebv.Model.Addr"]
DRIVER = "Drivers/C25.lean"
THEOREMS = [
    "Ebv.C25.inv_run", "Ebv.C25.in_range", "Ebv.C25.in_range_default", "Ebv.C25.usedIn_run", "Ebv.C25.range_inclusive",
    "Ebv.C25.range_is_per_master", "Ebv.C25.handed_out_once",
    "Ebv.C25.drawn_distinct", "Ebv.C25.never_answered",
]
TRUSTED = ["hand-written model Ebv.Addr of find_free_address/assigned_address/get_serial/initialize, tied by exact "
           "correspondence of bus log, registers, find_free_address results, returned map and used_addresses",
           "harness/vh/props/c25.py simulated bus and scheduler (asyncio FIFO ready queue of CPython's event loop); "
           "terminal_addr_range regenerated into Ebv.Generated.Consts (addrLo/addrHi)"]
ASSUMPTIONS = ["during the run station-address registers change only through this master's own APWR 0x10 requests; "
               "addresses configured before the run are arbitrary",
               "ec.roundtrip is the only way the anchored code reaches the bus (it is replaced by the simulated bus; "
               "wkc 0 -> EtherCatError as process_packet does); ec.count is served through roundtrip_packet",
               "the rest of Terminal.initialize after the address write (set_state, FMMU reset, apply_eeprom) is stubbed",
               "random.randint(lo, hi) returns lo + r % (hi-lo+1) for an arbitrary raw r (any PRNG)",
               "a range is configured as the library allows on the unchanged tree: class attribute terminal_addr_range of a subclass of any "
               "master class, or attribute of the instance; lo <= hi (otherwise randint raises); ParallelEtherCat's mailbox lock file is "
               "an object with the bounds run() would give it"]
RULE = ("master = one of EtherCat/SimpleEtherCat/FastEtherCat/ParallelEtherCat with terminal_addr_range left at the default (40%) or "
        "configured as class attribute of a subclass, of a subclass's subclass, or on the instance: ranges inside / overlapping / "
        "outside the default, at both ends of the 16-bit space, spans 1..20001; the oracle's range is the configured one; "
        "case = bus of 1..6 terminals (0 = unaddressed, pre-configured addresses from a small pool incl. both range ends and "
        "out-of-range values), serial numbers, 0..3 concurrent initialize(relative) calls + the scan, raw PRNG script drawn "
        "from the same small pool (collisions with used and with answered addresses) followed by enough fresh numbers, "
        "schedule = random picks among pending requests (process / deliver); non-trivial = find_free_address returned at least once")


class Starved(Exception):
    pass


class Req:
    __slots__ = ("cmd", "pos", "offset", "args", "fut", "phase", "result", "error")


MASTERS = ("EtherCat", "SimpleEtherCat", "FastEtherCat", "ParallelEtherCat")


def default_range():
    """the library's default: what a plain master uses when nothing was configured (the regenerated addrLo/addrHi)"""
    from .. import extract
    import ebpfcat.ethercat as E
    return extract._default_addr_range(E)


def declared_range(case):
    """the range the case configures for its master — the oracle's yardstick (never read back from the master)"""
    return tuple(case["range"]) if case.get("range") else default_range()


def make_master(case):
    """the master of the case: one of the library's master classes, its address range configured the way the case says:
    `how` = default (nothing configured) | subclass (class attribute of a subclass, as the documentation of the attribute
    suggests) | subclass2 (on a subclass, used through a further subclass) | instance (set on the object after construction)"""
    import ebpfcat.ethercat as E
    import ebpfcat.ebpfcat as B
    name = case.get("master", "EtherCat")
    base = E.EtherCat if name == "EtherCat" else getattr(B, name)
    how = case.get("how", "default")
    if how == "default":
        return base("sim")
    rng_ = tuple(case["range"])
    if how == "subclass":
        return type("Master", (base,), {"terminal_addr_range": rng_})("sim")
    if how == "subclass2":
        mid = type("SiteMaster", (base,), {"terminal_addr_range": rng_})
        return type("Master", (mid,), {})("sim")
    assert how == "instance", how
    ec = base("sim")
    ec.terminal_addr_range = rng_
    return ec


def run_impl(case):
    import ebpfcat.ethercat as E
    from ebpfcat.ethercat import ECCmd, EtherCat, EtherCatError, Terminal, Packet, EEPROM

    regs = list(case["bus"])
    serials = list(case["serials"])
    draws = list(case["draws"])
    n = len(regs)
    pending = []
    events = []        # (kind, ..., snapshot of the registers after the event)
    state = {"starved": False, "eestart": {}}

    def fake_randint(a, b):
        if not draws:
            state["starved"] = True
            raise Starved()
        return a + draws.pop(0) % (b - a + 1)

    loop = asyncio.new_event_loop()
    ec = make_master(case)
    if hasattr(ec, "get_ethertype"):     # ParallelEtherCat: the mailbox lock file its run() creates (environment; no file here)
        import types
        ec.mbx_lock_file = types.SimpleNamespace(minimum=ec.terminal_addr_range[0], maximum=ec.terminal_addr_range[1], fd=-1)

    async def roundtrip(cmd, pos, offset, *args, data=None, idx=0):
        r = Req()
        r.cmd, r.pos, r.offset, r.args = cmd, pos, offset, args
        r.fut, r.phase, r.result, r.error = loop.create_future(), "S", None, False
        pending.append(r)
        return await r.fut

    def count_packet(packet, index=None):
        data = bytearray(packet.assemble(0))
        struct.pack_into("<h", data, Packet.PACKET_HEADER + 2, n)
        f = loop.create_future()
        f.set_result(bytes(data))
        return f

    ec.roundtrip = roundtrip
    ec.roundtrip_packet = count_packet
    orig_find = ec.find_free_address

    async def find_free_address():
        r = await orig_find()
        events.append(("ret", r, tuple(regs)))
        return r
    ec.find_free_address = find_free_address

    class T(Terminal):
        async def set_state(self, state):
            pass

        async def read(self, *a, **k):
            return (0,)

        async def write(self, *a, **k):
            pass

        async def apply_eeprom(self):
            pass

    def process(r):
        idx = -r.pos
        if r.offset == 0x10 and r.cmd is ECCmd.APRD:
            assert r.args == ("H", 0), r.args
            if 0 <= idx < n:
                r.result = (regs[idx],)
                events.append(("R", idx, regs[idx], tuple(regs)))
            else:
                r.error = True
        elif r.offset == 0x10 and r.cmd is ECCmd.FPRD:
            assert r.args == ("H", 0), r.args
            ans = r.pos in regs
            r.result, r.error = (r.pos,), not ans
            events.append(("P", r.pos, ans, tuple(regs)))
        elif r.offset == 0x10 and r.cmd is ECCmd.APWR:
            assert r.args[0] == "H" and len(r.args) == 2, r.args
            if 0 <= idx < n:
                regs[idx] = r.args[1]
                r.result = ()
                events.append(("W", idx, r.args[1], tuple(regs)))
            else:
                r.error = True
        elif r.offset == 0x502 and 0 <= idx < n:
            if r.cmd is ECCmd.APWR:
                state["eestart"][idx] = int(r.args[2])
                r.result = ()
            elif r.args == ("H",):
                r.result = (0,)
            else:
                assert r.args == ("H4xI",), r.args
                word = state["eestart"].get(idx)
                r.result = (0, serials[idx] if word == int(EEPROM.SERIAL_NO) else 0xdead)
            events.append(("E", idx, tuple(regs)))
        else:
            raise AssertionError(f"unexpected bus access {r.cmd} {r.pos} {r.offset:x} {r.args}")

    def settle():
        for _ in range(100000):
            loop.call_soon(loop.stop)
            loop.run_forever()
            if not loop._ready:
                return
        raise AssertionError("event loop does not settle")

    saved = E.randint
    E.randint = fake_randint
    logging.disable(logging.CRITICAL)
    tasks = []
    try:
        asyncio.set_event_loop(loop)
        inits = [p for k, p in case["tasks"] if k == "i"]
        assert [p for k, p in case["tasks"] if k == "s"] == list(range(n))
        assert case["tasks"][:len(inits)] == [["i", p] for p in inits]
        for p in inits:
            tasks.append(loop.create_task(T(ec).initialize(relative=-p)))
        scan = loop.create_task(ec.scan_serial_numbers())
        tasks.append(scan)
        settle()
        for s in case["sched"]:
            if state["starved"] or not pending:
                break
            k = s % len(pending)
            r = pending[k]
            if r.phase == "S":
                process(r)
                r.phase = "D"
            else:
                pending.pop(k)
                if r.error:
                    r.fut.set_exception(EtherCatError("datagram was not processed"))
                else:
                    r.fut.set_result(r.result)
                settle()
        status = "starved" if state["starved"] else ("pending" if pending else "finished")
        amap = None
        if scan.done() and not scan.cancelled() and scan.exception() is None:
            amap = dict(scan.result())
        failures = []
        for t in tasks:
            if t.done() and not t.cancelled() and t.exception() is not None and not state["starved"]:
                failures.append(repr(t.exception()))
        for t in tasks:
            t.cancel()
        settle()
        for t in tasks:
            if t.done() and not t.cancelled():
                t.exception()
    finally:
        E.randint = saved
        logging.disable(logging.NOTSET)
        asyncio.set_event_loop(None)
        loop.close()
    return {"events": events, "regs": regs, "map": amap, "used": sorted(ec.used_addresses), "status": status,
            "failures": failures, "range": declared_range(case)}


def show(obs):
    ev = []
    for e in obs["events"]:
        if e[0] == "R":
            ev.append(f"R{e[1]}={e[2]}")
        elif e[0] == "P":
            ev.append(f"P{e[1]}={1 if e[2] else 0}")
        elif e[0] == "W":
            ev.append(f"W{e[1]}={e[2]}")
        elif e[0] == "E":
            ev.append(f"E{e[1]}")
        else:
            ev.append(f"ret{e[1]}")
    rets = [e[1] for e in obs["events"] if e[0] == "ret"]
    m = "-" if obs["map"] is None else ",".join(f"{k}:{v}" for k, v in sorted(obs["map"].items()))
    return (" ".join(ev) + " | " + ",".join(map(str, obs["regs"])) + " | " + ",".join(map(str, rets)) + " | " + m
            + " | " + ",".join(map(str, obs["used"])) + " | " + obs["status"])


def oracle(ctx, case, obs):
    """the property text on what the bus and the callers of find_free_address observed"""
    lo, hi = obs["range"]
    ev = obs["events"]
    out = show(obs)
    ctx.require(not obs["failures"], "a task failed: " + "; ".join(obs["failures"])[:200], case, out, "task-error")
    handed = []
    for t, e in enumerate(ev):
        if e[0] == "ret":
            a = e[1]
            ctx.require(lo <= a <= hi, f"address {a} handed out outside terminal_addr_range", case, out, "range")
            ctx.require(a not in handed, f"address {a} handed out twice", case, out, "twice")
            handed.append(a)
            t0 = max((k for k in range(t) if ev[k][0] == "P" and ev[k][1] == a and not ev[k][2]), default=None)
            ctx.require(t0 is not None, f"address {a} handed out without an unanswered probe", case, out, "answered")
            ctx.require(not any(x[0] == "P" and x[1] == a and x[2] for x in ev),
                        f"address {a} handed out although a terminal answered at it", case, out, "answered")
            ctx.require(a not in e[-1], f"address {a} handed out while a terminal has it", case, out, "answered")
            if t0 is not None:
                tw = next((k for k in range(t + 1, len(ev)) if ev[k][0] == "W" and ev[k][2] == a), len(ev))
                ctx.require(all(a not in ev[k][-1] for k in range(t0, tw)),
                            f"a terminal acquired {a} between its free probe and the master's own write", case, out, "answered")
        elif e[0] == "W":
            ctx.require(lo <= e[2] <= hi, f"address {e[2]} written outside terminal_addr_range", case, out, "range")
            ctx.require(e[2] in handed, f"address {e[2]} written without being handed out", case, out, "twice")
    written = {e[1] for e in ev if e[0] == "W"}
    regs = obs["regs"]
    for p in written:
        ctx.require(all(regs[q] != regs[p] for q in range(len(regs)) if q != p),
                    f"terminal {p} shares the address {regs[p]} assigned by the master", case, out, "twice")


def gen_range(rng, dlo, dhi):
    """how the master's range is configured: the default; or an own range — inside, overlapping, outside the default one, at
    both ends of the 16-bit address space, from a handful of addresses (span >= 24 so that nobody has to starve) to thousands"""
    if rng.random() < 0.4:
        return {}
    span = rng.choice([24, 25, 31, 100, 1000, 20000])
    lo = rng.choice([1, 2, dlo, dlo - span // 2, dhi - span // 2, dhi, dhi + 1, 40000, 0xffff - span, rng.randint(1, 0xffff - span)])
    lo = max(1, min(lo, 0xffff - span))
    return {"range": [lo, lo + span], "how": rng.choice(["subclass", "subclass", "subclass2", "instance"]),
            "master": rng.choice(MASTERS)}


def gen(rng, dlo, dhi):
    conf = gen_range(rng, dlo, dhi)
    lo, hi = conf["range"] if conf else (dlo, dhi)
    if not conf and rng.random() < 0.3:
        conf = {"master": rng.choice(MASTERS)}
    span = hi - lo + 1
    n = rng.randint(1, 6)
    pool = list({rng.choice([lo, hi, lo + 1, hi - 1, rng.randint(lo, hi), rng.randint(lo, hi)])
                 for _ in range(rng.randint(2, 4))})
    outside = [5, max(1, lo - 1), hi + 1, 40000, dlo, dhi]
    bus = []
    for _ in range(n):
        x = rng.random()
        bus.append(0 if x < 0.5 else rng.choice(pool) if x < 0.9 else rng.choice(outside))
    serials = [rng.choice([0, 0, 7, 7, 9, 123456]) for _ in range(n)]
    inits = [rng.randrange(n) for _ in range(rng.choice([0, 0, 1, 1, 2, 3]))]
    tasks = [["i", p] for p in inits] + [["s", p] for p in range(n)]

    def raw(a):
        return (a - lo) + span * rng.choice([0, 0, 0, 1, 7])
    draws = [raw(rng.choice(pool)) for _ in range(rng.randint(0, 2 * n + 3))]
    fresh = set()
    while len(fresh) < len(tasks):
        a = rng.randint(lo, hi)
        if a not in pool and a not in bus:
            fresh.add(a)
    fresh = [raw(a) for a in sorted(fresh)]
    rng.shuffle(fresh)
    # fresh numbers are sprinkled in, the last len(tasks) draws are all fresh: nobody starves
    for a in fresh[:rng.randint(0, len(fresh))]:
        draws.insert(rng.randint(0, len(draws)), a)
    draws += fresh
    bound = 2 * (6 * len(tasks) + len(draws)) + 4
    mode = rng.random()
    if mode < 0.15:
        sched = [0] * bound                                   # FIFO
    elif mode < 0.3:
        sched = [rng.choice([0, 0, 0, 1, 5]) for _ in range(bound)]
    else:
        sched = [rng.randrange(0, 12) for _ in range(bound)]
    if rng.random() < 0.05:
        sched = sched[:rng.randrange(0, len(sched))]          # the run is cut short
    if rng.random() < 0.03:
        draws = draws[:rng.randrange(0, len(draws) + 1)]      # the PRNG script may run out
    return {"bus": bus, "serials": serials, "draws": draws, "tasks": tasks, "sched": sched, **conf}


def run(ctx):
    lo, hi = default_range()
    cases = [gen(ctx.rng, lo, hi) for _ in range(ctx.n(6000, 80000))]
    # tiny configured ranges (1-4 addresses): more terminals than addresses, the PRNG script may run out ("starved")
    for _ in range(ctx.n(300, 3000)):
        c = gen(ctx.rng, lo, hi)
        a = ctx.rng.choice([1, lo, hi, 0xfffc, ctx.rng.randint(1, 0xfff0)])
        c.update(range=[a, a + ctx.rng.randrange(0, 4)], how=ctx.rng.choice(["subclass", "subclass2", "instance"]),
                 master=ctx.rng.choice(MASTERS))
        c["draws"] = [ctx.rng.randrange(0, 12) for _ in range(ctx.rng.randrange(0, 14))]
        c["bus"] = [0 if ctx.rng.random() < 0.6 else ctx.rng.choice([a, a + 1, 5]) for _ in c["bus"]]
        cases.append(c)
    # small fixed family: every terminal unaddressed, all draws equal, FIFO and LIFO-ish schedules
    for n in (1, 2, 3, 4):
        for sched in ([0] * 200, [7] * 200, [1, 0] * 100):
            cases.append({"bus": [0] * n, "serials": [0] * n, "draws": [3] * n + list(range(10, 10 + 2 * n)),
                          "tasks": [["i", 0]] + [["s", p] for p in range(n)], "sched": sched})
    impl = []
    for c in cases:
        obs = run_impl(c)
        rets = [e for e in obs["events"] if e[0] == "ret"]
        coll = any(e[0] == "P" and e[2] for e in obs["events"]) or len(obs["used"]) > len(rets)
        ctx.case(c, nontrivial=bool(rets), kind=obs["status"] + ("+collision" if coll else ""))
        ctx.stats["range:" + c.get("how", "default")] += 1
        ctx.stats["master:" + c.get("master", "EtherCat")] += 1
        oracle(ctx, c, obs)
        impl.append(show(obs))
    model = ctx.drive(DRIVER, cases, "address assignment")
    if model is not None:
        for c, i, m in zip(cases, impl, model):
            ctx.agree("bus log | registers | handed out | map | used_addresses | status", c, i, m)


def replay(ctx, case):
    obs = run_impl(case)
    oracle(ctx, case, obs)
    return {"trace": show(obs)}


LEVEL_TEXT = ("Lean 4 proof over a hand-written model of find_free_address / assigned_address / get_serial / initialize as "
              "concurrent tasks: for every bus, every set of tasks, every raw PRNG script and every schedule (unbounded, two "
              "phases per request) the addresses handed out lie in the terminal_addr_range configured for that master (any lo <= hi; unconfigured: the regenerated "
              "default; both ends reachable), are "
              "pairwise distinct and in used_addresses, are only written by the task that got them, are handed out only after "
              "an unanswered probe, never equal an address at which a probe was answered, and from the unanswered probe to the "
              "master's own write no terminal has them.  Tied to /repo by exact correspondence of the real coroutines "
              "(scan_serial_numbers with its TaskGroup, assigned_address, find_free_address, Terminal.initialize) on a "
              "simulated bus under the same scripted PRNG and schedule.")
LEVEL_NOTE = ("trusted: Lean kernel + propext/Classical.choice/Quot.sound; hand transcription Ebv.Addr validated (not verified) "
              "by differential runs; registers change only through this master's writes during the run; ec.roundtrip is the "
              "only bus access; the tail of Terminal.initialize is stubbed; a PRNG that never produces a free number makes "
              "find_free_address loop forever (modelled as 'starved', no liveness claim)")
TECHNIQUE = "Lean 4 inductive invariant over schedules (interleaving semantics) + differential correspondence under scripted PRNG and schedule"
DESIGN_REF = "§4 C25"
