"""C29 — process-based sync groups share device variables correctly.
Random device classes (DeviceVars of random formats, class chains, several instances) are put into a real
`ProcessSyncGroup`; values written in the parent are read in a really spawned child process (which gets the
group by pickling, as `ProcessSyncGroup.start` does) and vice versa for a few configurations, in-process for
the rest; positions, array size, array bytes and values are compared with the Lean model `Ebv.Collect`
(`simDiscover` + `collect` + accessors + `devGet`)."""
import json
import struct
import sys

from . import c08

ID = "C29"
LEAN_MODULES = ["Ebv.Props.C29"]
MODEL_MODULES = ["Ebv.Model.Collect"]
DRIVER = "Drivers/C29.lean"
THEOREMS = ["Ebv.C29.devicevars_collected", "Ebv.C29.dedupGo_mem", "Ebv.C29.devices_disjoint_full_proved", "Ebv.C29.devices_inside",
            "Ebv.C29.other_var_unchanged", "Ebv.C29.shared_roundtrip", "Ebv.C29.devices_disjoint_old_refuted",
            "Ebv.C29.devGet_none", "Ebv.C29.devGet_plain", "Ebv.C29.devGet_plain_default", "Ebv.C29.devGet_loaded",
            "Ebv.C08.collect_disjoint_full_proved", "Ebv.C08.py_roundtrip",
            "Ebv.C08.collect_history_free", "Ebv.C08.collect_frame", "Ebv.C08.history_layout",
            "Ebv.C29.collects_of_size", "Ebv.C29.regrouped_layout", "Ebv.C29.regrouped_devices_disjoint"]
TRUSTED = ["hand-written model Ebv.Collect (simDiscover, collect, accessors, devGet), tied by exact correspondence on generated device sets",
           "which map DeviceVar and ProcessSyncGroup.properties are bound to is read off the real classes on every run and is the "
           "hypothesis of devicevars_collected (checked by the oracle)",
           "Python's struct, pickle and multiprocessing (spawn); little-endian host"]
ASSUMPTIONS = ["bytes written to the shared multiprocessing Array by one process are the bytes the other reads (no concurrent access in the check: "
               "the processes take turns)",
               "the child receives the group the way ProcessSyncGroup.start passes it: pickled with the Process object (spawn context)",
               "formats as in C08; x values are dyadic decimals"]
RULE = ("cases = 1-4 device classes (chains of 1-3 classes) with 0-5 DeviceVars each, 1-5 device instances (a class may be used several times, "
        "rarely the same device twice), optional overriding redeclaration; group kind process (real ProcessSyncGroup) mostly, plain SyncGroup / "
        "no group for the dispatch; all variables incl. wkc_errors written with distinct values by one side and read by the other; "
        "35% of the process cases are the LAST group of a history: 1-3 earlier groups (80% process, 20% plain) were created before it in the same "
        "process over a common pool of devices - devices of the final group may have been in them, in another order, next to other devices, "
        "alone - each earlier process group is judged right after its creation and written, in plain groups small integers are written (they "
        "land in the device's __dict__), and at the end every variable an earlier process group still owns must read back unchanged; the "
        "final group of such a history also goes through the spawned child; "
        "non-trivial = at least two devices with variables")

WKC = 50          # the model's number of the group's own variable `wkc_errors`


class FakeEC:
    """stands for the ParallelEtherCat object; SyncGroupBase.__init__ only stores it"""
    ethertype = 0x88A4


def gen(rng, group="process"):
    classes = {}
    fams = []
    for s in range(rng.choice([1, 1, 2, 2, 3, 4])):
        fam = []
        for d in range(rng.choice([1, 1, 1, 2, 3])):
            nm = f"D{s}_{d}"
            classes[nm] = {"root": "D", "bases": fam[-1:], "maps": [], "vars": []}
            fam.append(nm)
        fams.append(fam)
    n = 0
    for fam in fams:
        for c in fam:
            for _ in range(rng.choice([0, 1, 1, 2, 2, 3, 5])):
                classes[c]["vars"].append([f"v{n}", "m", c08.rand_fmt(rng)])
                n += 1
    devs = []
    for i in range(rng.choice([1, 2, 2, 3, 3, 4, 5])):
        fam = rng.choice(fams)
        devs.append([fam[-1] if rng.random() < 0.8 else rng.choice(fam), i + 1])
    if rng.random() < 0.04:
        devs.append(list(rng.choice(devs)))
    if rng.random() < 0.15:
        cands = [(c, v) for c in classes for a in c08.ancestors(classes, c) for v in classes[a]["vars"]]
        if cands:
            c, v = rng.choice(cands)
            if all(w[0] != v[0] for w in classes[c]["vars"]):
                classes[c]["vars"].append([v[0], "m", c08.rand_fmt(rng)])
    case = {"kind": "group", "group": group, "classes": [[k, v] for k, v in classes.items()], "main": None, "subs": devs}
    keys = dev_keys(case)
    rng.shuffle(keys)
    case["sets"] = [[i, v, c08.rand_values(rng, fmt_of(case, (i, v)))] for i, v in keys]
    case["back"] = [[i, v, c08.rand_values(rng, fmt_of(case, (i, v)))] for i, v in keys]
    case["wkc"] = [rng.randrange(2 ** 32), rng.randrange(2 ** 32)]
    if group == "process" and rng.random() < 0.35:
        add_pre(rng, case)
    return case


# ---- earlier groups of the same process ---------------------------------------------------------------------
# `case["pre"]`: sync groups created (and used) BEFORE the group the case is about, over a common pool of devices:
# a device of the final group may have been in one or several of them (in another order, next to other devices,
# alone), in a process group (it was laid out in that group's array) or in a plain one (where a written DeviceVar
# is an entry of the device's `__dict__`).  Group numbers: the final group is 0, earlier ones 200, 201, ...

def add_pre(rng, case):
    pool = {i: c for c, i in case["subs"]}
    names = [k for k, v in case["classes"]]
    case["pre"] = []
    for j in range(rng.choice([1, 1, 2, 3])):
        devs = []
        for _ in range(rng.choice([1, 2, 2, 3])):
            if rng.random() < 0.65:
                i = rng.choice(sorted(pool))
            else:
                i = max([9] + list(pool)) + 1
                pool[i] = rng.choice(names)
            if all(d[1] != i for d in devs):
                devs.append([pool[i], i])
        case["pre"].append({"group": "process" if rng.random() < 0.8 else "plain", "id": 200 + j, "devs": devs})
    for j, p in enumerate(case["pre"]):
        keys = pre_keys(case, j)
        rng.shuffle(keys)
        if p["group"] == "process":
            p["sets"] = [[i, v, c08.rand_values(rng, pre_fmt(case, j, (i, v)))] for i, v in keys]
        else:       # plain integers into the `__dict__`, of the size of an offset
            p["sets"] = [[i, v, [rng.randrange(0, 40)]] for i, v in keys if pre_fmt(case, j, (i, v)) in ("B", "H", "I", "Q")]
    return case


def pre_keys(case, j):
    inst = {i: c for c, i in case["pre"][j]["devs"]}
    return [(i, v) for i, c in inst.items() for v in c08.resolved(case, c)]


def pre_fmt(case, j, key):
    inst = {i: c for c, i in case["pre"][j]["devs"]}
    return c08.resolved(case, inst[key[0]])[key[1]][1]


def pre_alive(case, j):
    """the variables of earlier process group j whose device was not put into a later group: still that group's"""
    if case["pre"][j]["group"] != "process":
        return []
    later = {i for p in case["pre"][j + 1:] for c, i in p["devs"]} | {i for c, i in case["subs"]}
    return [k for k in pre_keys(case, j) if k[0] not in later]


def dev_keys(case):
    inst = {i: c for c, i in case["subs"]}
    return [(i, v) for i, c in inst.items() for v in c08.resolved(case, c)]


def fmt_of(case, key):
    inst = {i: c for c, i in case["subs"]}
    return c08.resolved(case, inst[key[0]])[key[1]][1]


def shape(case):
    seen = set()
    for c, i in case["subs"]:
        for k in c08.mro_names(case, c):
            for v, m, f in dict(case["classes"])[k]["vars"]:
                if (i, v) in seen:
                    return "collected-twice"
                seen.add((i, v))
    return None


# ---- real classes; importable by name so that the group can be pickled into a spawned child ------------

def build_classes(classes):
    """(re)create the case's Device classes as attributes of this module; runs in the parent and, through
    `Rebuild.__reduce__`, in the child before the group is unpickled"""
    from ebpfcat.ebpfcat import Device, DeviceVar
    mod = sys.modules[__name__]
    out = {}
    for cname, spec in classes:
        ns = {v: DeviceVar(f, write=True) for v, m, f in spec["vars"]}
        ns["__module__"] = __name__
        cls = type(cname, tuple(out[b] for b in spec["bases"]) or (Device,), ns)
        cls.__qualname__ = cname
        setattr(mod, cname, cls)
        out[cname] = cls
    return out


class Rebuild:
    def __init__(self, classes):
        self.classes = classes

    def __reduce__(self):
        return build_classes, (self.classes,)


def child_main(rebuilt, jobs, conn):
    """in the spawned process: read every variable of every group, then write the `back` values"""
    try:
        out = []
        for case, sg in jobs:
            devs = {i: d for (c, i), d in zip(case["subs"], sg.devices)}
            reads = {}
            for i, v in dev_keys(case):
                reads[f"{i}.{v}"] = get_var(case, devs, i, v)
            reads["wkc"] = get_wkc(sg)
            sets = [set_var(case, devs, i, v, vals) for i, v, vals in case["back"]]
            sets.append(set_wkc(sg, case["wkc"][1]))
            out.append((reads, sets))
        conn.send(out)
    except BaseException as e:      # report instead of leaving the parent waiting
        conn.send(("child-failed", repr(e)))
    finally:
        conn.close()


def get_var(case, devs, i, v):
    try:
        return ("ok", getattr(devs[i], v))
    except Exception as e:
        return ("exc", c08.exc_name(e))


def set_var(case, devs, i, v, vals):
    try:
        setattr(devs[i], v, c08.to_py(fmt_of(case, (i, v)), vals))
        return "ok"
    except Exception as e:
        return c08.exc_name(e)


def get_wkc(sg):
    try:
        return ("ok", sg.wkc_errors)
    except Exception as e:
        return ("exc", c08.exc_name(e))


def set_wkc(sg, v):
    try:
        sg.wkc_errors = v
        return "ok"
    except Exception as e:
        return c08.exc_name(e)


# ---- observation -----------------------------------------------------------------------------------------

def bindings():
    """which maps the real classes are bound to (numbers by identity; the DeviceVar map is 0)"""
    from ebpfcat.ebpf import Map
    from ebpfcat.arraymap import ArrayGlobalVarDesc
    from ebpfcat.ebpfcat import DeviceVar, ProcessSyncGroup
    ids = {id(DeviceVar("I").map): 0}
    attrs = {"properties": 0}
    mapmro, decls = [], []
    for cls in ProcessSyncGroup.__mro__:
        ms, ds = [], []
        for k, v in cls.__dict__.items():
            if isinstance(v, Map):
                ms.append([attrs.setdefault(k, len(attrs)), ids.setdefault(id(v), len(ids))])
            elif isinstance(v, ArrayGlobalVarDesc):
                ds.append([WKC if k == "wkc_errors" else 60 + len(ds), ids.setdefault(id(v.map), len(ids)), v.fmt])
        mapmro.append(ms)
        decls.append(ds)
    first = next((m for ms in mapmro for a, m in ms if a == 0), None)
    return {"mapmro": mapmro, "group_decls": decls, "devmap": 0, "props_map": first,
            "attr_names": {v: k for k, v in attrs.items()}}


class Live:
    """the case as real objects"""

    def __init__(self, case):
        from ebpfcat.ebpfcat import ProcessSyncGroup, SyncGroup
        self.case = case
        self.classes = build_classes(case["classes"])
        self.devs = {}
        self.pre = []
        for j, p in enumerate(case.get("pre", [])):      # the earlier groups: created, looked at, written from Python
            for c, i in p["devs"]:
                self.devs.setdefault(i, self.classes[c]())
            devices = [self.devs[i] for c, i in p["devs"]]
            g = (ProcessSyncGroup if p["group"] == "process" else SyncGroup)(FakeEC(), devices)
            arr = g.__dict__.get("properties")
            rec = {"group": g, "size": None if arr is None else len(arr),
                   "ranges": [(self.devs[i].__dict__.get(v), c08.csize(pre_fmt(case, j, (i, v))), (i, v)) for i, v in pre_keys(case, j)],
                   "sets": []}
            for i, v, vals in p["sets"]:
                try:
                    setattr(self.devs[i], v, c08.to_py(pre_fmt(case, j, (i, v)), vals))
                    rec["sets"].append("ok")
                except Exception as e:
                    rec["sets"].append(c08.exc_name(e))
            self.pre.append(rec)
        for c, i in case["subs"]:
            self.devs.setdefault(i, self.classes[c]())
        devices = [self.devs[i] for c, i in case["subs"]]
        self.sg = None
        if case["group"] == "process":
            self.sg = ProcessSyncGroup(FakeEC(), devices)
        elif case["group"] == "plain":
            self.sg = SyncGroup(FakeEC(), devices)

    def model_progs(self, b, gid=0, devs=None, process=None):
        specs = dict(self.case["classes"])
        process = self.case["group"] == "process" if process is None else process
        progs = [{"id": gid, "mro": b["group_decls"] if process else []}]
        for c, i in self.case["subs"] if devs is None else devs:
            mro = [[[c08.vid(v), b["devmap"], f] for v, m, f in specs[k.__name__]["vars"]]
                   if self.classes.get(k.__name__) is k else [] for k in self.classes[c].__mro__]
            progs.append({"id": i, "mro": mro})
        return progs

    def pre_reads(self):
        """every variable the earlier process groups still own, read now: (key, format, expected values, what Python gets)"""
        out = []
        for j, p in enumerate(self.case.get("pre", [])):
            exp = {(i, v): vals for i, v, vals in p["sets"]}
            for k in pre_alive(self.case, j):
                out.append((k, pre_fmt(self.case, j, k), exp[k], get_var(self.case, self.devs, k[0], k[1])))
        return out

    def pre_part(self, b, prs):
        """the earlier groups in the driver's notation, and the model's input for them"""
        case = self.case
        a = next((a for ms in b["mapmro"] for a, m in ms if a == 0), 0)
        parts, mi = [], []
        for p, r in zip(case["pre"], self.pre):
            if p["group"] == "plain":
                parts.append("plain ops=" + ",".join(r["sets"]))
                mi.append({"group": "plain", "sets": [[i, c08.vid(v), vals] for i, v, vals in p["sets"]]})
                continue
            wk = r["group"].__dict__.get("wkc_errors")
            pos = [f"{p['id']}.{WKC}@{'-' if wk is None else wk}"] + [f"{k[0]}.{c08.vid(k[1])}@{'-' if q is None else q}" for q, s_, k in r["ranges"]]
            parts.append(f"maps={a}:{b['props_map']}:{0 if r['size'] is None else r['size']} pos=" + " ".join(pos) + " ops=" + ",".join(r["sets"]))
            mi.append({"group": "process", "main": p["id"], "progs": self.model_progs(b, p["id"], p["devs"], True), "mapmro": b["mapmro"],
                       "sets": [[i, c08.vid(v), vals] for i, v, vals in p["sets"]],
                       "reads": [[p["id"], WKC]] + [[k[0], c08.vid(k[1])] for q, s_, k in r["ranges"]]})
        line = " pre=" + " ; ".join(parts) + " prereads=" + " ".join(canon(f, got) for k, f, vals, got in prs)
        return line, mi, [[k[0], c08.vid(k[1])] for k, f, vals, got in prs]


def canon(fmt, r):
    """('ok', value) / ('exc', name) -> the driver's notation"""
    if r[0] == "exc":
        return r[1]
    v = r[1]
    if isinstance(v, tuple) and len(v) == 2 and hasattr(v[0], "sync_group") and isinstance(v[1], str):
        return "self"
    return c08.show_vals(c08.from_py(fmt, v))


def snapshot(case, live, b, setres, reads):
    """canonical line of the implementation's state, in the driver's format"""
    keys = dev_keys(case)
    rd = " ".join(([canon("I", reads["wkc"])] if case["group"] == "process" else [])
                  + [canon(fmt_of(case, k), reads[f"{k[0]}.{k[1]}"]) for k in keys])
    if case["group"] != "process":
        return f"maps= layout= pos= ops={','.join(setres)} bytes= reads={rd}"
    sg = live.sg
    found, seen = [], set()
    for ms in b["mapmro"]:
        for a, m in ms:
            if a not in seen:
                seen.add(a)
                found.append((a, m, sg.__dict__.get(b["attr_names"][a])))
    ranges = {m: [] for a, m, arr in found}
    if b["group_decls"] and any(d[0] == WKC for ds in b["group_decls"] for d in ds):
        gm = next(d[1] for ds in b["group_decls"] for d in ds if d[0] == WKC)
        ranges.setdefault(gm, []).append((sg.__dict__.get("wkc_errors"), 4))
    for i, v in keys:
        ranges.setdefault(b["devmap"], []).append((live.devs[i].__dict__.get(v), c08.csize(fmt_of(case, (i, v)))))
    lay = []
    for a, m, arr in found:
        rs = ranges.get(m, [])
        ok = all(p is not None and arr is not None and p + s <= len(arr) for p, s in rs) and \
            all(x[0] + x[1] <= y[0] or y[0] + y[1] <= x[0] for n, x in enumerate(rs) for y in rs[n + 1:])
        lay.append("ok" if ok else "overlap")
    disc = {m for a, m, arr in found}
    pos = [f"0.{WKC}@{sg.__dict__.get('wkc_errors', '-')}"] + \
          [f"{i}.{c08.vid(v)}@{live.devs[i].__dict__.get(v, '-') if b['devmap'] in disc else '-'}" for i, v in keys]
    return ("maps=" + ",".join(f"{a}:{m}:{0 if arr is None else len(arr)}" for a, m, arr in found)
            + " layout=" + ",".join(lay) + " pos=" + " ".join(pos) + " ops=" + ",".join(setres)
            + " bytes=" + ",".join(f"{m}:{bytes(arr).hex()}" for a, m, arr in found if arr is not None and len(arr))
            + " reads=" + rd)


def read_all(case, live):
    reads = {f"{i}.{v}": get_var(case, live.devs, i, v) for i, v in dev_keys(case)}
    if case["group"] == "process":
        reads["wkc"] = get_wkc(live.sg)
    return reads


def model_lines(case, live, b, phase2=True):
    progs = live.model_progs(b)
    rk = ([[0, WKC]] if case["group"] == "process" else []) + [[i, c08.vid(v)] for i, v in dev_keys(case)]
    s1 = [[i, c08.vid(v), vals] for i, v, vals in first_sets(case)] + \
        ([[0, WKC, [case["wkc"][0]]]] if case["group"] == "process" else [])
    s2 = s1 + [[i, c08.vid(v), vals] for i, v, vals in case["back"]] + \
        ([[0, WKC, [case["wkc"][1]]]] if case["group"] == "process" else [])
    base = {"progs": progs, "mapmro": b["mapmro"], "group": case["group"], "reads": rk}
    if live.pre:
        _, base["pre"], base["prereads"] = live.pre_part(b, live.prs)
    return [dict(base, sets=s1)] + ([dict(base, sets=s2)] if phase2 else [])


def first_sets(case):
    """a plain group / no group keeps defaults for the variables never written"""
    return case["sets"] if case["group"] == "process" else case["sets"][:(len(case["sets"]) + 1) // 2]


def run_batch(cases, spawn):
    """returns per case (line after the parent's writes as the other side reads them, line after the writes back,
    raw reads of both sides)"""
    b = bindings()
    lives = [Live(c) for c in cases]
    res1 = []
    for case, live in zip(cases, lives):
        r = [set_var(case, live.devs, i, v, vals) for i, v, vals in first_sets(case)]
        if case["group"] == "process":
            r.append(set_wkc(live.sg, case["wkc"][0]))
        res1.append(r)
    if spawn:
        ctx = lives[0].sg.ctx
        pc, cc = ctx.Pipe()
        p = ctx.Process(target=child_main, daemon=True,
                        args=(Rebuild([k for c in cases for k in c["classes"]]), [(c, l.sg) for c, l in zip(cases, lives)], cc))
        p.start()
        cc.close()
        try:
            if not pc.poll(60):
                raise RuntimeError("spawned child did not answer within 60 s")
            got = pc.recv()
        finally:
            p.join(10)
            if p.is_alive():
                p.kill()
                p.join()
            pc.close()
        if isinstance(got, tuple) and got and got[0] == "child-failed":
            raise RuntimeError("child: " + got[1])
    else:
        got = []
        for case, live in zip(cases, lives):
            reads = read_all(case, live)
            sets = [set_var(case, live.devs, i, v, vals) for i, v, vals in case["back"]]
            if case["group"] == "process":
                sets.append(set_wkc(live.sg, case["wkc"][1]))
            got.append((reads, sets))
    out = []
    for case, live, r1, (reads1, res2) in zip(cases, lives, res1, got):
        reads2 = read_all(case, live)
        l2 = snapshot(case, live, b, r1 + res2, reads2)
        live.prs = live.pre_reads() if live.pre else []
        if live.pre:
            l2 += live.pre_part(b, live.prs)[0]
        # the state after phase 1 is gone; its line is rebuilt from what the reader saw plus the layout part of l2
        l1 = snapshot_phase1(case, live, b, r1, reads1, l2)
        out.append((l1, l2, reads1, reads2, b, (live_ranges(case, live) + (live.pre, live.prs), None, model_lines(case, live, b))))
    return out


def snapshot_phase1(case, live, b, r1, reads1, l2):
    """what the reading side saw after the first writes (only the values: the array has moved on since)"""
    keys = dev_keys(case)
    return " ".join(([canon("I", reads1["wkc"])] if case["group"] == "process" else [])
                    + [canon(fmt_of(case, k), reads1[f"{k[0]}.{k[1]}"]) for k in keys])


def retag(case, tag):
    """class names unique within one child process"""
    ren = {k: f"T{tag}{k}" for k, v in case["classes"]}
    case["classes"] = [[ren[k], dict(v, bases=[ren[x] for x in v["bases"]])] for k, v in case["classes"]]
    case["subs"] = [[ren[c], i] for c, i in case["subs"]]
    for p in case.get("pre", []):
        p["devs"] = [[ren[c], i] for c, i in p["devs"]]
    return case


def oracle(ctx, case, reads1, reads2, b, live_ranges):
    """the property text: every DeviceVar written on one side is read unchanged on the other; variables of
    different devices never share storage"""
    cls = None
    if case["group"] != "process":
        exp = {}
        for i, v, vals in first_sets(case):
            exp[(i, v)] = vals
        for k in dev_keys(case):
            got = reads1[f"{k[0]}.{k[1]}"]
            if case["group"] == "none":
                ok = got[0] == "ok" and isinstance(got[1], tuple) and got[1][1] == k[1]
            else:
                want = c08.to_py(fmt_of(case, k), exp[k]) if k in exp else 0
                ok = got == ("ok", want)
            ctx.require(ok, "DeviceVar outside an EBPF group does not behave like a plain attribute", case, f"{k}: {got!r}")
        return
    if not ctx.require(b["props_map"] == b["devmap"], "DeviceVars are not bound to the ProcessSyncGroup's shared map",
                       case, f"properties -> map {b['props_map']}, DeviceVar -> map {b['devmap']}"):
        return
    size, rs, pre, prs = live_ranges
    for j, r in enumerate(pre):          # every earlier process group, as it was right after its creation
        if case["pre"][j]["group"] != "process":
            continue
        sz, prs_j = r["size"], r["ranges"]
        bad = next((f"{k} at {p}+{s} in an array of {sz}" for p, s, k in prs_j if p is None or sz is None or p + s > sz), None)
        if bad is None:
            bad = next((f"{x[2]} [{x[0]},{x[0] + x[1]}) overlaps {y[2]} [{y[0]},{y[0] + y[1]})" for n, x in enumerate(prs_j)
                        for y in prs_j[n + 1:] if x[2][0] != y[2][0] and not (x[0] + x[1] <= y[0] or y[0] + y[1] <= x[0])), None)
        if not ctx.require(bad is None, f"device variables of group {j} of the process share storage / have no place in its array", case, bad, cls):
            return
        if not ctx.require(all(x == "ok" for x in r["sets"]), f"writing a DeviceVar in group {j} of the process raised", case, r["sets"], cls):
            return
    bad = next((f"{k} at {p}+{s} in an array of {size}" for p, s, k in rs if p is None or size is None or p + s > size), None)
    if bad is None:
        bad = next((f"{x[2]} [{x[0]},{x[0] + x[1]}) overlaps {y[2]} [{y[0]},{y[0] + y[1]})" for n, x in enumerate(rs)
                    for y in rs[n + 1:] if x[2][0] != y[2][0] and not (x[0] + x[1] <= y[0] or y[0] + y[1] <= x[0])), None)
    if not ctx.require(bad is None, "device variables share storage / have no place in the shared array", case, bad, cls):
        return
    for phase, sets, reads, wkc in ((1, case["sets"], reads1, case["wkc"][0]), (2, case["back"], reads2, case["wkc"][1])):
        exp = {}
        for i, v, vals in sets:
            exp[(i, v)] = vals
        for k, vals in exp.items():
            want = c08.to_py(fmt_of(case, k), vals)
            got = reads[f"{k[0]}.{k[1]}"]
            if not ctx.require(got[0] == "ok" and type(got[1]) is type(want) and got[1] == want,
                               "value written on one side is not what the other side reads (phase %d)" % phase, case,
                               f"{k}: wrote {want!r} read {got!r}", cls):
                return
        if not ctx.require(reads["wkc"] == ("ok", wkc), "wkc_errors not shared", case, f"wrote {wkc} read {reads['wkc']!r}", cls):
            return
    for k, f, vals, got in prs:          # what was written in an earlier group that still owns the device is still there
        want = c08.to_py(f, vals)
        if not ctx.require(got[0] == "ok" and type(got[1]) is type(want) and got[1] == want,
                           "a DeviceVar of an earlier group of the process reads back differently after later groups were created", case,
                           f"{k}: wrote {want!r} read {got!r}", cls):
            return


def live_ranges(case, live):
    if case["group"] != "process":
        return None, []      # (no earlier groups in these cases)
    arr = live.sg.__dict__.get("properties")
    rs = [(live.devs[i].__dict__.get(v), c08.csize(fmt_of(case, (i, v))), (i, v)) for i, v in dev_keys(case)]
    rs.append((live.sg.__dict__.get("wkc_errors"), 4, (0, "wkc_errors")))
    return (None if arr is None else len(arr)), rs


def check_batch(ctx, cases, spawn, pending):
    b = bindings()
    results = run_batch(cases, spawn)
    for case, (l1, l2, reads1, reads2, b, lr) in zip(cases, results):
        ctx.case(case, nontrivial=len({i for i, v in dev_keys(case)}) >= 2,
                 kind=case["group"] + ("-spawn" if spawn else "") + (":" + shape(case) if shape(case) else ""))
        if case.get("pre"):
            ctx.stats["after-earlier-groups"] += 1
        oracle(ctx, case, reads1, reads2, b, lr[0])
        pending.append((case, l1, l2, lr[2]))


# the witness of the overriding-DeviceVar defect repaired by commit 6422374 (device 1's a covered device 2's variable)
WITNESS = {"kind": "group", "group": "process", "classes": [["D0_0", {"root": "D", "bases": [], "maps": [], "vars": [["v0", "m", "B"], ["v1", "m", "B"]]}], ["D0_1", {"root": "D", "bases": ["D0_0"], "maps": [], "vars": [["v0", "m", "Q"]]}], ["D1_0", {"root": "D", "bases": [], "maps": [], "vars": [["v2", "m", "B"]]}]], "main": None, "subs": [["D0_1", 1], ["D1_0", 2]], "sets": [[2, "v2", [7]], [1, "v1", [3]], [1, "v0", [1]]], "back": [[1, "v0", [2]], [1, "v1", [4]], [2, "v2", [9]]], "wkc": [5, 6]}


def run(ctx):
    assert sys.byteorder == "little"
    pending = []
    check_batch(ctx, [json.loads(json.dumps(WITNESS))], False, pending)
    nspawn, per = ctx.n(3, 12), 4
    for j in range(nspawn):
        check_batch(ctx, [retag(gen(ctx.rng), f"{j}x{k}") for k in range(per)], True, pending)
    for _ in range(ctx.n(1200, 15000)):
        r = ctx.rng.random()
        check_batch(ctx, [gen(ctx.rng, "process" if r < 0.85 else "plain" if r < 0.93 else "none")], False, pending)
    lines, owners = [], []
    for case, l1, l2, ml in pending:
        lines.extend(ml)
        owners.append(len(ml))
    model = ctx.drive(DRIVER, lines, "process sync group")
    if model is not None:
        n = 0
        for (case, l1, l2, ml), cnt in zip(pending, owners):
            ctx.agree("values the other side reads", case, l1, model[n].split(" reads=")[1].split(" pre=")[0])
            ctx.agree("shared array after both directions", case, l2, model[n + 1])
            n += cnt


def replay(ctx, case):
    pending = []
    check_batch(ctx, [case], case.get("group") == "process", pending)
    return {"impl": pending[0][2]}


LEVEL_TEXT = ("Lean 4 proof over the shared model Ebv.Collect: for every group class chain whose first `properties` map is the map DeviceVars are "
              "bound to and every list of devices with arbitrary class chains (incl. redeclared DeviceVars and devices listed twice), every DeviceVar "
              "of every device has a position in the group's shared array (devicevars_collected), variables of different devices occupy disjoint "
              "ranges inside the array (devices_disjoint_full_proved, devices_inside, from C08.collect_disjoint_full_proved), a written value is read "
              "back for every format and no other variable changes (shared_roundtrip, other_var_unchanged, from C08.py_roundtrip); after any history "
              "of group creations - devices laid out before in other groups, in plain groups, alone, in another order - a group none of whose devices "
              "was put into a later group has every device variable at the position of a layout from scratch, different devices disjoint and inside "
              "its array (regrouped_layout, regrouped_devices_disjoint, from C08.history_layout); the collection "
              "before commit 6422374 is refuted on its witness (devices_disjoint_old_refuted). Tie: exact correspondence with the real "
              "ProcessSyncGroup, values crossing a really spawned child process in both directions for a few configurations per run.")
LEVEL_NOTE = ("trusted: Lean kernel + standard axioms; hand model validated by differential runs; multiprocessing shared memory and pickling; "
              "the binding of DeviceVar/ProcessSyncGroup.properties is observed on the real classes each run")
TECHNIQUE = "Lean 4 proof (corollaries of the C08 layout and codec theorems + discovery lemma) + differential correspondence incl. a spawned process"
DESIGN_REF = "§4 C29"
