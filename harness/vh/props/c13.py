"""C13 — datagram field encoding and decoding round-trip.
Real `EtherCat.roundtrip` is run with a stub send queue that records the queued datagram and
completes the future with a scripted response; payload and returned tuple (or exception class) are
compared with the Lean model `Ebv.Roundtrip`, and the property text is evaluated with
`struct.pack`/`struct.unpack_from` as reference, group by group at its own offset.
A second family (`wire`) sends the requests, alone and several at once, through the real pipeline — `connect()` /
`connection_made()` (only the datagram endpoint is stubbed), asyncio.Queue, `sendloop`, `Packet.append/assemble`,
`roundtrip_packet`, `process_packet`, `datagram_received` — against a bus that walks the frames independently; payload
sizes sit at the edges of what one Ethernet frame can carry (1472 bytes), reached in every way a request can grow."""
import asyncio
import struct

ID = "C13"
LEAN_MODULES = ["Ebv.Props.C13"]
MODEL_MODULES = ["Ebv.Model.Roundtrip"]
DRIVER = "Drivers/C13.lean"
THEOREMS = [
    "Ebv.C13.encode_layout", "Ebv.C13.encode_general", "Ebv.C13.encode_length", "Ebv.C13.fullFmt_eq",
    "Ebv.C13.packAll_append", "Ebv.C13.decode_encode", "Ebv.C13.decode_echo", "Ebv.C13.unpack_pack",
    "Ebv.C13.echoAll_noStr", "Ebv.C13.decode_raw_only", "Ebv.C13.raw_tail", "Ebv.C13.raw_tail_empty",
    "Ebv.C13.sendable_iff", "Ebv.C13.sendable_iff_le", "Ebv.C13.wire_boundary", "Ebv.C13.wire_sent",
    "Ebv.C13.wire_overflow_iff", "Ebv.C13.wire_echo", "Ebv.C13.wireAll_independent",
]
TRUSTED = ["hand-written model Ebv.Roundtrip of the payload/response handling in EtherCat.roundtrip, tied by exact "
           "payload/result correspondence",
           "struct.pack/unpack for '<' formats over b B h H i I q Q x s modelled in Ebv.Roundtrip (range/count/type errors, "
           "Ns padding/truncation, exact buffer length), validated against the real struct module through roundtrip itself",
           "harness/vh/props/c13.py stub queue; format strings are rendered from the tokenised items the model receives",
           "wire family: stub datagram endpoint + independent frame walker in c13.py; that concurrent requests do not disturb "
           "each other is C12's theorem (the model decides every request of a batch by itself: wireAll_independent)",
           "Packet limits MAXSIZE/PACKET_HEADER/DATAGRAM_HEADER/DATAGRAM_TAIL regenerated into Ebv.Generated.Consts; the oracle's "
           "1472 = 1500 (Ethernet payload) - 16 (identifying datagram) - 12 (datagram overhead) is written down independently"]
ASSUMPTIONS = ["format strings are sequences of complete items [count]code over b B h H i I q Q x s; values are ints or bytes",
               "stub-queue family: the response is delivered by completing the queued future; wire family: every datagram is "
               "answered (working counter 1) with an echo or scripted bytes of the request's length, frames are not lost",
               "host-independent: all formats are prefixed with '<' by roundtrip itself"]
RULE = ("case = argument list (0..4 format strings of 1..3 items with their values interleaved, or all formats first; optional "
        "trailing read-only format; values at range boundaries; a few invalid: out of range, missing/extra/wrong-type value) x "
        "data in {absent, None, b'', bytes 1..12, 0, n, negative} x response in {echo, overwritten same length, wrong length}; "
        "non-trivial = at least one format or raw data and a payload was queued; wire: batches of 1..32 such requests submitted "
        "together through the real send loop, payloads of 1471/1472/1473 bytes reached by raw bytes, a raw count, a trailing Nx/Ns/NB/"
        "run of H, an Ns value or a run of H values, also 0/1/17..19 (padding edge), 2047..2049, pairs and k equal requests that fill "
        "one frame exactly or miss it by one, 14..32 small requests (datagram count limit)")

SIZES = {"b": 1, "B": 1, "h": 2, "H": 2, "i": 4, "I": 4, "q": 8, "Q": 8}
_LOOP = None


def render(items):
    return "".join((str(c) if ex else "") + k for c, k, ex in items)


def py_args(case):
    out = []
    for a in case["args"]:
        if "f" in a:
            out.append(render(a["f"]))
        elif "i" in a:
            out.append(a["i"])
        else:
            out.append(bytes.fromhex(a["b"]))
    return out


def py_data(case):
    d = case.get("data")
    if d is None:
        return None
    return d["n"] if "n" in d else bytes.fromhex(d["b"])


def show_val(v):
    return f"i{v}" if isinstance(v, int) else "b" + bytes(v).hex()


def run_impl(case):
    """-> (canonical line, observations)"""
    global _LOOP
    from ebpfcat.ethercat import EtherCat, ECCmd
    if _LOOP is None:
        _LOOP = asyncio.new_event_loop()
    queued = []
    resp_hex = case.get("resp")

    class Queue:
        def put_nowait(self, item):
            queued.append(item)
            out = item[1]
            item[-1].set_result(bytes(out) if resp_hex is None else bytes.fromhex(resp_hex))

    ec = EtherCat("lo")
    ec.send_queue = Queue()
    args, data = py_args(case), py_data(case)
    cmd = ECCmd(case.get("cmd", 4))
    kw = {}
    if not case.get("nodata"):
        kw["data"] = data
    if "idx" in case:
        kw["idx"] = case["idx"]
    obs = {"queued": None, "ret": None, "exc": None}
    try:
        ret = _LOOP.run_until_complete(ec.roundtrip(cmd, case.get("pos", 0), case.get("offset", 0), *args, **kw))
        obs["ret"] = ret
    except struct.error:
        obs["exc"] = "struct-error"
    except Exception as e:      # noqa: BLE001 - canonicalised
        obs["exc"] = "other:" + type(e).__name__
    if queued:
        c, out, idx, pos, off, _ = queued[0]
        obs["queued"] = (c, bytes(out), idx, pos, off)
        obs["nqueued"] = len(queued)
    if obs["queued"] is None:
        return obs["exc"] or "nothing-queued", obs
    line = "out=" + obs["queued"][1].hex() + " | "
    if obs["exc"]:
        line += obs["exc"]
    elif data is None:
        line += "t:" + ",".join(show_val(v) for v in obs["ret"])
    elif args:
        r = obs["ret"]
        line += "t:" + ",".join(show_val(v) for v in r[:-1]) + ";raw=" + bytes(r[-1]).hex()
    else:
        line += "raw:" + bytes(obs["ret"]).hex()
    return line, obs


def reference(case):
    """struct reference for a grouped case: (payload, [(fmt, offset)], raw length) or None when some group is no
    valid pack call by itself (outside the property: roundtrip must then raise struct.error, which is checked)"""
    parts, layout, off = [], [], 0
    groups, trail = case["groups"], case.get("trail")
    if trail is None and groups and not groups[-1]["v"]:
        groups, trail = groups[:-1], groups[-1]["f"]      # a last format without values IS the trailing read-only format
    for g in groups:
        f = "<" + render(g["f"])
        vals = [v["i"] if "i" in v else bytes.fromhex(v["b"]) for v in g["v"]]
        try:
            b = struct.pack(f, *vals)
        except struct.error:
            return None
        parts.append(b)
        layout.append((f, off, vals))
        off += len(b)
    if trail is not None:
        f = "<" + render(trail)
        n = struct.calcsize(f)
        parts.append(bytes(n))
        layout.append((f, off, None))
        off += n
    data = py_data(case)
    raw = b"" if data is None else (bytes(max(data, 0)) if isinstance(data, int) else data)
    return b"".join(parts) + raw, layout, len(raw)


def oracle(ctx, case, obs):
    """the property text on the implementation's behaviour (grouped cases only)"""
    if "groups" not in case:
        return
    def req(cond, what, cls=None):
        return ctx.require(cond, what, case, {"queued": None if obs["queued"] is None else obs["queued"][1].hex(),
                                              "ret": repr(obs["ret"]), "exc": obs["exc"]}, cls)
    ref = reference(case)
    if ref is None:
        req(obs["queued"] is None and obs["exc"] == "struct-error", "values that struct.pack refuses were not refused", "refuse")
        return
    payload, layout, nraw = ref
    if not req(obs["queued"] is not None and obs.get("nqueued") == 1, "exactly one datagram is queued", "queue"):
        return
    c, out, idx, pos, off = obs["queued"]
    req(out == payload, "payload is not enc(values) ++ zeros(trailing format) ++ raw data", "payload")
    req((c.value, idx, pos, off) == (case.get("cmd", 4), case.get("idx", 0), case.get("pos", 0), case.get("offset", 0)),
        "cmd/idx/pos/offset not passed through", "passthrough")
    resp = out if case.get("resp") is None else bytes.fromhex(case["resp"])
    data = py_data(case)
    if len(resp) != len(payload) or (isinstance(data, int) and data < 0):
        return      # a response of another length than the request / a negative count: outside the property
    fields = []
    for f, o, vals in layout:
        got = struct.unpack_from(f, resp, o)
        fields.extend(got)
        if case.get("resp") is None:     # echo: the values come back from their own offsets
            if vals is None:
                want = struct.unpack(f, bytes(struct.calcsize(f)))
            else:
                want = struct.unpack(f, struct.pack(f, *vals))
                ints = [v for v in vals if isinstance(v, int)]
                req([g for g in got if isinstance(g, int)] == ints, "echoed integer fields differ from the values sent", "echo")
            req(got == want, "echoed fields differ from the values sent", "echo")
    tail = resp[len(resp) - nraw:] if nraw else b""
    if data is None:
        want = tuple(fields)
    elif case["args"]:
        want = tuple(fields) + (tail,)
    else:
        want = resp
    req(obs["exc"] is None, f"roundtrip raised {obs['exc']} on a response of the request's length",
        "raw-empty" if (data is not None and nraw == 0 and case["args"]) else "decode")
    if obs["exc"] is None:
        got = obs["ret"]
        got = bytes(got) if isinstance(got, (bytes, bytearray)) else tuple(bytes(x) if isinstance(x, (bytes, bytearray)) else x for x in got)
        req(got == want, "returned fields are not the response decoded at the same offsets (+ the trailing raw bytes)",
            "raw-tail" if data is not None and case["args"] and got[:-1] == want[:-1] else "decode")



# ---------------------------------------------------------------- the wire family
# The same requests, submitted together (gather) to a real EtherCat object that was connected by its own
# `connect()` / `connection_made()` (only the datagram endpoint is an environment stub): real asyncio.Queue, real
# sendloop, Packet.append/assemble, roundtrip_packet, process_packet, datagram_received.  The bus is an independent
# frame parser that answers every datagram (working counter 1) with an echo or the scripted bytes of the request
# carrying the datagram's idx.

ETH_PAYLOAD = 1500                  # declared: the largest payload of an Ethernet frame
ID_DATAGRAM = 2 + 10 + 2 + 2        # EtherCAT header + the identifying datagram (header, 2 data bytes, counter)
DGRAM_OVERHEAD = 10 + 2             # datagram header + working counter
WIRE_MAX = ETH_PAYLOAD - ID_DATAGRAM - DGRAM_OVERHEAD      # 1472: the largest payload one frame can carry


def walk_frame(data):
    """independent walk over an EtherCAT frame -> [(cmd, idx, pos, off, start, stop)] without the identifying datagram"""
    out, p, first = [], 2, True
    while True:
        cmd, idx, pos, off, lf = struct.unpack_from("<BBhHH", data, p)
        start, stop = p + 10, p + 10 + (lf & 0x7ff)
        if not first:
            out.append((cmd, idx, pos, off, start, stop))
        first = False
        p = stop + 2
        if not lf >> 15:
            return out


class _Sock:
    def bind(self, addr):
        pass


class Bus:
    def __init__(self, loop, resp_by_idx):
        self._sock, self.loop, self.resp, self.frames, self.seen, self.proto = _Sock(), loop, resp_by_idx, [], {}, None

    def sendto(self, data, addr):
        data = bytes(data)
        self.frames.append(data)
        ans = bytearray(data)
        try:
            for cmd, idx, pos, off, start, stop in walk_frame(data):
                self.seen.setdefault(idx, []).append((cmd, data[start:stop], pos, off))
                r = self.resp.get(idx)
                if r is not None and len(r) == stop - start:
                    ans[start:stop] = r
                ans[stop:stop + 2] = b"\x01\x00"
        except struct.error:
            self.seen.setdefault("garbled", []).append(data)
        self.loop.call_soon(self.proto.datagram_received, bytes(ans), addr)


def run_wire(case):
    """-> (canonical line, [obs per request])"""
    global _LOOP
    from ebpfcat.ethercat import EtherCat, ECCmd
    if _LOOP is None:
        _LOOP = asyncio.new_event_loop()
    loop, reqs = _LOOP, case["batch"]
    bus = Bus(loop, {r["idx"]: bytes.fromhex(r["resp"]) for r in reqs if r.get("resp") is not None})

    async def endpoint(factory, **kw):
        bus.proto = factory()
        bus.proto.connection_made(bus)
        return bus, bus.proto

    async def one(ec, r):
        kw = {"idx": r["idx"]}
        if not r.get("nodata"):
            kw["data"] = py_data(r)
        obs = {"ret": None, "exc": None}
        try:
            obs["ret"] = await asyncio.wait_for(ec.roundtrip(ECCmd(r.get("cmd", 4)), r.get("pos", 0), r.get("offset", 0),
                                                             *py_args(r), **kw), 5)
        except struct.error:
            obs["exc"] = "struct-error"
        except OverflowError:
            obs["exc"] = "overflow"
        except asyncio.TimeoutError:
            obs["exc"] = "other:no-answer"
        except Exception as e:      # noqa: BLE001 - canonicalised
            obs["exc"] = "other:" + type(e).__name__
        return obs

    async def go():
        ec = EtherCat("lo")
        await ec.connect()
        try:
            return await asyncio.gather(*[one(ec, r) for r in reqs])
        finally:
            for t in asyncio.all_tasks():
                if t is not asyncio.current_task():
                    t.cancel()

    loop.create_datagram_endpoint = endpoint
    try:
        allobs = loop.run_until_complete(go())
        loop.run_until_complete(asyncio.sleep(0))
    finally:
        del loop.create_datagram_endpoint
    lines = []
    for r, obs in zip(reqs, allobs):
        obs["wire"] = bus.seen.get(r["idx"], [])
        obs["frames"] = [len(f) for f in bus.frames]
        obs["garbled"] = len(bus.seen.get("garbled", []))
        if not obs["wire"]:
            lines.append(obs["exc"] or "nothing-sent")
            continue
        line = "out=" + obs["wire"][0][1].hex() + " | "
        data = py_data(r)
        if obs["exc"]:
            line += obs["exc"]
        elif data is None:
            line += "t:" + ",".join(show_val(v) for v in obs["ret"])
        elif r["args"]:
            line += "t:" + ",".join(show_val(v) for v in obs["ret"][:-1]) + ";raw=" + bytes(obs["ret"][-1]).hex()
        else:
            line += "raw:" + bytes(obs["ret"]).hex()
        lines.append(line)
    return " || ".join(lines), allobs


def oracle_wire(ctx, case, allobs):
    """the property text per request of the batch, on what the bus saw and what the caller got"""
    for k, (r, obs) in enumerate(zip(case["batch"], allobs)):
        if "groups" not in r:
            continue
        def req(cond, what, cls=None):
            return ctx.require(cond, f"request {k} of the batch: " + what, case,
                               {"request": k, "on-wire": [(c, d.hex(), p, o) for c, d, p, o in obs["wire"]], "frames": obs["frames"],
                                "ret": repr(obs["ret"])[:400], "exc": obs["exc"]}, cls)
        ref = reference(r)
        if ref is None:
            req(not obs["wire"] and obs["exc"] == "struct-error", "values that struct.pack refuses were not refused", "refuse")
            continue
        payload, layout, nraw = ref
        data = py_data(r)
        if len(payload) > WIRE_MAX or (isinstance(data, int) and data < 0):
            continue        # no single Ethernet frame can carry it / negative count: outside the property
        req(obs["garbled"] == 0 and all(n <= ETH_PAYLOAD for n in obs["frames"]), "a frame on the wire is malformed or too long", "frame")
        if not req(len(obs["wire"]) == 1, f"a request of {len(payload)} payload bytes (a frame can carry {WIRE_MAX}) must be on the wire "
                   "exactly once", "wire-sent"):
            continue
        cmd, out, pos, off = obs["wire"][0]
        req(out == payload, "datagram data on the wire is not enc(values) ++ zeros(trailing format) ++ raw data", "payload")
        want_pos = r.get("pos", 0)
        req((cmd, pos, off) == (r.get("cmd", 4), want_pos, r.get("offset", 0)), "cmd/pos/offset not passed through to the wire", "passthrough")
        resp = out if r.get("resp") is None else bytes.fromhex(r["resp"])
        if len(resp) != len(payload):
            continue
        fields = []
        for f, o, vals in layout:
            fields.extend(struct.unpack_from(f, resp, o))
        tail = resp[len(resp) - nraw:] if nraw else b""
        want = tuple(fields) if data is None else (tuple(fields) + (tail,) if r["args"] else resp)
        if not req(obs["exc"] is None, f"roundtrip raised {obs['exc']} although the terminal answered", "wire-decode"):
            continue
        got = obs["ret"]
        got = bytes(got) if isinstance(got, (bytes, bytearray)) else tuple(bytes(x) if isinstance(x, (bytes, bytearray)) else x for x in got)
        req(got == want, "returned fields are not the response decoded at the same offsets (+ the trailing raw bytes)", "wire-decode")

# ---------------------------------------------------------------- generators

def gen_int(rng, code, bad=False):
    n = SIZES[code]
    lo, hi = (-(1 << (8 * n - 1)), (1 << (8 * n - 1)) - 1) if code.islower() else (0, (1 << (8 * n)) - 1)
    if bad:
        return rng.choice([hi + 1, lo - 1, hi + 1000, -(1 << 70)])
    return rng.choice([lo, hi, 0, 1, lo + 1, hi - 1, rng.randint(lo, hi), rng.randint(lo, hi), rng.randint(0, min(hi, 300))])


def gen_item(rng):
    r = rng.random()
    if r < 0.12:
        c = rng.randrange(0, 5)
        return [c, "s", 1] if c != 1 or rng.random() < 0.5 else [1, "s", 0]
    if r < 0.22:
        c = rng.randrange(1, 4)
        return [c, "x", 1] if c != 1 or rng.random() < 0.3 else [1, "x", 0]
    code = rng.choice("HHHIIBBbhiqQ")
    if rng.random() < 0.15:
        return [rng.randrange(0, 4), code, 1]
    return [1, code, 0]


def gen_values(rng, items, bad=None):
    vals, intpos = [], []
    for c, k, _ in items:
        if k == "x":
            continue
        if k == "s":
            n = c if rng.random() < 0.7 else rng.randrange(0, c + 3)
            vals.append({"b": bytes(rng.randrange(256) for _ in range(n)).hex()})
        else:
            for _ in range(c):
                intpos.append((len(vals), k))
                vals.append({"i": gen_int(rng, k)})
    if bad == "range" and intpos:
        j, k = rng.choice(intpos)
        vals[j] = {"i": gen_int(rng, k, True)}
    elif bad == "missing" and vals:
        vals.pop(rng.randrange(len(vals)))
    elif bad == "extra":
        vals.insert(rng.randrange(len(vals) + 1), {"i": rng.randrange(0, 5)})
    elif bad == "type" and vals:
        j = rng.randrange(len(vals))
        vals[j] = {"b": "0102"} if "i" in vals[j] else {"i": 7}
    return vals


def gen(rng):
    ngroups = rng.choice([0, 1, 1, 1, 2, 2, 3, 4])
    bad = rng.choice(["range", "missing", "extra", "type"]) if rng.random() < 0.12 else None
    badg = rng.randrange(ngroups) if ngroups and bad else None
    groups = []
    for g in range(ngroups):
        items = [gen_item(rng) for _ in range(rng.choice([1, 1, 1, 2, 2, 3]))]
        groups.append({"f": items, "v": gen_values(rng, items, bad if g == badg else None)})
    trail = [gen_item(rng) for _ in range(rng.choice([1, 1, 2]))] if rng.random() < 0.35 else None
    case = {}
    grouped = rng.random() < 0.85
    args = []
    if grouped:
        for g in groups:
            args.append({"f": g["f"]})
            args.extend(g["v"])
        case["groups"] = groups
        case["trail"] = trail
    else:                               # all formats first, then all values
        args = [{"f": g["f"]} for g in groups] + [v for g in groups for v in g["v"]]
    if trail is not None:
        args.append({"f": trail})
    case["args"] = args
    r = rng.random()
    if r < 0.2:
        case["nodata"] = 1
        case["data"] = None
    elif r < 0.35:
        case["data"] = None
    elif r < 0.5:
        case["data"] = {"b": ""}
    elif r < 0.68:
        case["data"] = {"b": bytes(rng.randrange(256) for _ in range(rng.randrange(1, 13))).hex()}
    elif r < 0.82:
        case["data"] = {"n": 0}
    elif r < 0.97:
        case["data"] = {"n": rng.randrange(1, 11)}
    else:
        case["data"] = {"n": -rng.randrange(1, 4)}
    # expected payload length by the generator's own arithmetic (only used to shape the response)
    plen = sum(c * (SIZES.get(k, 1)) for g in groups for c, k, _ in g["f"]) + sum(c * SIZES.get(k, 1) for c, k, _ in (trail or []))
    d = case["data"]
    nraw = 0 if d is None else (max(d["n"], 0) if "n" in d else len(d["b"]) // 2)
    plen += nraw
    r = rng.random()
    if r < 0.55:
        pass                            # echo
    elif r < 0.85:
        case["resp"] = bytes(rng.randrange(256) for _ in range(plen)).hex()
    else:
        n = rng.choice([0, max(plen - 1, 0), plen + 1, max(nraw - 1, 0), plen + 5, rng.randrange(0, plen + 3)])
        case["resp"] = bytes(rng.randrange(256) for _ in range(n)).hex()
    if rng.random() < 0.5:
        case.update(cmd=rng.choice([1, 2, 4, 5, 7, 8]), pos=rng.choice([0, -3, 7, 1000, 30000]),
                    offset=rng.choice([0, 0x10, 0x120, 0x130, 0x502, 0x800]), idx=rng.randrange(0, 256))
    return case



def fill_to(rng, target):
    """one grouped request whose payload has `target` bytes if that can be arranged: a small random head, the rest supplied by
    one of the five ways a request can grow (raw bytes, raw count, trailing Nx / Ns / NB, an Ns value, a run of integers)"""
    for _ in range(20):
        ngroups = rng.choice([0, 0, 1, 1, 2])
        groups = []
        for _g in range(ngroups):
            items = [gen_item(rng) for _ in range(rng.choice([1, 1, 2]))]
            groups.append({"f": items, "v": gen_values(rng, items)})
        head = sum(c * SIZES.get(k, 1) for g in groups for c, k, _ in g["f"])
        rest = target - head
        if rest >= 0:
            break
    else:
        groups, rest = [], target
    r = {"groups": groups, "trail": None, "data": None}
    how = rng.choice(["bytes", "bytes", "count", "trail-x", "trail-s", "trail-B", "val-s", "val-ints", "trail-ints"])
    if how in ("val-ints", "trail-ints") and rest % 2:
        how = "bytes"
    if how == "bytes" or (rest == 0 and rng.random() < 0.5):
        r["data"] = {"b": bytes(rng.randrange(256) for _ in range(rest)).hex()}
    elif how == "count":
        r["data"] = {"n": rest}
    elif how.startswith("trail-"):
        k = how[6:]
        r["trail"] = [[rest // 2, "H", 1]] if k == "ints" else [[rest, k, 1]]
        if rng.random() < 0.3:
            r["data"] = rng.choice([{"b": ""}, {"n": 0}])
    elif how == "val-s":
        groups.append({"f": [[rest, "s", 1]], "v": [{"b": bytes(rng.randrange(256) for _ in range(rest)).hex()}]})
    else:
        groups.append({"f": [[rest // 2, "H", 1]], "v": [{"i": rng.randrange(65536)} for _ in range(rest // 2)]})
    if r["data"] is None and rng.random() < 0.5:
        r["nodata"] = 1
    args = []
    for g in groups:
        args.append({"f": g["f"]})
        args.extend(g["v"])
    if r["trail"] is not None:
        args.append({"f": r["trail"]})
    r["args"] = args
    return r


def gen_wire(rng):
    """a batch of requests submitted together; sizes at the edges of one frame, alone and shared"""
    shape = rng.choice(["edge", "edge", "edge", "small", "pair", "many", "fill", "mixed"])
    edges = [WIRE_MAX, WIRE_MAX, WIRE_MAX - 1, WIRE_MAX + 1, WIRE_MAX - 2, WIRE_MAX + 2, WIRE_MAX + 20, 2047, 2048, 2049,
             0, 1, 17, 18, 19, 1000]
    if shape == "edge":
        sizes = [rng.choice(edges)]
    elif shape == "small":
        sizes = [rng.randrange(0, 40) for _ in range(rng.choice([1, 2, 3]))]
    elif shape == "pair":           # two requests that fill one frame exactly, or miss it by one
        a = rng.randrange(0, WIRE_MAX - DGRAM_OVERHEAD + 1)
        sizes = [a, WIRE_MAX - DGRAM_OVERHEAD - a + rng.choice([-1, 0, 0, 1])]
    elif shape == "many":           # around the number of datagrams one frame takes
        sizes = [rng.randrange(0, 12) for _ in range(rng.choice([14, 15, 16, 17, 30, 31, 32]))]
    elif shape == "fill":           # k equal requests whose frame is exactly / almost full
        k = rng.choice([2, 3, 4, 7])
        each, left = divmod(WIRE_MAX + DGRAM_OVERHEAD - k * DGRAM_OVERHEAD, k)
        sizes = [each] * (k - 1) + [each + left + rng.choice([-1, 0, 0, 1])]
    else:
        sizes = [rng.choice(edges + [rng.randrange(0, 1600)]) for _ in range(rng.choice([2, 3, 5]))]
    sizes = [max(s, 0) for s in sizes]
    batch = []
    idxs = rng.sample(range(256), len(sizes))
    for n, idx in zip(sizes, idxs):
        r = fill_to(rng, n)
        r["idx"] = idx
        if rng.random() < 0.5:
            r.update(cmd=rng.choice([1, 2, 4, 5, 7, 8]), pos=rng.choice([0, -3, 7, 1000, 30000]),
                     offset=rng.choice([0, 0x10, 0x120, 0x130, 0x502, 0x800]))
        if rng.random() < 0.4:
            r["resp"] = bytes(rng.randrange(256) for _ in range(n)).hex()
        batch.append(r)
    return {"wire": 1, "batch": batch}


def fixed_wire():
    """every way to reach the largest payload exactly, one below and one above, alone on the bus"""
    out = []
    for n in (WIRE_MAX - 1, WIRE_MAX, WIRE_MAX + 1):
        H = [1, "H", 0]
        g = {"f": [H], "v": [{"i": 0xa55a}]}
        variants = [
            {"args": [], "groups": [], "trail": None, "data": {"n": n}},
            {"args": [], "groups": [], "trail": None, "data": {"b": (b"\x5a" * n).hex()}},
            {"args": [{"f": [[n, "x", 1]]}], "groups": [], "trail": [[n, "x", 1]], "data": None},
            {"args": [{"f": [[n, "B", 1]]}], "groups": [], "trail": [[n, "B", 1]], "data": None, "nodata": 1},
            {"args": [{"f": [H]}, {"i": 0xa55a}], "groups": [g], "trail": None, "data": {"n": n - 2}},
            {"args": [{"f": [H]}, {"i": 0xa55a}, {"f": [H]}], "groups": [g], "trail": [H], "data": {"b": (b"\xc3" * (n - 4)).hex()}},
            {"args": [{"f": [[n, "s", 1]]}, {"b": (b"\x77" * n).hex()}], "groups": [{"f": [[n, "s", 1]], "v": [{"b": (b"\x77" * n).hex()}]}],
             "trail": None, "data": None},
        ]
        for i, v in enumerate(variants):
            v["idx"] = i
            out.append({"wire": 1, "batch": [v]})
    return out


def fixed_cases():
    """the calls the library itself makes, and every single code with/without data in every data shape"""
    out = []
    H, I = [1, "H", 0], [1, "I", 0]
    lib = [
        ([{"f": [H]}, {"i": 0}], None, None), ([{"f": [H]}], None, None),
        ([{"f": [H, I]}, {"i": 0x100}, {"i": 0x1234}], None, None),
        ([{"f": [H, [2, "x", 1], H]}], None, None), ([{"f": [[1, "B", 0]]}, {"i": 17}], None, None),
        ([{"f": [[1, "Q", 0]]}], None, None), ([{"f": [[4, "x", 1], I]}], None, None),
        ([], {"n": 8}, None), ([], {"b": "0011223344"}, None),
    ]
    for args, data, _ in lib:
        out.append({"args": args, "data": data})
    for k in "bBhHiIqQxs":
        for data in (None, {"b": ""}, {"b": "a1b2c3"}, {"n": 0}, {"n": 3}):
            it = [2, k, 1] if k in "xs" else [1, k, 0]
            vals = [] if k == "x" else ([{"b": "6162"}] if k == "s" else [{"i": 1}])
            g = {"f": [it], "v": vals}
            out.append({"args": [{"f": [it]}] + vals, "groups": [g], "trail": None, "data": data})
            out.append({"args": [{"f": [it]}], "groups": [], "trail": [it], "data": data})
            nraw = 0 if data is None else (data["n"] if "n" in data else len(data["b"]) // 2)
            out.append({"args": [{"f": [it]}] + vals + [{"f": [H]}], "groups": [g], "trail": [H], "data": data,
                        "resp": (b"\x5a" * (struct.calcsize("<" + render([it])) + 2 + nraw)).hex()})
    return out


def check_cases(ctx, cases):
    impl = []
    for c in cases:
        if "batch" in c:
            line, allobs = run_wire(c)
            impl.append(line)
            sizes = [len(ref[0]) if ref else None for ref in (reference(r) for r in c["batch"])]
            edge = any(n is not None and WIRE_MAX - 1 <= n <= WIRE_MAX + 1 for n in sizes)
            ctx.case(c, nontrivial=any(o["wire"] for o in allobs), kind="wire:" + ("edge" if edge else "inside") +
                     ("+shared" if len(c["batch"]) > 1 else ""))
            for n, o in zip(sizes, allobs):
                ctx.stats["wire:" + ("refused" if n is None else "too-long" if n > WIRE_MAX else "largest" if n == WIRE_MAX else "fits")] += 1
            ctx.stats["wire:frames"] += len(allobs[0]["frames"]) if allobs else 0
            oracle_wire(ctx, c, allobs)
            continue
        line, obs = run_impl(c)
        impl.append(line)
        d = c.get("data")
        kind = ("nodata" if d is None else ("empty-raw" if d in ({"b": ""}, {"n": 0}) else "raw")) + \
               ("+fmt" if c["args"] else "") + ("+trail" if c["args"] and "f" in c["args"][-1] else "")
        ctx.case(c, nontrivial=obs["queued"] is not None and (bool(c["args"]) or d is not None), kind=kind)
        ctx.stats["pack-refused" if obs["queued"] is None else ("unpack-refused" if obs["exc"] else "returned")] += 1
        ctx.stats["resp:" + ("echo" if c.get("resp") is None else "scripted")] += 1
        oracle(ctx, c, obs)
    model = ctx.drive(DRIVER, cases, "roundtrip")
    if model is not None:
        for c, i, m in zip(cases, impl, model):
            ctx.agree("roundtrip payload and result" + (" over the wire" if "batch" in c else ""), c, i, m)


def run(ctx):
    assert struct.pack("<H", 1) == b"\x01\x00"
    cases = fixed_cases() + fixed_wire() + [gen_wire(ctx.rng) for _ in range(ctx.n(400, 6000))] + \
        [gen(ctx.rng) for _ in range(ctx.n(8000, 250000))]
    step = 20000
    for i in range(0, len(cases), step):
        check_cases(ctx, cases[i:i + step])


def replay(ctx, case):
    if "batch" in case:
        line, allobs = run_wire(case)
        oracle_wire(ctx, case, allobs)
        return {"impl": line}
    line, obs = run_impl(case)
    oracle(ctx, case, obs)
    return {"impl": line}


LEVEL_TEXT = ("Lean 4 proof over a hand-written model of roundtrip's payload/response handling: for every argument list built from "
              "format/value groups with an optional trailing read-only format and any raw data (bytes of any length incl. empty, "
              "or a count incl. 0) the payload is enc(values) ++ zeros ++ raw; for every response of the request's length the "
              "fields are decoded group by group from their own offsets and the returned tail is exactly the last len(data) "
              "bytes; an echoing bus returns the values sent; a request reaches the bus iff its payload is at most MAXSIZE - 28 = 1472 bytes "
              "(a frame of exactly MAXSIZE included) and then returns the decoding of its own response. Tied to /repo by exact "
              "payload/result correspondence, on the stub queue and through the real send loop.")
LEVEL_NOTE = ("trusted: Lean kernel + propext/Classical.choice/Quot.sound; hand transcription Ebv.Roundtrip (incl. its model of "
              "struct.pack/unpack) validated (not verified) by differential runs of the real roundtrip; responses of a different "
              "length than the request and negative counts are modelled and compared but outside the property")
TECHNIQUE = "Lean 4 induction over argument/format lists (pack/unpack append lemmas) + differential payload/result correspondence"
DESIGN_REF = "§4 C13"
