"""C13 — datagram field encoding and decoding round-trip.
Real `EtherCat.roundtrip` is run with a stub send queue that records the queued datagram and
completes the future with a scripted response; payload and returned tuple (or exception class) are
compared with the Lean model `Ebv.Roundtrip`, and the property text is evaluated with
`struct.pack`/`struct.unpack_from` as reference, group by group at its own offset."""
import asyncio
import struct

ID = "C13"
LEAN_MODULES = ["Ebv.Props.C13"]
MODEL_MODULES = ["Ebv.Model.Roundtrip"]
DRIVER = "Drivers/C13.lean"
THEOREMS = [
    "Ebv.C13.encode_layout", "Ebv.C13.encode_general", "Ebv.C13.encode_length", "Ebv.C13.fullFmt_eq",
    "Ebv.C13.packAll_append", "Ebv.C13.decode_encode", "Ebv.C13.decode_echo", "Ebv.C13.unpack_pack",
    "Ebv.C13.echoAll_noStr", "Ebv.C13.decode_raw_only", "Ebv.C13.raw_tail", "Ebv.C13.raw_tail_empty",
]
TRUSTED = ["hand-written model Ebv.Roundtrip of the payload/response handling in EtherCat.roundtrip, tied by exact "
           "payload/result correspondence",
           "struct.pack/unpack for '<' formats over b B h H i I q Q x s modelled in Ebv.Roundtrip (range/count/type errors, "
           "Ns padding/truncation, exact buffer length), validated against the real struct module through roundtrip itself",
           "harness/vh/props/c13.py stub queue; format strings are rendered from the tokenised items the model receives"]
ASSUMPTIONS = ["format strings are sequences of complete items [count]code over b B h H i I q Q x s; values are ints or bytes",
               "the response is delivered by completing the queued future (send loop and bus are C12's subject)",
               "host-independent: all formats are prefixed with '<' by roundtrip itself"]
RULE = ("case = argument list (0..4 format strings of 1..3 items with their values interleaved, or all formats first; optional "
        "trailing read-only format; values at range boundaries; a few invalid: out of range, missing/extra/wrong-type value) x "
        "data in {absent, None, b'', bytes 1..12, 0, n, negative} x response in {echo, overwritten same length, wrong length}; "
        "non-trivial = at least one format or raw data and a payload was queued")

SIZES = {"b": 1, "B": 1, "h": 2, "H": 2, "i": 4, "I": 4, "q": 8, "Q": 8}
_LOOP = None


def render(items):
    return "".join((str(c) if ex else "") + k for c, k, ex in items)


def py_args(case):
    out = []
    for a in case["args"]:
        if "f" in a:
            out.append(render(a["f"]))
        elif "i" in a:
            out.append(a["i"])
        else:
            out.append(bytes.fromhex(a["b"]))
    return out


def py_data(case):
    d = case.get("data")
    if d is None:
        return None
    return d["n"] if "n" in d else bytes.fromhex(d["b"])


def show_val(v):
    return f"i{v}" if isinstance(v, int) else "b" + bytes(v).hex()


def run_impl(case):
    """-> (canonical line, observations)"""
    global _LOOP
    from ebpfcat.ethercat import EtherCat, ECCmd
    if _LOOP is None:
        _LOOP = asyncio.new_event_loop()
    queued = []
    resp_hex = case.get("resp")

    class Queue:
        def put_nowait(self, item):
            queued.append(item)
            out = item[1]
            item[-1].set_result(bytes(out) if resp_hex is None else bytes.fromhex(resp_hex))

    ec = EtherCat("lo")
    ec.send_queue = Queue()
    args, data = py_args(case), py_data(case)
    cmd = ECCmd(case.get("cmd", 4))
    kw = {}
    if not case.get("nodata"):
        kw["data"] = data
    if "idx" in case:
        kw["idx"] = case["idx"]
    obs = {"queued": None, "ret": None, "exc": None}
    try:
        ret = _LOOP.run_until_complete(ec.roundtrip(cmd, case.get("pos", 0), case.get("offset", 0), *args, **kw))
        obs["ret"] = ret
    except struct.error:
        obs["exc"] = "struct-error"
    except Exception as e:      # noqa: BLE001 - canonicalised
        obs["exc"] = "other:" + type(e).__name__
    if queued:
        c, out, idx, pos, off, _ = queued[0]
        obs["queued"] = (c, bytes(out), idx, pos, off)
        obs["nqueued"] = len(queued)
    if obs["queued"] is None:
        return obs["exc"] or "nothing-queued", obs
    line = "out=" + obs["queued"][1].hex() + " | "
    if obs["exc"]:
        line += obs["exc"]
    elif data is None:
        line += "t:" + ",".join(show_val(v) for v in obs["ret"])
    elif args:
        r = obs["ret"]
        line += "t:" + ",".join(show_val(v) for v in r[:-1]) + ";raw=" + bytes(r[-1]).hex()
    else:
        line += "raw:" + bytes(obs["ret"]).hex()
    return line, obs


def reference(case):
    """struct reference for a grouped case: (payload, [(fmt, offset)], raw length) or None when some group is no
    valid pack call by itself (outside the property: roundtrip must then raise struct.error, which is checked)"""
    parts, layout, off = [], [], 0
    groups, trail = case["groups"], case.get("trail")
    if trail is None and groups and not groups[-1]["v"]:
        groups, trail = groups[:-1], groups[-1]["f"]      # a last format without values IS the trailing read-only format
    for g in groups:
        f = "<" + render(g["f"])
        vals = [v["i"] if "i" in v else bytes.fromhex(v["b"]) for v in g["v"]]
        try:
            b = struct.pack(f, *vals)
        except struct.error:
            return None
        parts.append(b)
        layout.append((f, off, vals))
        off += len(b)
    if trail is not None:
        f = "<" + render(trail)
        n = struct.calcsize(f)
        parts.append(bytes(n))
        layout.append((f, off, None))
        off += n
    data = py_data(case)
    raw = b"" if data is None else (bytes(max(data, 0)) if isinstance(data, int) else data)
    return b"".join(parts) + raw, layout, len(raw)


def oracle(ctx, case, obs):
    """the property text on the implementation's behaviour (grouped cases only)"""
    if "groups" not in case:
        return
    def req(cond, what, cls=None):
        return ctx.require(cond, what, case, {"queued": None if obs["queued"] is None else obs["queued"][1].hex(),
                                              "ret": repr(obs["ret"]), "exc": obs["exc"]}, cls)
    ref = reference(case)
    if ref is None:
        req(obs["queued"] is None and obs["exc"] == "struct-error", "values that struct.pack refuses were not refused", "refuse")
        return
    payload, layout, nraw = ref
    if not req(obs["queued"] is not None and obs.get("nqueued") == 1, "exactly one datagram is queued", "queue"):
        return
    c, out, idx, pos, off = obs["queued"]
    req(out == payload, "payload is not enc(values) ++ zeros(trailing format) ++ raw data", "payload")
    req((c.value, idx, pos, off) == (case.get("cmd", 4), case.get("idx", 0), case.get("pos", 0), case.get("offset", 0)),
        "cmd/idx/pos/offset not passed through", "passthrough")
    resp = out if case.get("resp") is None else bytes.fromhex(case["resp"])
    data = py_data(case)
    if len(resp) != len(payload) or (isinstance(data, int) and data < 0):
        return      # a response of another length than the request / a negative count: outside the property
    fields = []
    for f, o, vals in layout:
        got = struct.unpack_from(f, resp, o)
        fields.extend(got)
        if case.get("resp") is None:     # echo: the values come back from their own offsets
            if vals is None:
                want = struct.unpack(f, bytes(struct.calcsize(f)))
            else:
                want = struct.unpack(f, struct.pack(f, *vals))
                ints = [v for v in vals if isinstance(v, int)]
                req([g for g in got if isinstance(g, int)] == ints, "echoed integer fields differ from the values sent", "echo")
            req(got == want, "echoed fields differ from the values sent", "echo")
    tail = resp[len(resp) - nraw:] if nraw else b""
    if data is None:
        want = tuple(fields)
    elif case["args"]:
        want = tuple(fields) + (tail,)
    else:
        want = resp
    req(obs["exc"] is None, f"roundtrip raised {obs['exc']} on a response of the request's length",
        "raw-empty" if (data is not None and nraw == 0 and case["args"]) else "decode")
    if obs["exc"] is None:
        got = obs["ret"]
        got = bytes(got) if isinstance(got, (bytes, bytearray)) else tuple(bytes(x) if isinstance(x, (bytes, bytearray)) else x for x in got)
        req(got == want, "returned fields are not the response decoded at the same offsets (+ the trailing raw bytes)",
            "raw-tail" if data is not None and case["args"] and got[:-1] == want[:-1] else "decode")


# ---------------------------------------------------------------- generators

def gen_int(rng, code, bad=False):
    n = SIZES[code]
    lo, hi = (-(1 << (8 * n - 1)), (1 << (8 * n - 1)) - 1) if code.islower() else (0, (1 << (8 * n)) - 1)
    if bad:
        return rng.choice([hi + 1, lo - 1, hi + 1000, -(1 << 70)])
    return rng.choice([lo, hi, 0, 1, lo + 1, hi - 1, rng.randint(lo, hi), rng.randint(lo, hi), rng.randint(0, min(hi, 300))])


def gen_item(rng):
    r = rng.random()
    if r < 0.12:
        c = rng.randrange(0, 5)
        return [c, "s", 1] if c != 1 or rng.random() < 0.5 else [1, "s", 0]
    if r < 0.22:
        c = rng.randrange(1, 4)
        return [c, "x", 1] if c != 1 or rng.random() < 0.3 else [1, "x", 0]
    code = rng.choice("HHHIIBBbhiqQ")
    if rng.random() < 0.15:
        return [rng.randrange(0, 4), code, 1]
    return [1, code, 0]


def gen_values(rng, items, bad=None):
    vals, intpos = [], []
    for c, k, _ in items:
        if k == "x":
            continue
        if k == "s":
            n = c if rng.random() < 0.7 else rng.randrange(0, c + 3)
            vals.append({"b": bytes(rng.randrange(256) for _ in range(n)).hex()})
        else:
            for _ in range(c):
                intpos.append((len(vals), k))
                vals.append({"i": gen_int(rng, k)})
    if bad == "range" and intpos:
        j, k = rng.choice(intpos)
        vals[j] = {"i": gen_int(rng, k, True)}
    elif bad == "missing" and vals:
        vals.pop(rng.randrange(len(vals)))
    elif bad == "extra":
        vals.insert(rng.randrange(len(vals) + 1), {"i": rng.randrange(0, 5)})
    elif bad == "type" and vals:
        j = rng.randrange(len(vals))
        vals[j] = {"b": "0102"} if "i" in vals[j] else {"i": 7}
    return vals


def gen(rng):
    ngroups = rng.choice([0, 1, 1, 1, 2, 2, 3, 4])
    bad = rng.choice(["range", "missing", "extra", "type"]) if rng.random() < 0.12 else None
    badg = rng.randrange(ngroups) if ngroups and bad else None
    groups = []
    for g in range(ngroups):
        items = [gen_item(rng) for _ in range(rng.choice([1, 1, 1, 2, 2, 3]))]
        groups.append({"f": items, "v": gen_values(rng, items, bad if g == badg else None)})
    trail = [gen_item(rng) for _ in range(rng.choice([1, 1, 2]))] if rng.random() < 0.35 else None
    case = {}
    grouped = rng.random() < 0.85
    args = []
    if grouped:
        for g in groups:
            args.append({"f": g["f"]})
            args.extend(g["v"])
        case["groups"] = groups
        case["trail"] = trail
    else:                               # all formats first, then all values
        args = [{"f": g["f"]} for g in groups] + [v for g in groups for v in g["v"]]
    if trail is not None:
        args.append({"f": trail})
    case["args"] = args
    r = rng.random()
    if r < 0.2:
        case["nodata"] = 1
        case["data"] = None
    elif r < 0.35:
        case["data"] = None
    elif r < 0.5:
        case["data"] = {"b": ""}
    elif r < 0.68:
        case["data"] = {"b": bytes(rng.randrange(256) for _ in range(rng.randrange(1, 13))).hex()}
    elif r < 0.82:
        case["data"] = {"n": 0}
    elif r < 0.97:
        case["data"] = {"n": rng.randrange(1, 11)}
    else:
        case["data"] = {"n": -rng.randrange(1, 4)}
    # expected payload length by the generator's own arithmetic (only used to shape the response)
    plen = sum(c * (SIZES.get(k, 1)) for g in groups for c, k, _ in g["f"]) + sum(c * SIZES.get(k, 1) for c, k, _ in (trail or []))
    d = case["data"]
    nraw = 0 if d is None else (max(d["n"], 0) if "n" in d else len(d["b"]) // 2)
    plen += nraw
    r = rng.random()
    if r < 0.55:
        pass                            # echo
    elif r < 0.85:
        case["resp"] = bytes(rng.randrange(256) for _ in range(plen)).hex()
    else:
        n = rng.choice([0, max(plen - 1, 0), plen + 1, max(nraw - 1, 0), plen + 5, rng.randrange(0, plen + 3)])
        case["resp"] = bytes(rng.randrange(256) for _ in range(n)).hex()
    if rng.random() < 0.5:
        case.update(cmd=rng.choice([1, 2, 4, 5, 7, 8]), pos=rng.choice([0, -3, 7, 1000, 30000]),
                    offset=rng.choice([0, 0x10, 0x120, 0x130, 0x502, 0x800]), idx=rng.randrange(0, 256))
    return case


def fixed_cases():
    """the calls the library itself makes, and every single code with/without data in every data shape"""
    out = []
    H, I = [1, "H", 0], [1, "I", 0]
    lib = [
        ([{"f": [H]}, {"i": 0}], None, None), ([{"f": [H]}], None, None),
        ([{"f": [H, I]}, {"i": 0x100}, {"i": 0x1234}], None, None),
        ([{"f": [H, [2, "x", 1], H]}], None, None), ([{"f": [[1, "B", 0]]}, {"i": 17}], None, None),
        ([{"f": [[1, "Q", 0]]}], None, None), ([{"f": [[4, "x", 1], I]}], None, None),
        ([], {"n": 8}, None), ([], {"b": "0011223344"}, None),
    ]
    for args, data, _ in lib:
        out.append({"args": args, "data": data})
    for k in "bBhHiIqQxs":
        for data in (None, {"b": ""}, {"b": "a1b2c3"}, {"n": 0}, {"n": 3}):
            it = [2, k, 1] if k in "xs" else [1, k, 0]
            vals = [] if k == "x" else ([{"b": "6162"}] if k == "s" else [{"i": 1}])
            g = {"f": [it], "v": vals}
            out.append({"args": [{"f": [it]}] + vals, "groups": [g], "trail": None, "data": data})
            out.append({"args": [{"f": [it]}], "groups": [], "trail": [it], "data": data})
            nraw = 0 if data is None else (data["n"] if "n" in data else len(data["b"]) // 2)
            out.append({"args": [{"f": [it]}] + vals + [{"f": [H]}], "groups": [g], "trail": [H], "data": data,
                        "resp": (b"\x5a" * (struct.calcsize("<" + render([it])) + 2 + nraw)).hex()})
    return out


def check_cases(ctx, cases):
    impl = []
    for c in cases:
        line, obs = run_impl(c)
        impl.append(line)
        d = c.get("data")
        kind = ("nodata" if d is None else ("empty-raw" if d in ({"b": ""}, {"n": 0}) else "raw")) + \
               ("+fmt" if c["args"] else "") + ("+trail" if c["args"] and "f" in c["args"][-1] else "")
        ctx.case(c, nontrivial=obs["queued"] is not None and (bool(c["args"]) or d is not None), kind=kind)
        ctx.stats["pack-refused" if obs["queued"] is None else ("unpack-refused" if obs["exc"] else "returned")] += 1
        ctx.stats["resp:" + ("echo" if c.get("resp") is None else "scripted")] += 1
        oracle(ctx, c, obs)
    model = ctx.drive(DRIVER, cases, "roundtrip")
    if model is not None:
        for c, i, m in zip(cases, impl, model):
            ctx.agree("roundtrip payload and result", c, i, m)


def run(ctx):
    assert struct.pack("<H", 1) == b"\x01\x00"
    cases = fixed_cases() + [gen(ctx.rng) for _ in range(ctx.n(8000, 250000))]
    step = 20000
    for i in range(0, len(cases), step):
        check_cases(ctx, cases[i:i + step])


def replay(ctx, case):
    line, obs = run_impl(case)
    oracle(ctx, case, obs)
    return {"impl": line}


LEVEL_TEXT = ("Lean 4 proof over a hand-written model of roundtrip's payload/response handling: for every argument list built from "
              "format/value groups with an optional trailing read-only format and any raw data (bytes of any length incl. empty, "
              "or a count incl. 0) the payload is enc(values) ++ zeros ++ raw; for every response of the request's length the "
              "fields are decoded group by group from their own offsets and the returned tail is exactly the last len(data) "
              "bytes; an echoing bus returns the values sent. Tied to /repo by exact payload/result correspondence.")
LEVEL_NOTE = ("trusted: Lean kernel + propext/Classical.choice/Quot.sound; hand transcription Ebv.Roundtrip (incl. its model of "
              "struct.pack/unpack) validated (not verified) by differential runs of the real roundtrip; responses of a different "
              "length than the request and negative counts are modelled and compared but outside the property")
TECHNIQUE = "Lean 4 induction over argument/format lists (pack/unpack append lemmas) + differential payload/result correspondence"
DESIGN_REF = "§4 C13"
