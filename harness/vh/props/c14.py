"""C14 — state changes walk the EtherCAT state machine in order.
Real `Terminal.to_operational` against a scripted AL-status responder, compared
with the Lean model `Ebv.AlDriver.toOperational`; the property's own trace
predicates are evaluated on the implementation's trace.
A second family (`bus`) brings up 1..17 real Terminal objects concurrently on one real EtherCat object (connect with a
stub endpoint, real sendloop / Packet / process_packet / roundtrip) over a frame-level bus simulation in which other
callers' datagrams (address probes of find_free_address, terminals that are gone, positional reads beyond the bus) go
unanswered in the same frames; the trace judged is the one each simulated terminal saw at its own registers.
A third family (`hist`) keeps 1..3 real Terminal objects alive and uses them again and again (to_operational, set_state,
get_state) while the simulated terminals change state on their own; every call is judged on its own."""
import asyncio

ID = "C14"
LEAN_MODULES = ["Ebv.Props.C14", "Ebv.Props.C14Hist"]
MODEL_MODULES = ["Ebv.Model.AlDriver"]
DRIVER = "Drivers/C14.lean"
THEOREMS = [
    "Ebv.C14.ack_first", "Ebv.C14.writes_ascending", "Ebv.C14.never_above_target",
    "Ebv.C14.write_after_report", "Ebv.C14.returns_only_when_reached",
    "Ebv.C14.returns_target_after_ack", "Ebv.C14.raises_on_error", "Ebv.C14.never_falls_off",
    "Ebv.C14.Bus.runD_start", "Ebv.C14.Bus.devRun_full", "Ebv.C14.Bus.sys_projection",
    "Ebv.C14.Bus.sys_independent", "Ebv.C14.Bus.sys_complete",
    "Ebv.C14.Hist.hist1_use", "Ebv.C14.Hist.hist1_call", "Ebv.C14.Hist.rest1_suffix", "Ebv.C14.Hist.hist_projection",
    "Ebv.C14.Hist.hist_independent", "Ebv.C14.Hist.call_reads_first", "Ebv.C14.Hist.hist_call_spec",
]
TRUSTED = ["hand-written model Ebv.AlDriver of Terminal.to_operational/get_state, tied by trace correspondence",
           "harness/vh/props/c14.py scripted responder; MachineState order and values regenerated into Ebv.Generated.Consts"]
ASSUMPTIONS = ["ec.roundtrip is the only way to_operational touches the bus (single-terminal family: replaced by a scripted responder; "
               "bus family: the real one, down to the frames)",
               "bus family: frames are not lost; a terminal whose script is used up reports INIT with the error flag from then on",
               "terminal answers are arbitrary (state nibble, error bit, status) sequences; BOOTSTRAP never the start state"]
RULE = ("scripts = target in {2,4,8} x list of (state,error,status) answers; generated from a simulated AL state machine "
        "(0..k polls per transition, error injected at a random poll) and adversarial random answers; non-trivial = at least one write; "
        "bus: 1..17 such terminals started together (random order and lags) with 0..3 other callers whose datagrams nobody answers "
        "(find_free_address probes, an absent terminal, positional reads beyond the bus) or that read other registers, responses "
        "delayed by 0..4 loop turns; "
        "hist: 1..3 real Terminal objects kept alive and used 2..7 times in any order (to_operational to any target, set_state, "
        "get_state) while the simulated terminals change state on their own between the uses (fall back with/without error flag, "
        "jump, stay), plus every start x target x fall-back x second target on one object; a call that does not read first is "
        "judged by what the terminal would have reported")


class Blocked(Exception):
    pass


def run_impl(target, responses):
    from ebpfcat.ethercat import Terminal, MachineState, ECCmd, EtherCatError
    trace = []
    it = iter(responses)

    class EC:
        async def roundtrip(self, cmd, pos, offset, *args, data=None, idx=0):
            if cmd is ECCmd.FPWR and offset == 0x120:
                assert args[0] == "H"
                trace.append(("w", args[1]))
                return ()
            if cmd is ECCmd.FPRD and offset == 0x130:
                assert args == ("H2xH",)
                trace.append(("r",))
                try:
                    s, e, st = next(it)
                except StopIteration:
                    raise Blocked()
                return (s | (0x10 if e else 0), st)
            raise AssertionError(f"unexpected bus access {cmd} {offset:x}")

    t = Terminal(EC())
    t.position = 7
    try:
        ret = asyncio.run(t.to_operational(MachineState(target)))
        out = "none" if ret is None else "returned"
    except Blocked:
        out = "blocked"
    except EtherCatError:
        out = "ethercat-error"
    except ValueError:
        out = "value-error"
    return trace, out


def show(trace, out):
    return " ".join("r" if e[0] == "r" else f"w{e[1]}" for e in trace) + " | " + out


def oracle(ctx, case, trace, out, target=None, rs=None, who=""):
    """the property text, evaluated on the trace of register accesses one terminal saw"""
    if target is None:
        target, rs = case["target"], case["responses"]
    if who:
        class _Ctx:     # same requirements, the message names the terminal
            @staticmethod
            def require(cond, what, case, observed, cls=None):
                return ctx.require(cond, who + what, case, who + str(observed), cls)
        return oracle(_Ctx, case, trace, out, target, rs)
    if not rs or rs[0][0] not in (1, 2, 4, 8) or out == "value-error":
        return    # start state BOOTSTRAP / a nibble that is no state: outside the property's domain
    seq = [1, 2, 4, 8]
    ws = [e[1] for e in trace if e[0] == "w"]
    acked = rs[0][1]
    if acked:
        ctx.require(trace[:2] == [("r",), ("w", 0x11)], "error not acknowledged first", case, show(trace, out), "ack")
        ws = ws[1:] if ws[:1] == [0x11] else ws
    start = 1 if acked else rs[0][0]
    expect = [s for s in seq if s > start and s <= target]
    ctx.require(ws == expect[:len(ws)], "requests not the ascending run above the start state / above target",
                case, show(trace, out), "order")
    # each write after the first plain one is preceded by a read answered with the previous state
    ri = 0
    prev = None
    lastread = None
    for e in trace:
        if e[0] == "r":
            lastread = rs[ri] if ri < len(rs) else None
            ri += 1
        elif e[1] != 0x11 or not acked or prev is not None or lastread is None:
            if prev is not None:
                ctx.require(lastread is not None and lastread[0] == prev and not lastread[1],
                            "next state requested before the previous one was reported", case, show(trace, out), "report")
            prev = e[1]
    consumed = rs[:ri]
    if out == "returned":
        if not consumed:
            ctx.require(False, "returned although the terminal reported nothing", case, show(trace, out), "return")
            return
        last = consumed[-1]
        if len(consumed) == 1 and acked:
            ctx.require(False, "returned right after the acknowledge", case, show(trace, out), "return")
        else:
            ctx.require(last[0] >= target and (not acked or last[0] == target), "returned before the target was reported",
                        case, show(trace, out), "return")
    if any(r[1] for r in consumed[1:]):
        ctx.require(out == "ethercat-error", "error during the state change not raised", case, show(trace, out), "raise")
    if out == "ethercat-error":
        ctx.require(any(r[1] for r in consumed[1:]), "raised without a reported error", case, show(trace, out), "raise")



# ---------------------------------------------------------------- several terminals on one bus
# Real EtherCat object (connect/connection_made with a stub endpoint, real Queue, sendloop, Packet, process_packet,
# roundtrip) and real Terminal objects; the bus is a frame-level simulation: every present station has its own scripted
# AL status answers (after the script: INIT + error flag for ever, so every call ends), FPRD/FPWR datagrams to present
# stations are executed (working counter 1), everything else passes unanswered (working counter 0).  The trace of a
# terminal is what the simulated terminal itself saw at its AL control / AL status registers.
import logging
import random
import struct

ERR_TAIL = [1, True, 0]


def walk_frame(data):
    """independent walk over an EtherCAT frame -> [(cmd, addr, off, start, stop)] without the identifying datagram"""
    out, p, first = [], 2, True
    while True:
        cmd, _idx, addr, off, lf = struct.unpack_from("<BBHHH", data, p)
        start, stop = p + 10, p + 10 + (lf & 0x7ff)
        if not first:
            out.append((cmd, addr, off, start, stop))
        first = False
        p = stop + 2
        if not lf >> 15:
            return out


class _Sock:
    def bind(self, addr):
        pass


class AlBus:
    def __init__(self, loop, terms, delays):
        self._sock, self.loop, self.proto, self.delays, self.nframes, self.shared = _Sock(), loop, None, delays, 0, 0
        self.terms = {t["addr"]: {"it": iter(t["responses"]), "trace": []} for t in terms}

    def sendto(self, data, addr):
        ans = bytearray(data)
        dgrams = walk_frame(bytes(data))
        self.shared += len(dgrams) > 1
        for cmd, station, off, start, stop in dgrams:
            t = self.terms.get(station)
            if t is None or cmd not in (4, 5):
                continue                                        # nobody executes it: working counter stays 0
            if cmd == 4 and off == 0x130 and stop - start == 6:
                s, e, st = next(t["it"], ERR_TAIL)
                t["trace"].append(("r",))
                ans[start:stop] = struct.pack("<H2xH", s | (0x10 if e else 0), st)
            elif cmd == 5 and off == 0x120 and stop - start == 2:
                t["trace"].append(("w", struct.unpack_from("<H", data, start)[0]))
            elif 0x120 <= off < 0x136:
                t["trace"].append(("w" if cmd == 5 else "r", f"?{off:x}+{stop - start}"))
            elif cmd == 4:
                ans[start:stop] = bytes(stop - start)
            ans[stop:stop + 2] = b"\x01\x00"
        d = self.delays[self.nframes % len(self.delays)] if self.delays else 0
        self.nframes += 1
        self._later(d, bytes(ans), addr)

    def _later(self, d, ans, addr):
        if d:
            self.loop.call_soon(self._later, d - 1, ans, addr)
        else:
            self.loop.call_soon(self.proto.datagram_received, ans, addr)


def run_bus(case):
    """-> ([(trace, out) per terminal], stats)"""
    from ebpfcat.ethercat import EtherCat, Terminal, MachineState, ECCmd, EtherCatError
    loop = asyncio.new_event_loop()
    bus = AlBus(loop, case["terms"], case.get("delays", []))
    outs = {}

    async def endpoint(factory, **kw):
        bus.proto = factory()
        bus.proto.connection_made(bus)
        return bus, bus.proto

    async def bring_up(ec, k, t):
        for _ in range(t.get("lag", 0)):
            await asyncio.sleep(0)
        term = Terminal(ec)
        term.position = t["addr"]
        try:
            ret = await term.to_operational(MachineState(t["target"]))
            outs[k] = "none" if ret is None else "returned"
        except EtherCatError:
            outs[k] = "ethercat-error"
        except ValueError:
            outs[k] = "value-error"
        except Exception as e:      # noqa: BLE001 - canonicalised
            outs[k] = "other:" + type(e).__name__

    async def ghost(ec, g):
        for _ in range(g.get("lag", 0)):
            await asyncio.sleep(0)
        try:
            for _ in range(g.get("n", 1)):
                if g["kind"] == "probe":            # the master looking for a free station address (unanswered probes)
                    await ec.find_free_address()
                elif g["kind"] == "absent":         # a terminal that is not (any more) on the bus
                    term = Terminal(ec)
                    term.position = g["addr"]
                    await term.to_operational(MachineState(g.get("target", 8)))
                elif g["kind"] == "reader":         # answered traffic to a present station
                    await ec.roundtrip(ECCmd.FPRD, g["addr"], 0x10, "H")
                else:                               # a positional read beyond the end of the bus
                    await ec.roundtrip(ECCmd.APRD, -g["addr"], 0x10, "H", 0)
        except EtherCatError:
            pass

    async def go():
        ec = EtherCat("lo")
        ec.terminal_addr_range = tuple(case["probe_range"])
        await ec.connect()
        tasks = []
        for kind, k in case["order"]:
            tasks.append(bring_up(ec, k, case["terms"][k]) if kind == "t" else ghost(ec, case["ghosts"][k]))
        try:
            await asyncio.wait_for(asyncio.gather(*tasks), 20)
        except asyncio.TimeoutError:
            pass
        finally:
            for t in asyncio.all_tasks():
                if t is not asyncio.current_task():
                    t.cancel()

    loop.create_datagram_endpoint = endpoint
    random.seed(case.get("rseed", 0))
    logging.disable(logging.CRITICAL)
    try:
        loop.run_until_complete(go())
        loop.run_until_complete(asyncio.sleep(0))
    finally:
        logging.disable(logging.NOTSET)
        loop.close()
    res = [(bus.terms[t["addr"]]["trace"], outs.get(k, "blocked")) for k, t in enumerate(case["terms"])]
    return res, {"frames": bus.nframes, "shared": bus.shared}


def gen_bus(rng):
    n = rng.choice([1, 2, 2, 3, 3, 4, 5, 6, 17])
    addrs = rng.sample(range(1000, 1040), n)
    terms = []
    for a in addrs:
        c = gen(rng)
        terms.append({"addr": a, "target": c["target"], "responses": c["responses"], "lag": rng.choice([0, 0, 0, 1, 2, 5])})
    ghosts = []
    for _ in range(rng.choice([0, 1, 1, 2, 3])):
        kind = rng.choice(["probe", "probe", "absent", "reader", "beyond"])
        ghosts.append({"kind": kind, "n": rng.choice([1, 2, 3, 6]), "lag": rng.choice([0, 0, 1, 3]),
                       "addr": rng.choice(addrs) if kind == "reader" else rng.randrange(1040, 1060),
                       "target": rng.choice([2, 4, 8])})
    order = [["t", k] for k in range(n)] + [["g", k] for k in range(len(ghosts))]
    rng.shuffle(order)
    return {"bus": 1, "terms": terms, "ghosts": ghosts, "order": order, "probe_range": [1000, 1100],
            "delays": [rng.choice([0, 0, 1, 2, 4]) for _ in range(rng.choice([0, 1, 2, 3]))], "rseed": rng.randrange(1 << 30)}


def check_bus(ctx, c):
    res, st = run_bus(c)
    ctx.case(c, nontrivial=any(e[0] == "w" for tr, _ in res for e in tr),
             kind="bus:" + ("shared-frames" if st["shared"] else "alone") + ("+unanswered" if c["ghosts"] else ""))
    ctx.stats["bus:terminals"] += len(res)
    for k, (t, (trace, out)) in enumerate(zip(c["terms"], res)):
        ctx.stats["bus:" + out] += 1
        oracle(ctx, c, trace, out, t["target"], t["responses"] + [ERR_TAIL] * 3, f"terminal {k} (station {t['addr']}): ")
    return " || ".join(show(tr, out) for tr, out in res)


# ---------------------------------------------------------------- histories: the same Terminal objects used again
# Several real Terminal objects on one (scripted) bus object, each simulated terminal with its own script of AL status
# answers; a history is a list of uses - to_operational(target), set_state(state), get_state() - of these objects one
# after the other.  Between the uses the terminal does what it likes (falls back on its own, with or without the error
# flag; the script says so).  Every to_operational call is judged by the property text on the answers the terminal gave
# (or, for a call that does not ask first, would have given) from the start of THAT call.

def run_hist(case):
    """-> [(t, op, trace, out, ret, remaining script at the start of the use)]"""
    from ebpfcat.ethercat import Terminal, MachineState, ECCmd, EtherCatError
    scripts = case["scripts"]
    ptr = [0] * len(scripts)
    cur = {"trace": None}

    class EC:
        async def roundtrip(self, cmd, pos, offset, *args, data=None, idx=0):
            await asyncio.sleep(0)
            k = pos - 1000
            assert cur["t"] == k, f"use of terminal {cur['t']} touched station {pos}"
            if cmd is ECCmd.FPWR and offset == 0x120:
                assert args[0] == "H"
                cur["trace"].append(("w", args[1]))
                return ()
            if cmd is ECCmd.FPRD and offset == 0x130:
                assert args == ("H2xH",)
                cur["trace"].append(("r",))
                if ptr[k] >= len(scripts[k]):
                    raise Blocked()
                s, e, st = scripts[k][ptr[k]]
                ptr[k] += 1
                return (s | (0x10 if e else 0), st)
            raise AssertionError(f"unexpected bus access {cmd} {offset:x}")

    async def go():
        ec = EC()
        terms = []
        for k in range(len(scripts)):
            t = Terminal(ec)
            t.position = 1000 + k
            terms.append(t)
        res = []
        for o in case["ops"]:
            k = o["t"]
            cur["t"], cur["trace"] = k, []
            before = scripts[k][ptr[k]:]
            ret = None
            try:
                if o["op"] == "to":
                    ret = await terms[k].to_operational(MachineState(o["target"]))
                    out = "none" if ret is None else "returned"
                elif o["op"] == "set":
                    ret = await terms[k].set_state(MachineState(o["state"]))
                    out = "none" if ret is None else "returned"
                else:
                    ret = await terms[k].get_state()
                    out = "returned"
            except Blocked:
                out = "blocked"
            except EtherCatError:
                out = "ethercat-error"
            except ValueError:
                out = "value-error"
            res.append((k, o, cur["trace"], out, ret, before))
        return res

    return asyncio.run(go())


def check_hist(ctx, c):
    from ebpfcat.ethercat import MachineState
    res = run_hist(c)
    ncalls = sum(1 for r in res if r[1]["op"] == "to")
    ctx.case(c, nontrivial=any(e[0] == "w" for r in res if r[1]["op"] == "to" for e in r[2]),
             kind="hist:" + ("several-objects" if len(c["scripts"]) > 1 else "one-object") +
                  ("+repeated-calls" if ncalls > len({r[0] for r in res if r[1]["op"] == "to"}) else ""))
    ctx.stats["hist:uses"] += len(res)
    for n, (k, o, trace, out, ret, before) in enumerate(res):
        who = f"use {n} ({o['op']} on terminal object {k}): "
        ctx.stats["hist:" + o["op"] + ":" + out] += 1
        if o["op"] == "to":
            rs = before
            if trace[:1] != [("r",)] and before:
                # the call did not ask: it is judged by what the terminal would have reported at that moment
                ctx.stats["hist:call-without-initial-read"] += 1
                trace, rs, who = [("r",)] + trace, before[:1] + before, who + "[no AL status read at the start of the call; first r = what the terminal would have reported] "
            oracle(ctx, c, trace, out, o["target"], rs, who)
        elif o["op"] == "set":
            ctx.require(trace == [("w", o["state"])] and out == "none", who + "set_state is not one write of the state to AL control",
                        c, show(trace, out), "set")
        else:
            if before and before[0][0] in (1, 2, 3, 4, 8):
                s, e, st = before[0]
                ctx.require(trace == [("r",)] and out == "returned" and tuple(ret) == (MachineState(s), e, st)
                            and ret[0] is MachineState(s) and ret[1] is e,
                            who + "get_state does not return the reported state, error flag and status", c,
                            show(trace, out) + f" -> {ret}", "get")
    return " ; ".join(f"{k}: " + show(trace, out) for k, _o, trace, out, _r, _b in res)


def gen_hist(rng):
    n = rng.choice([1, 1, 1, 2, 2, 3])
    scripts = [[] for _ in range(n)]
    # the simulated terminals: actual state and error flag, changing on their own between the uses
    st = [[rng.choice([1, 2, 4, 8]), rng.random() < 0.2] for _ in range(n)]
    ops = []
    adversarial = rng.random() < 0.15
    for _ in range(rng.choice([2, 2, 3, 3, 4, 5, 7])):
        k = rng.randrange(n)
        cur, err = st[k]
        x = rng.random()
        if x < 0.7:
            target = rng.choice([2, 4, 8])
            ops.append({"t": k, "op": "to", "target": target})
            rs = scripts[k]
            rs.append([cur, err, rng.randrange(0, 60)])
            if err:
                cur, err = 1, False
            errat = rng.randrange(0, 8) if rng.random() < 0.2 else None
            i = 0
            for s in (2, 4, 8):
                if s <= cur or err:
                    continue
                if cur >= target:
                    break
                for _ in range(rng.randrange(0, 3)):
                    rs.append([cur, i == errat, 0]); err = err or i == errat; i += 1
                    if err:
                        break
                if err:
                    break
                rs.append([s, i == errat, 0]); err = err or i == errat; i += 1
                cur = s
        elif x < 0.85:
            v = rng.choice([1, 2, 4, 8])
            ops.append({"t": k, "op": "set", "state": v})
            if not err:
                cur = v
        else:
            ops.append({"t": k, "op": "get"})
            scripts[k].append([cur, err, rng.randrange(0, 60)])
        # the terminal changes its state on its own (watchdog, sync manager error, power cycle) - or not
        y = rng.random()
        if y < 0.45:
            lower = [s for s in (1, 2, 4, 8) if s <= cur]
            cur, err = rng.choice(lower), rng.random() < 0.5
        elif y < 0.55:
            cur, err = rng.choice([1, 2, 4, 8]), rng.random() < 0.3
        st[k] = [cur, err]
    if adversarial:
        for k in range(n):
            scripts[k] = [[rng.choice([1, 2, 4, 8, 3, 0]) if rng.random() < 0.1 else rng.choice([1, 2, 4, 8]),
                           rng.random() < 0.12, rng.randrange(0, 3)] for _ in range(rng.randrange(0, 14))]
            if scripts[k] and scripts[k][0][0] in (0, 3):
                scripts[k][0][0] = 1
    elif rng.random() < 0.1:
        k = rng.randrange(n)
        scripts[k] = scripts[k][:rng.randrange(0, len(scripts[k]) + 1)]     # script ends early: blocked
    return {"hist": 1, "scripts": scripts, "ops": ops}


def gen(rng):
    target = rng.choice([2, 4, 8])
    mode = rng.random()
    rs = []
    if mode < 0.7:        # simulated conformant terminal with delays and an optional error
        start = rng.choice([1, 2, 4, 8])
        err0 = rng.random() < 0.3
        rs.append([start, err0, rng.randrange(0, 60)])
        cur = 1 if err0 else start
        errat = rng.randrange(0, 12) if rng.random() < 0.3 else None
        n = 0
        for s in (2, 4, 8):
            if s <= cur:
                continue
            if cur >= target:
                break
            for _ in range(rng.randrange(0, 4)):
                rs.append([cur, n == errat, 0]); n += 1
            rs.append([s, n == errat, 0]); n += 1
            cur = s
        if rng.random() < 0.15 and rs:
            rs = rs[:rng.randrange(0, len(rs))]   # script ends early: blocked
    else:                 # adversarial answers
        for _ in range(rng.randrange(0, 9)):
            rs.append([rng.choice([1, 2, 4, 8, 8, 4, 2, 3, 0, 5]) if rng.random() < 0.3 else rng.choice([1, 2, 4, 8]),
                       rng.random() < 0.12, rng.randrange(0, 3)])
        if rs and rs[0][0] == 3:
            rs[0][0] = 1
    return {"target": target, "responses": rs}


def run(ctx):
    cases = [gen(ctx.rng) for _ in range(ctx.n(3000, 120000))]
    # small exhaustive family: every start x target x single-poll conformant run
    for start in (1, 2, 4, 8):
        for target in (2, 4, 8):
            for e0 in (False, True):
                rs = [[start, e0, 0]] + [[s, False, 0] for s in (2, 4, 8) if s > (1 if e0 else start)]
                cases.append({"target": target, "responses": rs})
    cases += [gen_bus(ctx.rng) for _ in range(ctx.n(400, 8000))]
    cases += [gen_hist(ctx.rng) for _ in range(ctx.n(3000, 100000))]
    # small exhaustive family: start x first target x what the terminal did meanwhile x second target, same object
    for start in (1, 2, 4, 8):
        for t1 in (2, 4, 8):
            for fallen in (1, 2, 4, 8):
                for ferr in (False, True):
                    for t2 in (2, 4, 8):
                        up = lambda a, t: [[s, False, 0] for s in (2, 4, 8) if a < s <= t]
                        rs = [[start, False, 0]] + up(start, t1) + [[fallen, ferr, 5]] + up(1 if ferr else fallen, t2)
                        cases.append({"hist": 1, "scripts": [rs], "ops": [{"t": 0, "op": "to", "target": t1},
                                                                         {"t": 0, "op": "to", "target": t2}]})
    impl = []
    for c in cases:
        if "hist" in c:
            impl.append(check_hist(ctx, c))
            continue
        if "bus" in c:
            impl.append(check_bus(ctx, c))
            continue
        trace, out = run_impl(c["target"], c["responses"])
        impl.append(show(trace, out))
        ctx.case(c, nontrivial=any(e[0] == "w" for e in trace), kind=out)
        oracle(ctx, c, trace, out)
    model = ctx.drive(DRIVER, cases, "to_operational")
    if model is not None:
        for c, i, m in zip(cases, impl, model):
            ctx.agree("to_operational trace" + (" of every terminal on a shared bus" if "bus" in c else
                                                 " of every use in a history" if "hist" in c else ""), c, i, m)


def replay(ctx, case):
    if "hist" in case:
        return {"trace": check_hist(ctx, case)}
    if "bus" in case:
        return {"trace": check_bus(ctx, case)}
    trace, out = run_impl(case["target"], case["responses"])
    oracle(ctx, case, trace, out)
    return {"trace": show(trace, out)}

LEVEL_TEXT = ("Lean 4 proof over a hand-written model of to_operational: for every script of terminal answers (unbounded polls) "
              "requests are the ascending run PRE-OP,SAFE-OP,OP above the start state, never above the target, each next request "
              "directly after an error-free report of the previous state, return only at/above target (exactly the target after an "
              "acknowledged error), raise iff an error is reported while changing state. Tied to /repo by exact trace correspondence "
              "of the real coroutine under a scripted bus and by regenerating MachineState order/values into the proofs. For any number of "
              "terminals driven concurrently over one bus, under every schedule and with any other traffic, each terminal sees exactly its "
              "single-terminal trace (sys_projection / sys_independent / sys_complete), checked on the real send loop with shared frames. "
              "For every history of uses of any number of Terminal objects (to_operational, set_state, get_state, in any order) each use is "
              "the fresh use on what its terminal reports from then on - no memory of earlier uses, no influence of other objects "
              "(hist1_use / hist_projection / hist_independent / hist_call_spec), checked on real Terminal objects kept alive.")
LEVEL_NOTE = ("trusted: Lean kernel + propext/Classical.choice/Quot.sound; hand transcription Ebv.AlDriver validated (not verified) by "
              "differential traces on generated scripts; ec.roundtrip is the only bus access; answers with a nibble that is no state and "
              "BOOTSTRAP as start state are outside the property")
TECHNIQUE = "Lean 4 induction over answer lists (trace grammar refinement) + differential trace correspondence"
DESIGN_REF = "§4 C14"
