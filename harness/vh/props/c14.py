"""C14 — state changes walk the EtherCAT state machine in order.
Real `Terminal.to_operational` against a scripted AL-status responder, compared
with the Lean model `Ebv.AlDriver.toOperational`; the property's own trace
predicates are evaluated on the implementation's trace."""
import asyncio

ID = "C14"
LEAN_MODULES = ["Ebv.Props.C14"]
MODEL_MODULES = ["Ebv.Model.AlDriver"]
DRIVER = "Drivers/C14.lean"
THEOREMS = [
    "Ebv.C14.ack_first", "Ebv.C14.writes_ascending", "Ebv.C14.never_above_target",
    "Ebv.C14.write_after_report", "Ebv.C14.returns_only_when_reached",
    "Ebv.C14.returns_target_after_ack", "Ebv.C14.raises_on_error", "Ebv.C14.never_falls_off",
]
TRUSTED = ["hand-written model Ebv.AlDriver of Terminal.to_operational/get_state, tied by trace correspondence",
           "harness/vh/props/c14.py scripted responder; MachineState order and values regenerated into Ebv.Generated.Consts"]
ASSUMPTIONS = ["ec.roundtrip is the only way to_operational touches the bus (it is replaced by a scripted responder)",
               "terminal answers are arbitrary (state nibble, error bit, status) sequences; BOOTSTRAP never the start state"]
RULE = ("scripts = target in {2,4,8} x list of (state,error,status) answers; generated from a simulated AL state machine "
        "(0..k polls per transition, error injected at a random poll) and adversarial random answers; non-trivial = at least one write")


class Blocked(Exception):
    pass


def run_impl(target, responses):
    from ebpfcat.ethercat import Terminal, MachineState, ECCmd, EtherCatError
    trace = []
    it = iter(responses)

    class EC:
        async def roundtrip(self, cmd, pos, offset, *args, data=None, idx=0):
            if cmd is ECCmd.FPWR and offset == 0x120:
                assert args[0] == "H"
                trace.append(("w", args[1]))
                return ()
            if cmd is ECCmd.FPRD and offset == 0x130:
                assert args == ("H2xH",)
                trace.append(("r",))
                try:
                    s, e, st = next(it)
                except StopIteration:
                    raise Blocked()
                return (s | (0x10 if e else 0), st)
            raise AssertionError(f"unexpected bus access {cmd} {offset:x}")

    t = Terminal(EC())
    t.position = 7
    try:
        ret = asyncio.run(t.to_operational(MachineState(target)))
        out = "none" if ret is None else "returned"
    except Blocked:
        out = "blocked"
    except EtherCatError:
        out = "ethercat-error"
    except ValueError:
        out = "value-error"
    return trace, out


def show(trace, out):
    return " ".join("r" if e[0] == "r" else f"w{e[1]}" for e in trace) + " | " + out


def oracle(ctx, case, trace, out):
    """the property text, evaluated on the implementation's trace"""
    target, rs = case["target"], case["responses"]
    if not rs or rs[0][0] not in (1, 2, 4, 8) or out == "value-error":
        return    # start state BOOTSTRAP / a nibble that is no state: outside the property's domain
    seq = [1, 2, 4, 8]
    ws = [e[1] for e in trace if e[0] == "w"]
    acked = rs[0][1]
    if acked:
        ctx.require(trace[:2] == [("r",), ("w", 0x11)], "error not acknowledged first", case, show(trace, out), "ack")
        ws = ws[1:] if ws[:1] == [0x11] else ws
    start = 1 if acked else rs[0][0]
    expect = [s for s in seq if s > start and s <= target]
    ctx.require(ws == expect[:len(ws)], "requests not the ascending run above the start state / above target",
                case, show(trace, out), "order")
    # each write after the first plain one is preceded by a read answered with the previous state
    ri = 0
    prev = None
    lastread = None
    for e in trace:
        if e[0] == "r":
            lastread = rs[ri] if ri < len(rs) else None
            ri += 1
        elif e[1] != 0x11 or not acked or prev is not None or lastread is None:
            if prev is not None:
                ctx.require(lastread is not None and lastread[0] == prev and not lastread[1],
                            "next state requested before the previous one was reported", case, show(trace, out), "report")
            prev = e[1]
    consumed = rs[:ri]
    if out == "returned":
        last = consumed[-1]
        if len(consumed) == 1 and acked:
            ctx.require(False, "returned right after the acknowledge", case, show(trace, out), "return")
        else:
            ctx.require(last[0] >= target and (not acked or last[0] == target), "returned before the target was reported",
                        case, show(trace, out), "return")
    if any(r[1] for r in consumed[1:]):
        ctx.require(out == "ethercat-error", "error during the state change not raised", case, show(trace, out), "raise")
    if out == "ethercat-error":
        ctx.require(any(r[1] for r in consumed[1:]), "raised without a reported error", case, show(trace, out), "raise")


def gen(rng):
    target = rng.choice([2, 4, 8])
    mode = rng.random()
    rs = []
    if mode < 0.7:        # simulated conformant terminal with delays and an optional error
        start = rng.choice([1, 2, 4, 8])
        err0 = rng.random() < 0.3
        rs.append([start, err0, rng.randrange(0, 60)])
        cur = 1 if err0 else start
        errat = rng.randrange(0, 12) if rng.random() < 0.3 else None
        n = 0
        for s in (2, 4, 8):
            if s <= cur:
                continue
            if cur >= target:
                break
            for _ in range(rng.randrange(0, 4)):
                rs.append([cur, n == errat, 0]); n += 1
            rs.append([s, n == errat, 0]); n += 1
            cur = s
        if rng.random() < 0.15 and rs:
            rs = rs[:rng.randrange(0, len(rs))]   # script ends early: blocked
    else:                 # adversarial answers
        for _ in range(rng.randrange(0, 9)):
            rs.append([rng.choice([1, 2, 4, 8, 8, 4, 2, 3, 0, 5]) if rng.random() < 0.3 else rng.choice([1, 2, 4, 8]),
                       rng.random() < 0.12, rng.randrange(0, 3)])
        if rs and rs[0][0] == 3:
            rs[0][0] = 1
    return {"target": target, "responses": rs}


def run(ctx):
    cases = [gen(ctx.rng) for _ in range(ctx.n(3000, 120000))]
    # small exhaustive family: every start x target x single-poll conformant run
    for start in (1, 2, 4, 8):
        for target in (2, 4, 8):
            for e0 in (False, True):
                rs = [[start, e0, 0]] + [[s, False, 0] for s in (2, 4, 8) if s > (1 if e0 else start)]
                cases.append({"target": target, "responses": rs})
    impl = []
    for c in cases:
        trace, out = run_impl(c["target"], c["responses"])
        impl.append(show(trace, out))
        ctx.case(c, nontrivial=any(e[0] == "w" for e in trace), kind=out)
        oracle(ctx, c, trace, out)
    model = ctx.drive(DRIVER, cases, "to_operational")
    if model is not None:
        for c, i, m in zip(cases, impl, model):
            ctx.agree("to_operational trace", c, i, m)


def replay(ctx, case):
    trace, out = run_impl(case["target"], case["responses"])
    oracle(ctx, case, trace, out)
    return {"trace": show(trace, out)}

LEVEL_TEXT = ("Lean 4 proof over a hand-written model of to_operational: for every script of terminal answers (unbounded polls) "
              "requests are the ascending run PRE-OP,SAFE-OP,OP above the start state, never above the target, each next request "
              "directly after an error-free report of the previous state, return only at/above target (exactly the target after an "
              "acknowledged error), raise iff an error is reported while changing state. Tied to /repo by exact trace correspondence "
              "of the real coroutine under a scripted bus and by regenerating MachineState order/values into the proofs.")
LEVEL_NOTE = ("trusted: Lean kernel + propext/Classical.choice/Quot.sound; hand transcription Ebv.AlDriver validated (not verified) by "
              "differential traces on generated scripts; ec.roundtrip is the only bus access; answers with a nibble that is no state and "
              "BOOTSTRAP as start state are outside the property")
TECHNIQUE = "Lean 4 induction over answer lists (trace grammar refinement) + differential trace correspondence"
DESIGN_REF = "§4 C14"
