"""C09 — hash-map variables and Dict entries agree between Python and program.

Random declarations (local variables before the Dict, hash-map variables with formats and
defaults, packed Key/Value structures) become a real EBPF subclass whose generated program is
a dispatcher over program-side operations (`table.key.x = …; table.update()`,
`with table.lookup() as (value, Else)`, hash-variable reads/writes).  The program is "loaded"
into the emulated kernel of C10 (`EmuKernel`: the bytes handed to BPF_PROG_LOAD are decoded and
executed by the independent interpreter with a complete hash-map helper model over the *same*
emulated maps the Python side reaches through `bpf()`).  Operation sequences are issued from
both sides; the property oracle is a shadow dictionary of member tuples (values written on one
side are read unchanged on the other, absent keys take the Else branch, defaults after load);
every observable is compared with the Lean fold `Ebv.HashVars.cRun / hvStep`."""
import struct

from . import c10

ID = "C09"
LEAN_MODULES = ["Ebv.Props.C09"]
MODEL_MODULES = ["Ebv.Model.HashVars"]
DRIVER = "Drivers/C09.lean"
THEOREMS = [
    "Ebv.C09.members_disjoint", "Ebv.C09.member_py_prog_same_bytes", "Ebv.C09.py_prog_same_image",
    "Ebv.C09.dict_images_disjoint", "Ebv.C09.struct_roundtrip", "Ebv.C09.encStruct_inj",
    "Ebv.C09.key_ne", "Ebv.C09.hashvar_cells_independent", "Ebv.C09.hashvar_default",
    "Ebv.C09.hashvar_py_to_prog", "Ebv.C09.hashvar_prog_to_py", "Ebv.C09.hashvar_fixed_roundtrip",
    "Ebv.C09.refinement", "Ebv.C09.pop_deletes", "Ebv.C09.lookup_absent_else", "Ebv.C09.lookup_present_found",
    "Ebv.C09.sysStep_other", "Ebv.C09.instances_independent", "Ebv.C09.restart_fresh", "Ebv.C09.sys_refinement",
    "Ebv.C09.modObj_other", "Ebv.C09.pStep_vals_prefix", "Ebv.C09.pStep_keys_prefix", "Ebv.C09.kept_stable", "Ebv.C09.kept_keys_stable",
    "Ebv.C09.modVal_only_target", "Ebv.C09.kept_ops_leave_maps", "Ebv.C09.pStep_sys", "Ebv.C09.kept_is_reported",
    "Ebv.C09.kept_keys_reported", "Ebv.C09.store_is_set",
]
TRUSTED = ["hand-written model Ebv.HashVars (Structure/Member layout, Dict stack offsets, both sides' member access, TheDict operations, hash "
           "variables), tied by exact correspondence of every observable (offsets, outcomes, values read on either side) with the real classes and "
           "the real generated program executed in harness/vh/interp.py over the emulated maps",
           "harness/vh/props/c10.py EmuKernel (map semantics, bpf() decoding) and harness/vh/interp.py; hash-map helper semantics "
           "(lookup/update/delete, flags, E2BIG when full) modelled, validated against the real kernel in the thorough tier where bpf() works"]
ASSUMPTIONS = ["program-side operands fit the member / variable format (a store truncates otherwise: C01/C07); Python-side values of any size",
               "member formats b B h H i I q Q (Member('x') cannot be packed from Python at all); hash variable formats the same plus x",
               "Dict(lru=False); flags ANY/NOEXIST/EXIST; at most 255 hash variables (pack('B', ordinal))",
               "temporaries of the generated code stay below the Dict's key/value images on the stack (C04)",
               "several programs: instances of the declaring class and of a derived class (with inherited hash variables)",
               "a member assignment on a Python-side Structure that raises struct.error leaves the member zero (CPython's pack_into clears the "
               "target before converting): modelled as observed; the oracle takes the object as it then is"]
RULE = ("declarations: 0..3 local variables before the Dict, 0..5 hash variables (formats bBhHiIqQ, 8% fixed-point x with |scaled value| < 2^45; defaults at the format's edges), Key/Value with "
        "1..5 packed members (5% deliberately unpacked -> AssembleError), capacity 1..6; 4..30 operations from both sides over a pool of 1..5 keys "
        "(python set/get/del/pop/iter, program update with ANY/NOEXIST/EXIST, lookup, modify-in-place, constant insert, hash variable get/set/add from "
        "both sides, reload); 40% of the cases spread the operations over 2..3 live programs of the same class (second instances created and "
        "loaded in the middle of the sequence, 0..2 restarts of any program with the old object kept alive, shared key pool; without hash "
        "variables a quarter of the extra programs are instances of a derived class); Python keeps every object a table hands out (the Values of "
        "table[k] and pop(k), all keys of list(table)) over the rest of the sequence: they are looked at again in the middle and at the end "
        "(recheck), members of kept objects are assigned (5% values that do not fit) and kept values are stored again under some key of some "
        "program; non-trivial = a value crossed from one side to the other")

FIXED_BASE = 100000
SIGNED = "bhiqx"


def rng_val(rng, f):
    if f == "x":       # scaled fixed-point values small enough for value/FIXED_BASE to be an exact round trip in a float
        return rng.choice([0, 1, -1, 150000, -250000, rng.randint(-(1 << 45), 1 << 45)])
    n = 8 if f == "x" else struct.calcsize(f)
    lo, hi = (-(1 << (8 * n - 1)), (1 << (8 * n - 1)) - 1) if f in SIGNED else (0, (1 << (8 * n)) - 1)
    return rng.choice([lo, hi, 0, 1, -1 if lo < 0 else 2, rng.randint(lo, hi), rng.randint(lo, hi)])


def fits(f, v):
    n = 8 if f == "x" else struct.calcsize(f)
    lo, hi = (-(1 << (8 * n - 1)), (1 << (8 * n - 1)) - 1) if f in SIGNED else (0, (1 << (8 * n)) - 1)
    return lo <= v <= hi


def wrap(f, v):
    n = 8 if f == "x" else struct.calcsize(f)
    v &= (1 << (8 * n)) - 1
    return v - (1 << (8 * n)) if f in SIGNED and v >> (8 * n - 1) else v


def gen(rng):
    case = {"locals": [rng.choice("BHIQbhiq") for _ in range(rng.choice([0, 0, 1, 2, 3]))]}
    vs = []
    for _ in range(rng.choice([0, 1, 2, 3, 5])):
        f = "x" if rng.random() < 0.08 else rng.choice(c10.FMTS)
        if f == "x":
            fl = rng.random() < 0.3
            vs.append([f, rng.choice([0, 0, 150000, -250000]) if fl else rng.choice([0, 0, 0, 3]), fl])
        else:
            vs.append([f, rng_val(rng, f), False])
    case["vars"] = vs
    if rng.random() < 0.05:
        case["key"] = [rng.choice(c10.FMTS) for _ in range(rng.randint(2, 4))]
        case["value"] = [rng.choice(c10.FMTS) for _ in range(rng.randint(1, 3))]
    else:
        case["key"], case["value"] = c10.gen_packed(rng, 1, 5), c10.gen_packed(rng, 1, 5)
    case["size"] = rng.choice([1, 2, 3, 4, 6])
    key, value = case["key"], case["value"]
    pool = [[rng_val(rng, f) for f in key] for _ in range(rng.randint(1, 5))]
    case["const"] = {"k": rng.choice(pool) if rng.random() < 0.5 else [rng.choice([0, 1, -1 if f in SIGNED else 5, 1000 if fits(f, 1000) else 7]) for f in key],
                     "v": [rng_val(rng, f) if rng.random() < 0.5 else rng.choice([0, 1, 100 if fits(f, 100) else 3]) for f in value]}
    ops = []
    for _ in range(rng.randint(4, 30)):
        r = rng.random()
        k = list(rng.choice(pool))
        if vs and r < 0.3:
            i = rng.randrange(len(vs))
            f = vs[i][0]
            kind = rng.choice(["hv_py_get", "hv_py_set", "hv_pr_get", "hv_pr_set", "hv_pr_add", "hv_pr_get", "hv_py_get", "hv_load"])
            if kind == "hv_load":
                ops.append([kind] if rng.random() < 0.3 else ["hv_py_get", i])
            elif kind == "hv_py_set":
                if f == "x":
                    fl = rng.random() < 0.4
                    ops.append([kind, i, rng.choice([150000, -50000, 0]) if fl else rng.choice([0, 3, -2]), fl])
                else:
                    v = rng_val(rng, f)
                    if rng.random() < 0.1:
                        v = rng.choice([v + (1 << 8 * struct.calcsize(f)), -1, 1 << 64, -(1 << 63) - 1, (1 << 63)])
                    ops.append([kind, i, v, False])
            elif kind == "hv_pr_set":
                ops.append([kind, i, rng_val(rng, f)])
            elif kind == "hv_pr_add":
                ops.append([kind, i, rng.choice([1, -1, 200, 7, -1000])])
            else:
                ops.append([kind, i])
            continue
        kind = rng.choice(["py_set", "py_set", "py_get", "py_get", "py_del", "py_pop", "py_iter", "pr_update", "pr_update", "pr_lookup",
                           "pr_lookup", "pr_modify", "pr_const", "recheck", "py_mod", "py_store"])
        if kind == "recheck":          # Python looks again at every object it got from the table so far
            ops.append([kind])
            continue
        if kind == "py_mod":           # ... changes a member of one of them (object number modulo how many there are)
            side = rng.choice("vvk")
            fs = value if side == "v" else key
            m = rng.randrange(len(fs))
            x = rng_val(rng, fs[m])
            if rng.random() < 0.05:
                x += 1 << (8 * struct.calcsize(fs[m]))
            ops.append([kind, side, rng.randrange(6), m, x])
            continue
        if kind == "py_store":         # ... or stores a value object it kept under some key
            ops.append([kind, k, rng.randrange(6)])
            continue
        if rng.random() < 0.04 and kind.startswith("py"):
            j = rng.randrange(len(key))
            k[j] = k[j] + (1 << (8 * struct.calcsize(key[j])))          # does not fit: struct.error
        v = [rng_val(rng, f) for f in value]
        if kind == "py_set":
            if rng.random() < 0.04:
                j = rng.randrange(len(value))
                v[j] = -1 - abs(v[j]) if value[j] not in SIGNED else v[j] + (1 << (8 * struct.calcsize(value[j])))
            ops.append([kind, k, v])
        elif kind == "pr_update":
            ops.append([kind, k, v, rng.choice([0, 0, 0, 1, 2])])
        elif kind == "pr_modify":
            ops.append([kind, k, v])
        elif kind in ("py_iter", "pr_const"):
            ops.append([kind])
        else:
            ops.append([kind, k])
    case["ops"] = (several(rng, ops, bool(vs)) if rng.random() < 0.4 else ops) + [["recheck"]]
    return case


def several(rng, ops, has_vars):
    """spread the operations over 2..3 live programs of the same class: `["new", j]` creates and loads program j (a
    second time = the program is restarted; the old object stays alive), `["on", j, op]` is `op` on program j (program 0:
    the bare op).  The key pool is shared, so an entry or variable of one program showing up in another is visible."""
    n = rng.choice([2, 2, 3])
    who = [rng.randrange(n) if rng.random() < 0.8 else 0 for _ in ops]
    out = [o if j == 0 else ["on", j, o] for o, j in zip(ops, who)]
    for j in range(1, n):
        first = next((i for i, o in enumerate(out) if o[0] == "on" and o[1] == j), len(out))
        # a quarter of the further programs are instances of a derived class (hash variables inherited from the base class:
        # HashMap.load used to raise KeyError for them, repaired in /repo, fixed entry C09-hashmap-in-base)
        new = ["new", j, "sub"] if rng.random() < 0.25 else ["new", j]
        out.insert(rng.randint(0, first), new)
    for _ in range(rng.choice([0, 0, 1, 2])):      # restarts, program 0 included
        out.insert(rng.randint(0, len(out)), ["new", rng.randrange(n)])
    seen, ok = {0}, []
    for o in out:                                   # a restart inserted before the creation is the creation
        if o[0] == "on" and o[1] not in seen:
            ok.append(["new", o[1]])
            seen.add(o[1])
        if o[0] == "new":
            seen.add(o[1])
        ok.append(o)
    return ok


# ---- the real classes ---------------------------------------------------------------
def build(case):
    """the EBPF subclass of a case; its program dispatches on the array-map variable `sel`"""
    from ebpfcat.ebpf import EBPF, LocalVar
    from ebpfcat.arraymap import ArrayMap
    from ebpfcat.hashmap import HashMap, Dict
    from ebpfcat.bpf import UpdateFlags
    key, value, vs = case["key"], case["value"], case["vars"]
    ns = {}
    for i, f in enumerate(case["locals"]):
        ns[f"lv{i}"] = LocalVar(f)
    Key, Value = c10.make_structure("Key", key), c10.make_structure("Value", value)
    ns["tbl"] = Dict(Key, Value, size=case["size"])
    if vs:
        hm = ns["hmap"] = HashMap()
        for i, (f, d, fl) in enumerate(vs):
            ns[f"hv{i}"] = hm.globalVar(f, d / FIXED_BASE if fl else d)
    am = ns["amap"] = ArrayMap()
    ns["sel"], ns["fnd"], ns["ret"] = am.globalVar("I"), am.globalVar("I"), am.globalVar("q")
    for j in range(len(key)):
        ns[f"ik{j}"] = am.globalVar("q")
    for j, f in enumerate(value):
        ns[f"iv{j}"] = am.globalVar("q")
        ns[f"ov{j}"] = am.globalVar("q" if f in SIGNED else "Q")
    for i, (f, d, fl) in enumerate(vs):
        g = "x" if f == "x" else ("q" if f in SIGNED else "Q")
        ns[f"ih{i}"], ns[f"oh{i}"] = am.globalVar(g), am.globalVar(g)
    ck, cv = case["const"]["k"], case["const"]["v"]

    def setkey(self):
        for j in range(len(key)):
            setattr(self.tbl.key, f"m{j}", getattr(self, f"ik{j}"))

    def program(self):
        for fl in (0, 1, 2):
            with self.sel == 1 + fl:
                setkey(self)
                for j in range(len(value)):
                    setattr(self.tbl.value, f"m{j}", getattr(self, f"iv{j}"))
                self.tbl.update(UpdateFlags(fl))
                self.ret = self.r0
        with self.sel == 4:
            setkey(self)
            with self.tbl.lookup() as (val, Else):
                self.fnd = 1
                for j in range(len(value)):
                    setattr(self, f"ov{j}", getattr(val, f"m{j}"))
            with Else:
                self.fnd = 2
        with self.sel == 5:
            setkey(self)
            with self.tbl.lookup() as (val, Else):
                self.fnd = 1
                for j in range(len(value)):
                    setattr(self, f"ov{j}", getattr(val, f"m{j}"))
                for j in range(len(value)):
                    setattr(val, f"m{j}", getattr(self, f"iv{j}"))
            with Else:
                self.fnd = 2
        with self.sel == 6:
            for j in range(len(key)):
                setattr(self.tbl.key, f"m{j}", ck[j])
            for j in range(len(value)):
                setattr(self.tbl.value, f"m{j}", cv[j])
            self.tbl.update()
            self.ret = self.r0
        for i in range(len(vs)):
            with self.sel == 10 + 3 * i:
                setattr(self, f"oh{i}", getattr(self, f"hv{i}"))
                self.fnd = 1
            with self.sel == 11 + 3 * i:
                setattr(self, f"hv{i}", getattr(self, f"ih{i}"))
                self.fnd = 1
            with self.sel == 12 + 3 * i:
                setattr(self, f"hv{i}", getattr(self, f"hv{i}") + getattr(self, f"ih{i}"))
                self.fnd = 1
        self.r0 = 2
        self.exit()
    ns["program"] = program
    return type("Prog", (EBPF,), ns), Key, Value


class Impl:
    """one case on the real code under an emulated kernel (or, for validation, the real one)"""

    def __init__(self, case, K=None):
        from ebpfcat.bpf import ProgType
        self.case, self.K, self.real = case, K, K is None
        self.cls, self.Key, self.Value = build(case)
        self.e = self.cls(ProgType.XDP, "GPL")
        self.insts, self.old, self.derived = {0: self.e}, [], None
        self.crossed = False
        self.vals, self.keys = [], []          # the objects the table handed to Python, kept alive

    def new(self, j, derived=False):
        """create and load program j (again); the previous object of that number stays alive"""
        from ebpfcat.bpf import ProgType
        if derived and self.derived is None:
            self.derived = type("Derived", (self.cls,), {})
        if j in self.insts:
            self.old.append(self.insts[j])
        try:
            e = self.insts[j] = (self.derived if derived else self.cls)(ProgType.XDP, "GPL")
            e.load()
            return "new ok"
        except Exception as ex:
            return "new " + c10.exc_name(ex)

    def on(self, j):
        self.e = self.insts[j]

    def layout(self):
        d = self.cls.__dict__["tbl"]
        ko = ",".join(str(self.Key.__dict__[f"m{j}"].relative_addr) for j in range(len(self.case["key"])))
        vo = ",".join(str(self.Value.__dict__[f"m{j}"].relative_addr) for j in range(len(self.case["value"])))
        return f"key@{d.key_offset} value@{d.value_offset} K={self.Key.stack} V={self.Value.stack} koff={ko} voff={vo}"

    def show_val(self, v):
        return show([getattr(v, f"m{j}") for j in range(len(self.case["value"]))])

    def show_key(self, k):
        return show([getattr(k, f"m{j}") for j in range(len(self.case["key"]))])

    def raw(self, name):
        """the 8 bytes of an array-map variable, as a signed integer (no float conversion for x)"""
        return struct.unpack_from("<q", self.e.__dict__["amap"], self.e.__dict__[name])[0]

    def put(self, name, v):
        """set a 64-bit input variable through the real descriptor (raw bytes for the fixed-point ones)"""
        f = self.cls.__dict__[name].fmt
        if f == "x":
            struct.pack_into("<Q", self.e.__dict__["amap"], self.e.__dict__[name], v & (2 ** 64 - 1))
        else:
            setattr(self.e, name, wrap(f, v))

    def run_prog(self, sel):
        e = self.e
        e.sel = sel
        e.fnd = 0
        if self.real:
            from ctypes import create_string_buffer
            from ebpfcat.bpf import bpf, addrof
            din, dout = create_string_buffer(64), create_string_buffer(128)
            bpf(10, "IIIIQQII20x", e.file_descriptor, 0, len(din), len(dout), addrof(din), addrof(dout), 1, 0)
            return None
        r0, mc = self.K.run_prog(e.file_descriptor)
        return r0 if isinstance(r0, str) else None

    def op(self, o):
        """returns the canonical outcome of one operation"""
        e, case = self.e, self.case
        kind = o[0]
        try:
            if kind == "py_set":
                e.tbl[c10.fill(self.Key(), o[1])] = c10.fill(self.Value(), o[2])
                return "ok"
            if kind == "py_get":
                v = e.tbl[c10.fill(self.Key(), o[1])]
                self.vals.append(v)
                return "value " + self.show_val(v)
            if kind == "py_del":
                del e.tbl[c10.fill(self.Key(), o[1])]
                return "ok"
            if kind == "py_pop":
                v = e.tbl.pop(c10.fill(self.Key(), o[1]))
                self.vals.append(v)
                return "value " + self.show_val(v)
            if kind == "py_iter":
                ks = list(e.tbl)               # all keys first, then they are looked at
                self.keys.extend(ks)
                return "keys " + " ".join(self.show_key(k) for k in ks)
            if kind == "recheck":
                return "held V:" + ";".join(self.show_val(v) for v in self.vals) + " K:" + ";".join(self.show_key(k) for k in self.keys)
            if kind == "py_mod":
                objs = self.vals if o[1] == "v" else self.keys
                if not objs:
                    return "none"
                setattr(objs[o[2] % len(objs)], f"m{o[3]}", o[4])
                return "ok"
            if kind == "py_store":
                if not self.vals:
                    return "none"
                e.tbl[c10.fill(self.Key(), o[1])] = self.vals[o[2] % len(self.vals)]
                return "ok"
            if kind == "hv_load":
                self.cls.__dict__["hmap"].load(e)
                return "ok"
            if kind == "hv_py_get":
                v = getattr(e, f"hv{o[1]}")
                return f"value {round(v * FIXED_BASE) if case['vars'][o[1]][0] == 'x' else v}"
            if kind == "hv_py_set":
                setattr(e, f"hv{o[1]}", o[2] / FIXED_BASE if o[3] else o[2])
                return "ok"
        except Exception as ex:
            return {"key-error": "key-error", "struct-error": "struct-error", "runtime-error": "runtime-error",
                    "index-error": "full" if kind in ("py_set", "py_store") else "index-error"}.get(c10.exc_name(ex), c10.exc_name(ex))
        # program side
        nk, nv = len(case["key"]), len(case["value"])
        if kind in ("pr_update", "pr_lookup", "pr_modify"):
            for j in range(nk):
                self.put(f"ik{j}", o[1][j])
        if kind in ("pr_update", "pr_modify"):
            for j in range(nv):
                self.put(f"iv{j}", o[2][j])
        if kind in ("pr_update", "pr_const"):
            e.ret = 99
            f = self.run_prog(6 if kind == "pr_const" else 1 + o[3])
            return f or f"r0 {e.ret}"
        if kind in ("pr_lookup", "pr_modify"):
            f = self.run_prog(4 if kind == "pr_lookup" else 5)
            if f:
                return f
            if e.fnd == 1:
                return "found " + show([getattr(e, f"ov{j}") for j in range(nv)])
            return "else" if e.fnd == 2 else f"fnd={e.fnd}"
        i = o[1]
        if kind == "hv_pr_get":
            f = self.run_prog(10 + 3 * i)
            if f or e.fnd != 1:
                return f or "exit"
            return f"value {self.raw(f'oh{i}') if case['vars'][i][0] == 'x' else getattr(e, f'oh{i}')}"
        if kind in ("hv_pr_set", "hv_pr_add"):
            self.put(f"ih{i}", o[2])
            f = self.run_prog((11 if kind == "hv_pr_set" else 12) + 3 * i)
            return f or ("ok" if e.fnd == 1 else "exit")
        raise AssertionError(kind)


def show(vals):
    return "(" + ",".join(str(v) for v in vals) + ")"


# ---- the property oracle: a shadow of member tuples, from the property text only ---------
class Shadow:
    def __init__(self, case):
        self.case = case
        self.d = {}
        self.hv = [None] * len(case["vars"])       # None: not loaded / not determined by the property
        self.dead = False                          # after a failure that may desynchronise the shadow the Dict part is not judged
        self.tainted = set()                       # hash variables no longer judged after a failure on them

    def load(self):
        for i, (f, d, fl) in enumerate(self.case["vars"]):
            self.hv[i] = d if f == "x" and fl else (d * FIXED_BASE if f == "x" else (d if fits(f, d) else None))

    def expect(self, imp, o):
        """(expected outcome or None = not judged, class of a failure)"""
        case, kind = self.case, o[0]
        key, value = case["key"], case["value"]
        if kind.startswith("py_") and kind != "py_iter":
            k = tuple(o[1])
            if not all(fits(f, x) for f, x in zip(key, k)):
                return "struct-error", None
        if kind == "py_set":
            v = tuple(o[2])
            if not all(fits(f, x) for f, x in zip(value, v)):
                return "struct-error", None
            if k not in self.d and len(self.d) >= case["size"]:
                return "full", None
            self.d[k] = v
            return "ok", None
        if kind == "py_get":
            return ("value " + show(self.d[k]) if k in self.d else "key-error"), None
        if kind == "py_del":
            return ("ok" if self.d.pop(k, None) is not None else "key-error"), None
        if kind == "py_pop":
            v = self.d.pop(k, None)
            return ("value " + show(v) if v is not None else "key-error"), None
        if kind == "py_iter":
            return ("set", set(self.d)), None
        if kind in ("pr_update", "pr_const"):
            k, v, fl = (tuple(case["const"]["k"]), tuple(case["const"]["v"]), 0) if kind == "pr_const" else (tuple(o[1]), tuple(o[2]), o[3])
            if (fl == 1 and k in self.d) or (fl == 2 and k not in self.d) or (k not in self.d and len(self.d) >= case["size"]):
                return "r0 fail", None
            self.d[k] = v
            return "r0 0", None
        if kind == "pr_lookup":
            k = tuple(o[1])
            return ("found " + show(self.d[k]) if k in self.d else "else"), None
        if kind == "pr_modify":
            k = tuple(o[1])
            if k not in self.d:
                return "else", None
            old, self.d[k] = self.d[k], tuple(o[2])
            return "found " + show(old), None
        # hash variables
        if kind == "hv_load":
            self.load()
            return "ok", None
        i = o[1]
        f = case["vars"][i][0]
        cls = None
        if kind == "hv_py_set":
            v = o[2]
            if f == "x":
                self.hv[i] = v if o[3] else v * FIXED_BASE
                return "ok", cls
            if not fits("q" if f in SIGNED else "Q", v):
                return "struct-error", None
            self.hv[i] = v if fits(f, v) else None
            return "ok", None
        if kind == "hv_pr_set":
            self.hv[i] = o[2]
            return "ok", cls
        if kind == "hv_pr_add":
            if self.hv[i] is not None:
                self.hv[i] = wrap(f, self.hv[i] + o[2])
            return "ok", cls
        if self.hv[i] is None:
            return None, cls
        return f"value {self.hv[i]}", cls


def parse_tuple(t):
    return tuple(int(x) for x in t.strip("()").split(",")) if t.strip("()") else ()


class Kept:
    """what the property says about the objects Python keeps: an object got from the table is a value of its own - it
    goes on showing the members it showed when Python got it (that they were the entry's members is judged there),
    changed only by Python's own assignments to it, whatever is done with any table in between"""

    def __init__(self, case):
        self.case, self.vals, self.keys = case, [], []

    def took(self, o, got):
        if o[0] in ("py_get", "py_pop") and got.startswith("value "):
            self.vals.append(parse_tuple(got[6:]))
        if o[0] == "py_iter" and got.startswith("keys"):
            self.keys.extend(parse_tuple(t) for t in got[5:].split())

    def expect(self, o, shadow):
        """expected outcome of an operation on kept objects"""
        if o[0] == "recheck":
            return "held V:" + ";".join(show(v) for v in self.vals) + " K:" + ";".join(show(k) for k in self.keys)
        if o[0] == "py_mod":
            objs, fs = (self.vals, self.case["value"]) if o[1] == "v" else (self.keys, self.case["key"])
            if not objs:
                return "none"
            if not fits(fs[o[3]], o[4]):      # the assignment raises; what the member holds afterwards is Python's business
                self.undetermined = (o[1], o[2] % len(objs))      # (struct.pack_into clears it): the object is looked at anew
                return "struct-error"
            n = o[2] % len(objs)
            objs[n] = objs[n][:o[3]] + (o[4],) + objs[n][o[3] + 1:]
            return "ok"
        if o[0] == "py_store":
            if not self.vals:
                return "none"
            return shadow.expect(None, ["py_set", o[1], list(self.vals[o[2] % len(self.vals)])])[0]


def judge_kept(ctx, case, imp, kept, sh, o, got, idx):
    kept.undetermined = None
    exp = kept.expect(o, sh)
    if kept.undetermined and got == exp:
        side, n = kept.undetermined
        if side == "v":
            kept.vals[n] = parse_tuple(imp.show_val(imp.vals[n]))
        else:
            kept.keys[n] = parse_tuple(imp.show_key(imp.keys[n]))
    if sh.dead and o[0] == "py_store":
        return
    if got != exp:
        if o[0] == "recheck":          # judged once: from now on the objects are taken as they are
            try:
                v, k = got[len("held V:"):].split(" K:")
                kept.vals = [parse_tuple(t) for t in v.split(";") if t]
                kept.keys = [parse_tuple(t) for t in k.split(";") if t]
            except ValueError:
                pass
        elif o[0] == "py_store":
            sh.dead = True
        what = ("an object Python got from the table no longer shows the members it was handed out with" if o[0] == "recheck"
                else f"operation {idx} {o[0]}")
        ctx.require(False, f"{what}: the property expects '{exp}'", case, got, None)


def judge(ctx, case, imp, sh, o, got, idx):
    hv = o[0].startswith("hv_")
    if (sh.dead and not hv) or (hv and len(o) > 1 and o[1] in sh.tainted):
        sh.expect(imp, o)
        return
    exp, cls = sh.expect(imp, o)
    what = None
    if exp is None:
        return
    if isinstance(exp, tuple):
        keys = got[5:].split() if got.startswith("keys") else None
        ok = keys is not None and len(keys) == len(set(keys)) and set(keys) == {show(k) for k in exp[1]}
        exp = "keys " + " ".join(sorted(show(k) for k in exp[1]))
    elif exp == "r0 fail":
        ok = got.startswith("r0 ") and got != "r0 0"
    else:
        ok = got == exp
    if ok and o[0] == "py_pop" and got.startswith("value"):
        # "an entry deleted on one side is absent on the other": observe through the library's own API
        if c10.fill(imp.Key(), o[1]) in imp.e.tbl:
            ok, what = False, "pop() returned the value but the entry is still in the map"
            got = got + " ; key still present"
    if not ok:
        if hv and len(o) > 1:
            sh.tainted.add(o[1])
        elif hv:
            sh.tainted |= set(range(len(case["vars"])))
        elif o[0] != "py_iter":
            sh.dead = True
        ctx.require(False, what or f"operation {idx} {o[0]}: the property expects '{exp}'", case, got, cls)


def run_case(ctx, case, real_kernel=False):
    """returns the list of canonical outputs (layout line first)"""
    from ebpfcat.ebpf import AssembleError
    sh = Shadow(case)
    K = None
    try:
        if real_kernel:
            imp = Impl(case)
            imp.e.load()
        else:
            K = c10.EmuKernel(4)
            with c10.emulated(K):
                imp = Impl(case, K)
                try:
                    imp.e.load()
                    lres = "ok"
                except Exception as ex:
                    lres = c10.exc_name(ex)
    except AssembleError:
        return ["asm-error"], None
    if real_kernel:
        lres = "ok"
    outs = [imp.layout() + " load=" + lres]
    sh.load()
    if lres == "asm-error":
        if ctx is not None:
            ctx.require(False, "the program with Dict update()/lookup() and hash variable access could not be generated (AssembleError)",
                        case, lres, "not-assembled")
        return outs, imp
    if ctx is not None and lres != "ok":
        sh.tainted |= set(range(len(case["vars"])))
        ctx.require(False, "load() raised", case, lres, None)
    with (c10.emulated(K) if K is not None else _null()):
        shadows = {0: sh}
        kept = Kept(case)
        for idx, o in enumerate(case["ops"]):
            if o[0] == "new":
                got = imp.new(o[1], len(o) > 2 and o[2] == "sub")
                outs.append(got)
                sh = shadows[o[1]] = Shadow(case)      # a program created (again) starts from its declarations
                sh.load()
                if ctx is not None and got != "new ok":
                    sh.tainted |= set(range(len(case["vars"])))
                    sh.dead = True
                    ctx.require(False, f"operation {idx}: creating and loading a second program of the class raised", case, got, None)
                continue
            j, o = (o[1], o[2]) if o[0] == "on" else (0, o)
            imp.on(j)
            got = imp.op(o)
            outs.append(got)
            if ctx is not None and o[0] in ("recheck", "py_mod", "py_store"):
                judge_kept(ctx, case, imp, kept, shadows[j], o, got, idx if j == 0 else f"{idx} (program {j})")
            elif ctx is not None:
                if o[0].startswith("pr_") or o[0].startswith("hv_pr"):
                    imp.crossed = True
                judge(ctx, case, imp, shadows[j], o, got, idx if j == 0 else f"{idx} (program {j})")
                kept.took(o, got)
    if K is not None and K.violation and ctx is not None:
        ctx.require(False, "buffer overrun under the emulated kernel (C10)", case, K.violation, "overrun")
    return outs, imp


class _null:
    def __enter__(self):
        return None

    def __exit__(self, *a):
        return False


def model_case(case):
    return case


def kernel_validation(ctx, cases):
    """thorough tier: the same sequences against the real kernel (validates EmuKernel + interp, never the proof)"""
    import errno
    done = same = 0
    for case in cases:
        try:
            emu, _ = run_case(None, case)
            if emu == ["asm-error"]:
                continue
            real, imp = run_case(None, case, real_kernel=True)
        except OSError as ex:
            if ex.errno in (errno.EPERM, errno.ENOSYS):
                return
            ctx.stats["kernel-validation-skipped:" + (errno.errorcode.get(ex.errno, str(ex.errno)))] += 1
            continue
        finally:
            pass
        for e in list(imp.insts.values()) + imp.old:
            try:
                e.close()
            except Exception:
                pass
        done += 1

        modk = any((o[2] if o[0] == "on" else o)[:2] == ["py_mod", "k"] for o in case["ops"])

        def norm(x):      # the kernel's iteration order is not the emulation's: keys as sets; kept keys too (which kept key a
            # `py_mod k` hits then depends on that order: the kept keys are not compared in such cases)
            if x.startswith("held V:"):
                v, k = x.split(" K:")
                return v + " K:" + ("?" if modk else ";".join(sorted(k.split(";"))))
            return " ".join(sorted(x.split()[1:])) if x.startswith("keys") else x
        if [norm(x) for x in emu] == [norm(x) for x in real]:
            same += 1
        else:
            ctx.notes.append(f"kernel validation: emulated and real kernel differ: {case} emu={emu} real={real}"[:1500])
            ctx.broken.append("emulated kernel disagrees with the real kernel")
    ctx.extra["kernel_validation"] = {"sequences_on_real_kernel": done, "agree_with_emulation": same}


KNOWN_CLASSES = ()     # classes of known findings (none left: both were fixed in /repo); only used to pick what to shrink


class _Collect:
    """stands in for ctx while a case is run: failures are forwarded (new ones after shrinking)"""

    def __init__(self):
        import collections
        self.failures, self.stats = [], collections.Counter()

    def require(self, cond, what, case, observed=None, cls=None):
        if not cond:
            self.failures.append((cls, what, observed))
        return cond


def new_failure(case):
    col = _Collect()
    try:
        run_case(col, case)
    except Exception:
        return None
    return next((f for f in col.failures if f[0] not in KNOWN_CLASSES), None)


def shrink(case):
    """drop operations (then local variables) as long as a failure outside the known classes remains"""
    ops, i, budget = list(case["ops"]), 0, 400
    while i < len(ops) and budget > 0:
        budget -= 1
        trial = dict(case, ops=ops[:i] + ops[i + 1:])
        if new_failure(trial):
            ops = trial["ops"]
        else:
            i += 1
    case = dict(case, ops=ops)
    if case["locals"] and new_failure(dict(case, locals=[])):
        case = dict(case, locals=[])
    return case


def run(ctx):
    cases = [gen(ctx.rng) for _ in range(ctx.n(2000, 40000))]
    impl = []
    shrunk = 0
    for c in cases:
        col = _Collect()
        outs, imp = run_case(col, c)
        ctx.stats.update(col.stats)
        for cls, what, observed in col.failures:
            if cls not in KNOWN_CLASSES and shrunk < 3:
                shrunk += 1
                small = shrink(c)
                f = new_failure(small)
                if f:
                    ctx.require(False, f[1], small, f[2], f[0])
                    continue
            ctx.require(False, what, c, observed, cls)
        ctx.case(c, nontrivial=bool(imp and imp.crossed), kind="asm-error" if imp is None else "case")
        for o, r in zip(c["ops"], outs[1:]):
            o = o[2] if o[0] == "on" else o
            ctx.stats[o[0] + ":" + r.split(" ")[0]] += 1
        if any(o[0] == "new" for o in c["ops"]):
            ctx.stats["several-programs"] += 1
        impl.append(" | ".join(outs))
    model = ctx.drive(DRIVER, [model_case(c) for c in cases], "dict and hash variable operations")
    if model is not None:
        for c, i, m in zip(cases, impl, model):
            ctx.agree("layout and outcomes of every operation from both sides", c, i, m)
    if not ctx.quick:
        kernel_validation(ctx, cases[:150])


def replay(ctx, case):
    col = _Collect()
    outs, imp = run_case(col, case)
    for cls, what, observed in col.failures:
        ctx.require(False, what, case, observed, cls)
    return {"outputs": outs, "failures": [{"class": cls, "what": what, "observed": observed} for cls, what, observed in col.failures]}


LEVEL_TEXT = ("Lean 4 proofs over a hand-written model: Structure members occupy pairwise disjoint ranges; Python's pack_into(fmt, data, rel) and the "
              "program's store at r10+key_offset+rel / r0+rel change the same bytes of the same image, so both sides build the same key/value byte "
              "string (induction over the member list); key and value images on the stack are disjoint; hash variables with distinct ordinals are "
              "independent 8-byte cells holding their default after load and carrying a value unchanged in both directions; every sequence of Python "
              "and program operations on a Dict (set/get/del/iteration, update with flags, lookup, modify in place) refines the abstract dictionary over "
              "member tuples with equal observations (full-strength refinement, induction over the operation list, empty-Dict iteration included; pop deletes "
              "because the regenerated command is LOOKUP_AND_DELETE), absent keys take the Else branch; fixed-point hash variables carry the scaled value "
              "in both directions. With any number of live programs (instances of one class, restarts) every program makes exactly the observations "
              "of a run of its own operations alone (instances_independent), a program created again starts with an empty Dict and default "
              "variables and changes no other program (restart_fresh), and the whole system refines one abstract dictionary per program "
              "(sys_refinement). The objects Python keeps from lookups, pops and iterations are values of their own: over any sequence of "
              "operations on any program a kept object stays the same bytes unless it is itself assigned to (kept_stable, kept_keys_stable, "
              "modVal_only_target), looking at or changing kept objects does nothing to any map (kept_ops_leave_maps), a kept object shows what the "
              "operation reported (kept_is_reported) and storing it is table[k] = the members it shows (store_is_set). "
              "Tie: exact correspondence of offsets and of every "
              "outcome with the real classes and the real generated program run in the interpreter over an emulated kernel shared with the Python side.")
LEVEL_NOTE = ("trusted: Lean kernel + standard axioms (one non-vacuity example uses decide +kernel); hand model validated by differential runs; hash-map "
              "helper semantics and the emulated kernel modelled (thorough tier validates them against the real kernel where bpf() works: real program "
              "load + BPF_PROG_TEST_RUN); program operands assumed to fit the format; fixed-point values are compared as scaled integers (|scaled| < 2^45 so "
              "that value/FIXED_BASE round-trips exactly through a float)")
TECHNIQUE = "Lean 4 induction over member lists and operation lists (refinement to an abstract finite map) + differential correspondence through the real generated program"
DESIGN_REF = "§4 C09"
