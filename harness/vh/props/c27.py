"""C27 — the Valve device enforces its safe state on timeout.
A real `Valve` object runs unmodified in slow-group mode: its TerminalVars are linked to real
`PacketVar`s over a bytearray owned by a minimal stand-in sync group, its DeviceVars fall back to
instance attributes, and `ebpfcat.devices.monotonic` is replaced by a scripted clock.  Coil,
target, error and lastGood after every event are compared with the Lean model `Ebv.Valve`; the
property text is evaluated on the observed values.  In addition 1-3 real `Valve` objects are put into ONE real
slow `SyncGroup` (real terminal classes with `PacketDesc` bits, real `SyncGroup.__init__`, `start()`, `allocate()`,
cycles through the real `update_devices`) and compared with the group model `Ebv.Valve.gtrace`; there the oracle
judges each valve by what was requested of that valve."""

ID = "C27"
LEAN_MODULES = ["Ebv.Props.C27"]
MODEL_MODULES = ["Ebv.Model.Valve"]
DRIVER = "Drivers/C27.lean"
THEOREMS = [
    "Ebv.C27.update_cases", "Ebv.C27.lastGood_is_lastConfirm", "Ebv.C27.update_after_history", "Ebv.C27.coil_follows_target",
    "Ebv.C27.timeout_goes_safe", "Ebv.C27.update_dichotomy", "Ebv.C27.no_error_before_movingTime",
    "Ebv.C27.confirms_bool", "Ebv.C27.good_eq_confirms_closed_safe", "Ebv.C27.error_sticky_until_reset",
    "Ebv.C27.error_only_by_timeout", "Ebv.C27.good_open_safe_inverted",
    # several valves in one slow sync group: every valve behaves as if it were alone
    "Ebv.C27.gstep_member", "Ebv.C27.group_independent", "Ebv.C27.group_others_untouched", "Ebv.C27.group_length",
    "Ebv.C27.group_valve_property", "Ebv.C27.group_update_dichotomy",
]
TRUSTED = ["hand-written model Ebv.Valve of Valve.update/reset, tied by exact correspondence of coil/target/error/lastGood after every event",
           "harness/vh/props/c27.py stand-in sync group (current_data + pdo_assign only) and scripted clock; real PacketVar/TerminalVar/DeviceVar code runs"]
ASSUMPTIONS = ["time is counted in ticks of 1/1024 s below 2**40 ticks, so every clock value, difference and movingTime is an exactly "
               "representable float and Python's float comparison equals the integer comparison of the model",
               "the coil is linked to a bit variable (digital output); the switches to bit variables (oracle) or byte variables (correspondence only)",
               "the clock is read through ebpfcat.devices.monotonic only; it never goes backwards",
               "for safeState=True only the error reaction is part of the property (the registered quantifier restricts the position check to the default safe state)"]
RULE = ("cases = safeState x movingTime (ticks; 0, small, class default 5 s, random) x start clock x initial coil/switch bits x event list "
        "starting with reset; events: target change (bool, sometimes other ints), switch reading, clock advance (0, 1, around movingTime, "
        "random), update, reset; non-trivial = at least one update follows the target and at least one times out; "
        "group cases = 1-3 real Valve objects in ONE real slow SyncGroup (real terminal classes with PacketDesc bits on one or two terminals, real "
        "SyncGroup.__init__/start()/allocate(), cycles through the real update_devices), different or identical safeState / movingTime, events "
        "addressed to single valves + whole-group cycles; the oracle judges every valve by what was requested of THAT valve (targets assigned to it, "
        "switch bits written for it, its resets) and the coil bit in the process image, and requires target / error of every valve to be its own")

TICK = 1024.0


class Group:
    """what PacketVar/TerminalVar/DeviceVar need from a slow sync group"""
    def __init__(self, terminal, data):
        from ebpfcat.ethercat import SyncManager
        self.current_data = data
        self.pdo_assign = {terminal: {SyncManager.IN: 2, SyncManager.OUT: 5}}


def build(case):
    from ebpfcat import devices
    from ebpfcat.ebpfcat import PacketVar
    from ebpfcat.ethercat import SyncManager
    data = bytearray(case["fill"])
    term = object()
    v = devices.Valve()
    v.sync_group = Group(term, data)
    lay = case["layout"]
    v.coil = PacketVar(term, SyncManager.OUT, lay["coil"][0], lay["coil"][1])
    if lay["bytes"]:
        v.openSwitch = PacketVar(term, SyncManager.IN, lay["open"][0], "B")
        v.closedSwitch = PacketVar(term, SyncManager.IN, lay["closed"][0], "B")
    else:
        v.openSwitch = PacketVar(term, SyncManager.IN, lay["open"][0], lay["open"][1])
        v.closedSwitch = PacketVar(term, SyncManager.IN, lay["closed"][0], lay["closed"][1])
    v.safeState = bool(case["safe"])
    mt = case["mt"]
    v.movingTime = mt // 1024 if mt % 1024 == 0 and case["mtint"] else mt / TICK
    return v, data


def set_switch(data, lay, which, value):
    pos, bit = lay[which]
    if lay["bytes"]:
        data[2 + pos] = value
    elif value:
        data[2 + pos] |= 1 << bit
    else:
        data[2 + pos] &= ~(1 << bit) & 0xff


def run_impl(case):
    """per event: dict(ev, before, after, now) with states (coil, target, error, lastGood ticks, open, closed)"""
    from ebpfcat import devices
    v, data = build(case)
    lay = case["layout"]
    now = [case["t0"]]
    calls = [0]

    def clock():
        calls[0] += 1
        return now[0] / TICK

    set_switch(data, lay, "open", case["open"])
    set_switch(data, lay, "closed", case["closed"])
    cpos, cbit = lay["coil"]
    if case["coil"]:
        data[5 + cpos] |= 1 << cbit
    else:
        data[5 + cpos] &= ~(1 << cbit) & 0xff

    def others():
        d = bytearray(data)
        d[5 + cpos] &= ~(1 << cbit) & 0xff
        return bytes(d[5:])

    def state():
        lg = getattr(v, "lastGood", None)
        return (v.coil, v.target, v.error, None if lg is None else lg * TICK, v.openSwitch, v.closedSwitch)

    steps = []
    saved = devices.monotonic
    devices.monotonic = clock
    try:
        for ev in case["events"]:
            before = state()
            out0 = others()
            calls[0] = 0
            if ev[0] == "r":
                v.reset()
            elif ev[0] == "u":
                v.update()
            elif ev[0] == "t":
                v.target = bool(ev[1]) if ev[1] < 2 else ev[1]
            elif ev[0] == "s":
                set_switch(data, lay, "open", ev[1])
                set_switch(data, lay, "closed", ev[2])
            elif ev[0] == "a":
                now[0] += ev[1]
            steps.append({"ev": ev, "before": before, "after": state(), "now": now[0],
                          "clock_reads": calls[0], "others_kept": out0 == others() or ev[0] == "s"})
    finally:
        devices.monotonic = saved
    return steps


def canon_state(st):
    coil, target, error, lg, _, _ = st
    lgs = "-" if lg is None else (str(int(lg)) if lg == int(lg) else repr(lg))
    return f"{int(coil)} {int(target)} {int(error)} {lgs}"


def show(steps):
    return " | ".join(canon_state(s["after"]) for s in steps)


# ---------------------------------------------------------------- property oracle
def oracle(ctx, case, steps):
    """histories start with reset; `confirm` = the switches show exactly the position the coil commanded"""
    safe, mt = bool(case["safe"]), case["mt"]
    bits = not case["layout"]["bytes"]
    obs = show(steps)
    last_confirm = None      # ticks: reset, or an update at which the switches confirmed
    last_reset = None
    for s in steps:
        ev, now = s["ev"], s["now"]
        coil, target, error, _, opn, cls = s["before"]
        coil2, target2, error2, _, _, _ = s["after"]
        ok = ctx.require(s["others_kept"], "an output bit other than the coil was changed", case, obs, "other-bits")
        if ev[0] == "r":
            last_confirm = last_reset = now
            ok &= ctx.require(error2 is False and coil2 == coil and target2 == target and type(target2) is type(target),
                              "reset did not just clear the error", case, obs, "reset")
        elif ev[0] == "u":
            follows = coil2 == bool(target) and target2 == target and bool(error2) == bool(error)
            safed = error2 is True and coil2 is safe and target2 is safe
            ok &= ctx.require(follows or safed, "update neither followed the target nor went to the safe state with error",
                              case, obs, "shape")
            if not safe and bits:
                confirm = (bool(opn) and not cls) if coil else (bool(cls) and not opn)
                if confirm:
                    last_confirm = now
                if confirm or now - last_confirm < mt:
                    ok &= ctx.require(follows, "coil did not follow the target although the position was confirmed "
                                      "within the moving time", case, obs, "follow")
                else:
                    ok &= ctx.require(safed, "timeout did not set error and force coil and target to the safe state",
                                      case, obs, "timeout")
            elif now - last_reset < mt:
                # error reaction only: never before the moving time since reset has passed
                ok &= ctx.require(follows, "safe state forced before the moving time had elapsed", case, obs, "follow")
            ok &= ctx.require(s["clock_reads"] == 1, "update read the clock more or less than once", case, obs, "clock")
        if not ok:
            return


# ---------------------------------------------------------------- generators
def gen(rng, maxlen):
    safe = rng.random() < 0.35
    mt = rng.choice([5 * 1024, 5 * 1024, 1024, 3, 1, 0, rng.randrange(1, 4000), rng.randrange(1, 40) * 512])
    bytes_ = rng.random() < 0.15
    if bytes_:
        po, pc = rng.sample([0, 1, 2], 2)
        lay = {"bytes": True, "open": [po, 0], "closed": [pc, 0]}
        swv = lambda: rng.choice([0, 0, 1, 1, 2, 255, rng.randrange(256)])
    else:
        a, b = rng.sample([(p, bit) for p in (0, 1) for bit in range(8)], 2)
        lay = {"bytes": False, "open": list(a), "closed": list(b)}
        swv = lambda: rng.randrange(2)
    lay["coil"] = [rng.randrange(2), rng.randrange(8)]
    t0 = rng.choice([0, rng.randrange(1 << 20), rng.randrange(1 << 36)])
    evs = [["r"]]
    # a small plant: the switches follow the coil with some delay, sometimes they get stuck or flicker
    stuck = rng.random() < 0.4
    for _ in range(rng.randrange(1, maxlen + 1)):
        r = rng.random()
        if r < 0.38:
            evs.append(["u"])
        elif r < 0.62:
            d = rng.choice([0, 1, 1, 2, max(mt - 1, 0), mt, mt + 1, mt // 2, mt - mt // 2, rng.randrange(0, 2 * mt + 3)])
            evs.append(["a", d])
        elif r < 0.78:
            evs.append(["t", rng.choice([0, 1, 0, 1, 0, 1, 2, 255]) if rng.random() < 0.3 else rng.randrange(2)])
        elif r < 0.95:
            if stuck and rng.random() < 0.6:
                o = c = rng.randrange(2)
                evs.append(["s", o, c])
            else:
                evs.append(["s", swv(), swv()])
        else:
            evs.append(["r"])
    return {"safe": safe, "mt": mt, "mtint": rng.random() < 0.5, "t0": t0, "open": swv(), "closed": swv(),
            "coil": rng.random() < 0.4, "fill": [rng.randrange(256) for _ in range(8)], "layout": lay, "events": evs}


def gen_plant(rng, maxlen):
    """conformant valve: target changes, switches arrive after a travel time, occasionally too late"""
    safe = False
    mt = rng.choice([5 * 1024, 2048, 100])
    lay = {"bytes": False, "open": [0, 0], "closed": [0, 1], "coil": [0, rng.randrange(8)]}
    evs = [["r"]]
    pos = 0
    for _ in range(rng.randrange(1, maxlen // 3 + 2)):
        tgt = 1 - pos
        evs += [["t", tgt], ["u"], ["s", 0, 0]]
        travel = rng.choice([mt // 4, mt // 2, mt - 1, mt, mt + 5])
        for part in (travel // 2, travel - travel // 2):
            evs += [["a", part], ["u"]]
        if travel < mt or rng.random() < 0.3:
            pos = tgt
            evs += [["s", pos, 1 - pos], ["u"]]
        evs += [["a", rng.randrange(0, 3 * mt)], ["u"]]
        if rng.random() < 0.2:
            evs.append(["r"])
    return {"safe": safe, "mt": mt, "mtint": True, "t0": rng.randrange(1 << 30), "open": 0, "closed": 1, "coil": False,
            "fill": [0] * 8, "layout": lay, "events": evs}


def directed():
    """short histories around the time limit, for both safe states: commanded open, switches never confirm /
    confirm late / confirm in time"""
    out = []
    lay = {"bytes": False, "open": [0, 0], "closed": [0, 1], "coil": [0, 2]}
    for safe in (False, True):
        for mt in (0, 1, 3, 5 * 1024):
            for tgt in (0, 1):
                for d in (0, max(mt - 1, 0), mt, mt + 1):
                    for sw in ((0, 0), (1, 0), (0, 1), (1, 1)):
                        evs = [["r"], ["t", tgt], ["u"], ["s", 0, 0], ["a", d], ["u"], ["s", sw[0], sw[1]], ["u"], ["a", mt], ["u"]]
                        out.append({"safe": safe, "mt": mt, "mtint": True, "t0": 4096, "open": 0, "closed": 1, "coil": False,
                                    "fill": [0] * 8, "layout": lay, "events": evs})
    return out


# ---------------------------------------------------------------- several valves in ONE slow sync group
def build_group(case):
    """the real way: terminal classes with PacketDesc process variables, Valve objects linked to them, a real SyncGroup
    made of all the valves and started with the real start() (allocate, assembled frame = process image); only the cyclic
    task is replaced (no bus here)"""
    import asyncio
    from ebpfcat import devices
    from ebpfcat.ebpfcat import SyncGroup, EBPFTerminal, PacketDesc
    from ebpfcat.ethercat import EtherCat, SyncManager
    from .. import progs
    sms = {"coil": SyncManager.OUT, "open": SyncManager.IN, "closed": SyncManager.IN}
    loop = asyncio.new_event_loop()
    asyncio.set_event_loop(loop)
    try:
        ec = EtherCat("sim")
    finally:
        asyncio.set_event_loop(None)
        loop.close()
    terms = []
    for k, spec in enumerate(case["terms"]):
        attrs = {f"v{i}{tag}": PacketDesc(sms[tag], vc[tag][1], vc[tag][2])
                 for i, vc in enumerate(case["group"]) for tag in sms if vc[tag][0] == k}
        t = type(f"Term{k}", (EBPFTerminal,), attrs)(ec)
        t.position, t.name = spec["pos"], f"T{k}"
        t.pdo_in_sz, t.pdo_out_sz = spec["in_sz"], spec["out_sz"]
        t.pdo_in_off, t.pdo_out_off = 0x1100 + 0x10 * k, 0x1000 + 0x10 * k
        t.use_fmmu = bool(spec["fmmu"])
        terms.append(t)
    valves = []
    for i, vc in enumerate(case["group"]):
        v = devices.Valve()
        for tag in sms:
            setattr(v, {"coil": "coil", "open": "openSwitch", "closed": "closedSwitch"}[tag], getattr(terms[vc[tag][0]], f"v{i}{tag}"))
        v.safeState = bool(vc["safe"])
        mt = vc["mt"]
        v.movingTime = mt // 1024 if mt % 1024 == 0 and vc["mtint"] else mt / TICK
        valves.append(v)
    saved = SyncGroup.packet_index
    try:
        sg = SyncGroup(ec, valves)
        progs._start_slow(sg)
        sg.wkc_errors = 0        # what the (replaced) cyclic task does first
    finally:
        SyncGroup.packet_index = saved

    def where(i, tag):       # byte and bit of a valve's process variable in the process image (positions from the real allocate())
        tk, pos, bit = case["group"][i][tag]
        return sg.pdo_assign[terms[tk]][sms[tag]] + pos, bit
    return sg, valves, where


def run_group(case):
    """per event: dict(ev, now, reads = clock reads per valve, image bits and device variables of every valve after it)"""
    import logging
    from ebpfcat import devices
    logging.disable(logging.CRITICAL)
    try:
        sg, valves, where = build_group(case)
    finally:
        logging.disable(logging.NOTSET)
    data = sg.current_data
    n = len(valves)
    now = [case["t0"]]
    reads = []

    def clock():
        reads.append(1)
        return now[0] / TICK

    def setbit(i, tag, value):
        pos, bit = where(i, tag)
        data[pos] = data[pos] | (1 << bit) if value else data[pos] & ~(1 << bit) & 0xff

    def getbit(i, tag):
        pos, bit = where(i, tag)
        return bool(data[pos] >> bit & 1)

    def rest():              # the process image without the coil bits (and without the working counters, which are the bus's)
        d = bytearray(data)
        for pos in sg.packet.counters:
            d[pos:pos + 2] = b"\0\0"
        for i in range(n):
            pos, bit = where(i, "coil")
            d[pos] &= ~(1 << bit) & 0xff
        return bytes(d)

    def snapshot():
        out = []
        for i, v in enumerate(valves):
            lg = getattr(v, "lastGood", None)
            out.append({"coil": getbit(i, "coil"), "coil_read": v.coil, "target": v.target, "error": v.error,
                        "lastGood": None if lg is None else lg * TICK})
        return out

    for i, vc in enumerate(case["group"]):
        setbit(i, "open", vc["open0"])
        setbit(i, "closed", vc["closed0"])
        setbit(i, "coil", vc["coil0"])
    steps = []
    saved = devices.monotonic
    devices.monotonic = clock
    logging.disable(logging.CRITICAL)
    try:
        for ev in case["events"]:
            rest0 = rest()
            per = [0] * n
            if ev[0] == "r":
                del reads[:]
                valves[ev[1]].reset()
                per[ev[1]] = len(reads)
            elif ev[0] == "u":
                del reads[:]
                valves[ev[1]].update()
                per[ev[1]] = len(reads)
            elif ev[0] == "c":          # one cycle of the group: the real update_devices on the frame that came back
                del reads[:]
                sg.update_devices(bytes(data))
                per = [len(reads)]      # total
            elif ev[0] == "t":
                valves[ev[1]].target = bool(ev[2]) if ev[2] < 2 else ev[2]
            elif ev[0] == "s":
                setbit(ev[1], "open", ev[2])
                setbit(ev[1], "closed", ev[3])
            elif ev[0] == "a":
                now[0] += ev[1]
            steps.append({"ev": ev, "now": now[0], "reads": per, "rest_kept": rest0 == rest() or ev[0] == "s", "after": snapshot()})
    finally:
        devices.monotonic = saved
        logging.disable(logging.NOTSET)
    return steps


def show_group(steps):
    def one(s):
        lg = s["lastGood"]
        lgs = "0" if lg is None else (str(int(lg)) if lg == int(lg) else repr(lg))     # no lastGood before the first reset: model's 0
        return f"{int(s['coil_read'])} {int(s['target'])} {int(s['error'])} {lgs}"
    return " | ".join(" / ".join(one(v) for v in s["after"]) for s in steps)


def oracle_group(ctx, case, steps):
    """the property for every valve of the group, decided from what was REQUESTED of that valve (the targets assigned to it, its
    own switch bits as written into the process image, its own safeState / movingTime, its own resets) and the coil bit in the
    process image — not from what the device objects report as target / error, which is compared with it instead"""
    obs = show_group(steps)
    group = case["group"]
    n = len(group)
    req = [0] * n                 # requested target: last assignment to this valve, or its safe state after ITS time-out
    err = [False] * n             # error: set by ITS time-out, cleared by ITS reset
    sw = [(bool(vc["open0"]), bool(vc["closed0"])) for vc in group]
    coil = [bool(vc["coil0"]) for vc in group]
    last_confirm = [None] * n
    last_reset = [None] * n

    def updated(i, now, after, who):
        """valve i's update() ran at `now`; returns False when the oracle failed"""
        safe, mt = bool(group[i]["safe"]), group[i]["mt"]
        a = after[i]
        follows = a["coil"] == bool(req[i]) and a["target"] == req[i] and bool(a["error"]) == err[i]
        safed = a["error"] is True and a["coil"] is safe and a["target"] is safe
        ok = ctx.require(follows or safed, f"valve {i}: update neither followed the valve's own requested target nor went to its "
                         "own safe state with error", case, obs, "shape")
        opn, cls = sw[i]
        if not safe:
            confirm = (opn and not cls) if coil[i] else (cls and not opn)
            if confirm:
                last_confirm[i] = now
            if confirm or now - last_confirm[i] < mt:
                ok &= ctx.require(follows, f"valve {i}: coil did not follow the valve's own target although its position was confirmed "
                                  "within its moving time", case, obs, "follow")
            else:
                ok &= ctx.require(safed, f"valve {i}: its time-out did not set its error and force its coil and target to its safe state",
                                  case, obs, "timeout")
        elif now - last_reset[i] < mt:
            ok &= ctx.require(follows, f"valve {i}: safe state forced before its moving time had elapsed", case, obs, "follow")
        if ok and not follows:
            req[i], err[i] = safe, True
        coil[i] = a["coil"]
        return ok

    for s in steps:
        ev, now, after = s["ev"], s["now"], s["after"]
        ok = ctx.require(s["rest_kept"], "a bit of the process image other than the coils was changed", case, obs, "other-bits")
        touched = set()
        if ev[0] == "r":
            i = ev[1]
            err[i] = False
            last_confirm[i] = last_reset[i] = now
            ok &= ctx.require(after[i]["error"] is False, f"valve {i}: reset did not clear the error", case, obs, "reset")
            ok &= ctx.require(s["reads"][i] == 1, "reset read the clock more or less than once", case, obs, "clock")
        elif ev[0] == "t":
            req[ev[1]] = bool(ev[2]) if ev[2] < 2 else ev[2]
        elif ev[0] == "s":
            sw[ev[1]] = (bool(ev[2]), bool(ev[3]))
        elif ev[0] == "u":
            touched.add(ev[1])
            ok = ok and updated(ev[1], now, after, "update")
            ok &= ctx.require(s["reads"][ev[1]] == 1, "update read the clock more or less than once", case, obs, "clock")
        elif ev[0] == "c":
            touched.update(range(n))
            for i in range(n):
                ok = ok and updated(i, now, after, "cycle")
            ok &= ctx.require(s["reads"][0] == n, "a cycle did not read the clock once per valve", case, obs, "clock")
        # every valve that did not run keeps its coil; every valve reports its own requested target and its own error
        for i in range(n):
            a = after[i]
            if i not in touched:
                ok &= ctx.require(a["coil"] == coil[i], f"valve {i}: coil changed without an update of this valve", case, obs, "cross-talk")
            ok &= ctx.require(a["target"] == req[i] and bool(a["error"]) == err[i] and a["coil_read"] == a["coil"],
                              f"valve {i}: target / error are not what was requested of / happened to this valve", case, obs, "cross-talk")
        if not ok:
            return


def gen_group(rng, maxlen):
    """2-3 valves (sometimes 1) in one group, on one or two digital terminals, different safe states and moving times; events
    address single valves, `c` is a cycle of the whole group"""
    n = rng.choice([1, 2, 2, 2, 3, 3])
    nt = rng.choice([1, 2])
    terms = [{"pos": 3 + 4 * k, "in_sz": rng.choice([1, 2]), "out_sz": rng.choice([1, 2]), "fmmu": rng.random() < 0.7} for k in range(nt)]
    outs = [(k, p, b) for k, t in enumerate(terms) for p in range(t["out_sz"]) for b in range(8)]
    ins = [(k, p, b) for k, t in enumerate(terms) for p in range(t["in_sz"]) for b in range(8)]
    co = rng.sample(outs, n)
    sws = rng.sample(ins, 2 * n)
    same = rng.random() < 0.4           # identical configuration: only the objects differ
    mt0, safe0 = rng.choice([5 * 1024, 1024, 3, 1, 0, rng.randrange(1, 4000)]), rng.random() < 0.3
    group = []
    for i in range(n):
        mt = mt0 if same else rng.choice([5 * 1024, 1024, 3, 1, 0, rng.randrange(1, 4000), rng.randrange(1, 40) * 512])
        group.append({"safe": safe0 if same else rng.random() < 0.4, "mt": mt, "mtint": rng.random() < 0.5,
                      "coil": list(co[i]), "open": list(sws[2 * i]), "closed": list(sws[2 * i + 1]),
                      "coil0": rng.random() < 0.4, "open0": rng.randrange(2), "closed0": rng.randrange(2)})
    mts = [g["mt"] for g in group]
    evs = [["r", i] for i in range(n)]
    for _ in range(rng.randrange(1, maxlen + 1)):
        r = rng.random()
        i = rng.randrange(n)
        if r < 0.30:
            evs.append(["c"])
        elif r < 0.38:
            evs.append(["u", i])
        elif r < 0.60:
            mt = rng.choice(mts)
            evs.append(["a", rng.choice([0, 1, 1, 2, max(mt - 1, 0), mt, mt + 1, mt // 2, rng.randrange(0, 2 * mt + 3)])])
        elif r < 0.78:
            evs.append(["t", i, rng.choice([0, 1, 2, 255]) if rng.random() < 0.15 else rng.randrange(2)])
        elif r < 0.95:
            if rng.random() < 0.5:      # the position the valve's coil commands right now is not known here: any reading
                evs.append(["s", i, rng.randrange(2), rng.randrange(2)])
            else:
                o = rng.randrange(2)
                evs.append(["s", i, o, 1 - o])
        else:
            evs.append(["r", i])
    return {"group": group, "terms": terms, "t0": rng.choice([0, rng.randrange(1 << 20), rng.randrange(1 << 36)]), "events": evs}


def directed_group():
    """two / three valves, one is asked to open and never arrives, the others are asked the opposite / nothing; both safe states"""
    out = []
    terms = [{"pos": 3, "in_sz": 1, "out_sz": 1, "fmmu": True}]
    for safes in ((False, False), (False, True), (True, False), (False, False, True)):
        for mts in ((3, 3), (3, 1000), (1000, 3)):
            for tgt in ((1, 0), (0, 1), (1, 1)):
                n = len(safes)
                group = [{"safe": safes[i], "mt": mts[i % 2], "mtint": True, "coil": [0, 0, i], "open": [0, 0, 2 * i], "closed": [0, 0, 2 * i + 1],
                          "coil0": False, "open0": 0, "closed0": 1} for i in range(n)]
                evs = [["r", i] for i in range(n)] + [["t", 0, tgt[0]], ["t", 1, tgt[1]], ["c"], ["s", 0, 0, 0], ["a", 2], ["c"], ["a", 1], ["c"],
                                                      ["s", 1, 1, 0], ["a", 1000], ["c"], ["r", 0], ["c"], ["t", 1, 1 - tgt[1]], ["u", 1], ["c"]]
                out.append({"group": group, "terms": terms, "t0": 4096, "events": evs})
    return out


def classify_group(case, steps):
    """(number of valve updates that left the error clear, number that newly set it, cycles in which one valve timed out while
    another one of the group did not)"""
    f = t = mixed = 0
    prev = [False] * len(case["group"])
    for s in steps:
        if s["ev"][0] in "uc":
            new = [bool(a["error"]) and not p for a, p in zip(s["after"], prev)]
            t += sum(new)
            f += sum(1 for a in s["after"] if not a["error"])
            if s["ev"][0] == "c" and any(new) and not all(bool(a["error"]) for a in s["after"]):
                mixed += 1
        prev = [bool(a["error"]) for a in s["after"]]
    return f, t, mixed


def classify(steps, case):
    f = t = 0
    for s in steps:
        if s["ev"][0] == "u":
            if s["after"][2] and s["after"][0] == bool(case["safe"]) and not (s["before"][2]):
                t += 1
            elif not s["after"][2]:
                f += 1
    return f, t


def run_groups(ctx, maxlen):
    cases = directed_group() + [gen_group(ctx.rng, maxlen) for _ in range(ctx.n(2500, 30000))]
    impl = []
    for c in cases:
        steps = run_group(c)
        impl.append(show_group(steps))
        f, t, mixed = classify_group(c, steps)
        ctx.stats["group-updates-following"] += f
        ctx.stats["group-updates-timeout-first"] += t
        ctx.stats["group-cycles-one-times-out-other-not"] += mixed
        ctx.case(c, nontrivial=len(c["group"]) > 1 and f > 0 and t > 0, kind=f"group-of-{len(c['group'])}" + ("/mixed" if mixed else ""))
        oracle_group(ctx, c, steps)
    model = ctx.drive(DRIVER, cases, "valve groups")
    if model is not None:
        for c, i, m in zip(cases, impl, model):
            ctx.agree("coil/target/error/lastGood of every valve of the group after every event", c, i, m)


def run(ctx):
    maxlen = ctx.n(30, 60)
    run_groups(ctx, maxlen)
    cases = directed()           # small histories first: the first failing case is the replay
    cases += [gen(ctx.rng, maxlen) for _ in range(ctx.n(12000, 100000))]
    cases += [gen_plant(ctx.rng, maxlen) for _ in range(ctx.n(1500, 10000))]
    impl = []
    for c in cases:
        steps = run_impl(c)
        impl.append(show(steps))
        f, t = classify(steps, c)
        ctx.stats["updates-following"] += f
        ctx.stats["updates-timeout-first"] += t
        ctx.case(c, nontrivial=f > 0 and t > 0,
                 kind=("safe-open" if c["safe"] else "safe-closed") + ("/byte-switches" if c["layout"]["bytes"] else ""))
        oracle(ctx, c, steps)
    model = ctx.drive(DRIVER, cases, "valve")
    if model is not None:
        for c, i, m in zip(cases, impl, model):
            ctx.agree("valve coil/target/error/lastGood after every event", c, i, m)


def replay(ctx, case):
    if "group" in case:
        steps = run_group(case)
        oracle_group(ctx, case, steps)
        return {"trace": show_group(steps)}
    steps = run_impl(case)
    oracle(ctx, case, steps)
    return {"trace": show(steps)}


LEVEL_TEXT = ("Lean 4 proof over a hand-written model of Valve.update/reset with the clock as input: for every event list starting with reset "
              "(target changes, switch readings, clock advances, updates, resets), every movingTime and both safeState values, lastGood is "
              "the time of the last reset or confirming update, every update either follows the target (coil = truth value of target, target "
              "and error unchanged) exactly when the switches confirm or less than movingTime has passed since they last did, or else sets "
              "error and forces coil and target to safeState; error is only ever set by such a timeout and stays until reset; for the default "
              "safe state the code's check is proved equal to 'the switches show exactly the position the coil commands'. Tied to /repo by "
              "exact correspondence of coil/target/error/lastGood after every event of the real Valve object in slow-group mode. Several valves in one "
              "slow sync group: proved independent (after any group history each valve is in the state a single valve reaches on the events it sees: its "
              "own requests, the cycles, the clock), so the property holds for every valve of a group whatever the others do; tied by the same exact "
              "correspondence for 1-3 real Valve objects in one real SyncGroup.")
LEVEL_NOTE = ("trusted: Lean kernel + propext/Classical.choice/Quot.sound; hand transcription Ebv.Valve validated (not verified) by differential "
              "runs; time in exactly representable ticks; coil is a bit variable; for safeState=True the code compares the coil with safeState, "
              "so its position check expects the closed switch while the coil is on (proved as good_open_safe_inverted) — outside the "
              "registered property, which restricts the position check to the default safe state")
TECHNIQUE = "Lean 4 invariant induction over event lists + differential correspondence of the real device object under a scripted clock"
DESIGN_REF = "§4 C27"
