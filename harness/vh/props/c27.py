"""C27 — the Valve device enforces its safe state on timeout.
A real `Valve` object runs unmodified in slow-group mode: its TerminalVars are linked to real
`PacketVar`s over a bytearray owned by a minimal stand-in sync group, its DeviceVars fall back to
instance attributes, and `ebpfcat.devices.monotonic` is replaced by a scripted clock.  Coil,
target, error and lastGood after every event are compared with the Lean model `Ebv.Valve`; the
property text is evaluated on the observed values."""

ID = "C27"
LEAN_MODULES = ["Ebv.Props.C27"]
MODEL_MODULES = ["Ebv.Model.Valve"]
DRIVER = "Drivers/C27.lean"
THEOREMS = [
    "Ebv.C27.update_cases", "Ebv.C27.lastGood_is_lastConfirm", "Ebv.C27.update_after_history", "Ebv.C27.coil_follows_target",
    "Ebv.C27.timeout_goes_safe", "Ebv.C27.update_dichotomy", "Ebv.C27.no_error_before_movingTime",
    "Ebv.C27.confirms_bool", "Ebv.C27.good_eq_confirms_closed_safe", "Ebv.C27.error_sticky_until_reset",
    "Ebv.C27.error_only_by_timeout", "Ebv.C27.good_open_safe_inverted",
]
TRUSTED = ["hand-written model Ebv.Valve of Valve.update/reset, tied by exact correspondence of coil/target/error/lastGood after every event",
           "harness/vh/props/c27.py stand-in sync group (current_data + pdo_assign only) and scripted clock; real PacketVar/TerminalVar/DeviceVar code runs"]
ASSUMPTIONS = ["time is counted in ticks of 1/1024 s below 2**40 ticks, so every clock value, difference and movingTime is an exactly "
               "representable float and Python's float comparison equals the integer comparison of the model",
               "the coil is linked to a bit variable (digital output); the switches to bit variables (oracle) or byte variables (correspondence only)",
               "the clock is read through ebpfcat.devices.monotonic only; it never goes backwards",
               "for safeState=True only the error reaction is part of the property (the registered quantifier restricts the position check to the default safe state)"]
RULE = ("cases = safeState x movingTime (ticks; 0, small, class default 5 s, random) x start clock x initial coil/switch bits x event list "
        "starting with reset; events: target change (bool, sometimes other ints), switch reading, clock advance (0, 1, around movingTime, "
        "random), update, reset; non-trivial = at least one update follows the target and at least one times out")

TICK = 1024.0


class Group:
    """what PacketVar/TerminalVar/DeviceVar need from a slow sync group"""
    def __init__(self, terminal, data):
        from ebpfcat.ethercat import SyncManager
        self.current_data = data
        self.pdo_assign = {terminal: {SyncManager.IN: 2, SyncManager.OUT: 5}}


def build(case):
    from ebpfcat import devices
    from ebpfcat.ebpfcat import PacketVar
    from ebpfcat.ethercat import SyncManager
    data = bytearray(case["fill"])
    term = object()
    v = devices.Valve()
    v.sync_group = Group(term, data)
    lay = case["layout"]
    v.coil = PacketVar(term, SyncManager.OUT, lay["coil"][0], lay["coil"][1])
    if lay["bytes"]:
        v.openSwitch = PacketVar(term, SyncManager.IN, lay["open"][0], "B")
        v.closedSwitch = PacketVar(term, SyncManager.IN, lay["closed"][0], "B")
    else:
        v.openSwitch = PacketVar(term, SyncManager.IN, lay["open"][0], lay["open"][1])
        v.closedSwitch = PacketVar(term, SyncManager.IN, lay["closed"][0], lay["closed"][1])
    v.safeState = bool(case["safe"])
    mt = case["mt"]
    v.movingTime = mt // 1024 if mt % 1024 == 0 and case["mtint"] else mt / TICK
    return v, data


def set_switch(data, lay, which, value):
    pos, bit = lay[which]
    if lay["bytes"]:
        data[2 + pos] = value
    elif value:
        data[2 + pos] |= 1 << bit
    else:
        data[2 + pos] &= ~(1 << bit) & 0xff


def run_impl(case):
    """per event: dict(ev, before, after, now) with states (coil, target, error, lastGood ticks, open, closed)"""
    from ebpfcat import devices
    v, data = build(case)
    lay = case["layout"]
    now = [case["t0"]]
    calls = [0]

    def clock():
        calls[0] += 1
        return now[0] / TICK

    set_switch(data, lay, "open", case["open"])
    set_switch(data, lay, "closed", case["closed"])
    cpos, cbit = lay["coil"]
    if case["coil"]:
        data[5 + cpos] |= 1 << cbit
    else:
        data[5 + cpos] &= ~(1 << cbit) & 0xff

    def others():
        d = bytearray(data)
        d[5 + cpos] &= ~(1 << cbit) & 0xff
        return bytes(d[5:])

    def state():
        lg = getattr(v, "lastGood", None)
        return (v.coil, v.target, v.error, None if lg is None else lg * TICK, v.openSwitch, v.closedSwitch)

    steps = []
    saved = devices.monotonic
    devices.monotonic = clock
    try:
        for ev in case["events"]:
            before = state()
            out0 = others()
            calls[0] = 0
            if ev[0] == "r":
                v.reset()
            elif ev[0] == "u":
                v.update()
            elif ev[0] == "t":
                v.target = bool(ev[1]) if ev[1] < 2 else ev[1]
            elif ev[0] == "s":
                set_switch(data, lay, "open", ev[1])
                set_switch(data, lay, "closed", ev[2])
            elif ev[0] == "a":
                now[0] += ev[1]
            steps.append({"ev": ev, "before": before, "after": state(), "now": now[0],
                          "clock_reads": calls[0], "others_kept": out0 == others() or ev[0] == "s"})
    finally:
        devices.monotonic = saved
    return steps


def canon_state(st):
    coil, target, error, lg, _, _ = st
    lgs = "-" if lg is None else (str(int(lg)) if lg == int(lg) else repr(lg))
    return f"{int(coil)} {int(target)} {int(error)} {lgs}"


def show(steps):
    return " | ".join(canon_state(s["after"]) for s in steps)


# ---------------------------------------------------------------- property oracle
def oracle(ctx, case, steps):
    """histories start with reset; `confirm` = the switches show exactly the position the coil commanded"""
    safe, mt = bool(case["safe"]), case["mt"]
    bits = not case["layout"]["bytes"]
    obs = show(steps)
    last_confirm = None      # ticks: reset, or an update at which the switches confirmed
    last_reset = None
    for s in steps:
        ev, now = s["ev"], s["now"]
        coil, target, error, _, opn, cls = s["before"]
        coil2, target2, error2, _, _, _ = s["after"]
        ok = ctx.require(s["others_kept"], "an output bit other than the coil was changed", case, obs, "other-bits")
        if ev[0] == "r":
            last_confirm = last_reset = now
            ok &= ctx.require(error2 is False and coil2 == coil and target2 == target and type(target2) is type(target),
                              "reset did not just clear the error", case, obs, "reset")
        elif ev[0] == "u":
            follows = coil2 == bool(target) and target2 == target and bool(error2) == bool(error)
            safed = error2 is True and coil2 is safe and target2 is safe
            ok &= ctx.require(follows or safed, "update neither followed the target nor went to the safe state with error",
                              case, obs, "shape")
            if not safe and bits:
                confirm = (bool(opn) and not cls) if coil else (bool(cls) and not opn)
                if confirm:
                    last_confirm = now
                if confirm or now - last_confirm < mt:
                    ok &= ctx.require(follows, "coil did not follow the target although the position was confirmed "
                                      "within the moving time", case, obs, "follow")
                else:
                    ok &= ctx.require(safed, "timeout did not set error and force coil and target to the safe state",
                                      case, obs, "timeout")
            elif now - last_reset < mt:
                # error reaction only: never before the moving time since reset has passed
                ok &= ctx.require(follows, "safe state forced before the moving time had elapsed", case, obs, "follow")
            ok &= ctx.require(s["clock_reads"] == 1, "update read the clock more or less than once", case, obs, "clock")
        if not ok:
            return


# ---------------------------------------------------------------- generators
def gen(rng, maxlen):
    safe = rng.random() < 0.35
    mt = rng.choice([5 * 1024, 5 * 1024, 1024, 3, 1, 0, rng.randrange(1, 4000), rng.randrange(1, 40) * 512])
    bytes_ = rng.random() < 0.15
    if bytes_:
        po, pc = rng.sample([0, 1, 2], 2)
        lay = {"bytes": True, "open": [po, 0], "closed": [pc, 0]}
        swv = lambda: rng.choice([0, 0, 1, 1, 2, 255, rng.randrange(256)])
    else:
        a, b = rng.sample([(p, bit) for p in (0, 1) for bit in range(8)], 2)
        lay = {"bytes": False, "open": list(a), "closed": list(b)}
        swv = lambda: rng.randrange(2)
    lay["coil"] = [rng.randrange(2), rng.randrange(8)]
    t0 = rng.choice([0, rng.randrange(1 << 20), rng.randrange(1 << 36)])
    evs = [["r"]]
    # a small plant: the switches follow the coil with some delay, sometimes they get stuck or flicker
    stuck = rng.random() < 0.4
    for _ in range(rng.randrange(1, maxlen + 1)):
        r = rng.random()
        if r < 0.38:
            evs.append(["u"])
        elif r < 0.62:
            d = rng.choice([0, 1, 1, 2, max(mt - 1, 0), mt, mt + 1, mt // 2, mt - mt // 2, rng.randrange(0, 2 * mt + 3)])
            evs.append(["a", d])
        elif r < 0.78:
            evs.append(["t", rng.choice([0, 1, 0, 1, 0, 1, 2, 255]) if rng.random() < 0.3 else rng.randrange(2)])
        elif r < 0.95:
            if stuck and rng.random() < 0.6:
                o = c = rng.randrange(2)
                evs.append(["s", o, c])
            else:
                evs.append(["s", swv(), swv()])
        else:
            evs.append(["r"])
    return {"safe": safe, "mt": mt, "mtint": rng.random() < 0.5, "t0": t0, "open": swv(), "closed": swv(),
            "coil": rng.random() < 0.4, "fill": [rng.randrange(256) for _ in range(8)], "layout": lay, "events": evs}


def gen_plant(rng, maxlen):
    """conformant valve: target changes, switches arrive after a travel time, occasionally too late"""
    safe = False
    mt = rng.choice([5 * 1024, 2048, 100])
    lay = {"bytes": False, "open": [0, 0], "closed": [0, 1], "coil": [0, rng.randrange(8)]}
    evs = [["r"]]
    pos = 0
    for _ in range(rng.randrange(1, maxlen // 3 + 2)):
        tgt = 1 - pos
        evs += [["t", tgt], ["u"], ["s", 0, 0]]
        travel = rng.choice([mt // 4, mt // 2, mt - 1, mt, mt + 5])
        for part in (travel // 2, travel - travel // 2):
            evs += [["a", part], ["u"]]
        if travel < mt or rng.random() < 0.3:
            pos = tgt
            evs += [["s", pos, 1 - pos], ["u"]]
        evs += [["a", rng.randrange(0, 3 * mt)], ["u"]]
        if rng.random() < 0.2:
            evs.append(["r"])
    return {"safe": safe, "mt": mt, "mtint": True, "t0": rng.randrange(1 << 30), "open": 0, "closed": 1, "coil": False,
            "fill": [0] * 8, "layout": lay, "events": evs}


def directed():
    """short histories around the time limit, for both safe states: commanded open, switches never confirm /
    confirm late / confirm in time"""
    out = []
    lay = {"bytes": False, "open": [0, 0], "closed": [0, 1], "coil": [0, 2]}
    for safe in (False, True):
        for mt in (0, 1, 3, 5 * 1024):
            for tgt in (0, 1):
                for d in (0, max(mt - 1, 0), mt, mt + 1):
                    for sw in ((0, 0), (1, 0), (0, 1), (1, 1)):
                        evs = [["r"], ["t", tgt], ["u"], ["s", 0, 0], ["a", d], ["u"], ["s", sw[0], sw[1]], ["u"], ["a", mt], ["u"]]
                        out.append({"safe": safe, "mt": mt, "mtint": True, "t0": 4096, "open": 0, "closed": 1, "coil": False,
                                    "fill": [0] * 8, "layout": lay, "events": evs})
    return out


def classify(steps, case):
    f = t = 0
    for s in steps:
        if s["ev"][0] == "u":
            if s["after"][2] and s["after"][0] == bool(case["safe"]) and not (s["before"][2]):
                t += 1
            elif not s["after"][2]:
                f += 1
    return f, t


def run(ctx):
    maxlen = ctx.n(30, 60)
    cases = directed()           # small histories first: the first failing case is the replay
    cases += [gen(ctx.rng, maxlen) for _ in range(ctx.n(12000, 100000))]
    cases += [gen_plant(ctx.rng, maxlen) for _ in range(ctx.n(1500, 10000))]
    impl = []
    for c in cases:
        steps = run_impl(c)
        impl.append(show(steps))
        f, t = classify(steps, c)
        ctx.stats["updates-following"] += f
        ctx.stats["updates-timeout-first"] += t
        ctx.case(c, nontrivial=f > 0 and t > 0,
                 kind=("safe-open" if c["safe"] else "safe-closed") + ("/byte-switches" if c["layout"]["bytes"] else ""))
        oracle(ctx, c, steps)
    model = ctx.drive(DRIVER, cases, "valve")
    if model is not None:
        for c, i, m in zip(cases, impl, model):
            ctx.agree("valve coil/target/error/lastGood after every event", c, i, m)


def replay(ctx, case):
    steps = run_impl(case)
    oracle(ctx, case, steps)
    return {"trace": show(steps)}


LEVEL_TEXT = ("Lean 4 proof over a hand-written model of Valve.update/reset with the clock as input: for every event list starting with reset "
              "(target changes, switch readings, clock advances, updates, resets), every movingTime and both safeState values, lastGood is "
              "the time of the last reset or confirming update, every update either follows the target (coil = truth value of target, target "
              "and error unchanged) exactly when the switches confirm or less than movingTime has passed since they last did, or else sets "
              "error and forces coil and target to safeState; error is only ever set by such a timeout and stays until reset; for the default "
              "safe state the code's check is proved equal to 'the switches show exactly the position the coil commands'. Tied to /repo by "
              "exact correspondence of coil/target/error/lastGood after every event of the real Valve object in slow-group mode.")
LEVEL_NOTE = ("trusted: Lean kernel + propext/Classical.choice/Quot.sound; hand transcription Ebv.Valve validated (not verified) by differential "
              "runs; time in exactly representable ticks; coil is a bit variable; for safeState=True the code compares the coil with safeState, "
              "so its position check expects the closed switch while the coil is on (proved as good_open_safe_inverted) — outside the "
              "registered property, which restricts the position check to the default safe state")
TECHNIQUE = "Lean 4 invariant induction over event lists + differential correspondence of the real device object under a scripted clock"
DESIGN_REF = "§4 C27"
