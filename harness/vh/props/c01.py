"""C01 — integer DSL expressions compute the exact value.

(a) tie: exact equality of the instruction list emitted by the REAL generator (real EBPF subclass, real operator
    overloads, `harness/vh/dsl.py`) and by the Lean model `Ebv.Gen` (driver Drivers/C01.lean) on generated programs,
    including the object tree the operator overloads built (with the `signed` attribute of every node), the programs the
    generator refuses, and the program-level defect-class predicates (Python: shape of the real object tree, leaves typed by
    the program text; Lean: its `Expr`);
(b) property oracle on the implementation: the REAL emitted code is executed by the independent interpreter
    (`harness/vh/interp.py`) from boundary/random register and variable contents; the destination is compared with a
    Python big-integer evaluation of the surface expression (mod 2^width, in the destination's format), every other
    owned register and declared variable with its old value, inside the precondition of DESIGN §4 C01; what an operand's
    size and signedness ARE comes from the program text (dsl.psigned / dsl.pwidth), never from the implementation's objects:
    the value-dependent classes (divmod-negative, rshift-negative-logical) are decided on the surface expression;
(c) three-way validation of the instruction-set model (Lean `Ebv.Ebpf` / interp.py / kernel)."""
import struct

from .. import dsl, interp, isaval

ID = "C01"
LEAN_MODULES = ["Ebv.Props.C01"]
MODEL_MODULES = ["Ebv.Model.Gen"]
DRIVER = "Drivers/C01.lean"
THEOREMS = [
    "Ebv.Ebpf.exec_append", "Ebv.Ebpf.run_of_exec",
    "Ebv.Gen.load_agree", "Ebv.Gen.calc_correct", "Ebv.Gen.setReg_correct", "Ebv.Gen.setMem_correct",
    "Ebv.Gen.evalBV_eq_evalZ", "Ebv.Gen.elab_evalZ",
    "Ebv.C01.assign_correct_reg", "Ebv.C01.assign_correct_mem", "Ebv.C01.stmts_correct", "Ebv.C01.C01_core",
    "Ebv.C01.C01_partial", "Ebv.C01.load_shift_is_setitem", "Ebv.C01.load_shift_in_range",
    "Ebv.C01.C01_full_refuted", "Ebv.C01.before_fix_unary_in_place", "Ebv.C01.before_fix_unary_32_in_64",
    "Ebv.C01.narrow_reg_in_64_refuted", "Ebv.C01.before_fix_sum_minus", "Ebv.C01.before_fix_abs_32",
    "Ebv.C01.divmod_negative_refuted", "Ebv.C01.rshift_negative_refuted",
    "Ebv.Gen.elab_psigned", "Ebv.C01.typing_exact",
    "Ebv.C01.before_fix_sum_signed", "Ebv.C01.before_fix_sum_merged", "Ebv.C01.before_fix_and_signed",
]
TRUSTED = ["hand-written model Ebv.Gen of the expression code generator (ebpfcat/ebpf.py: operator protocol, calculate/load/"
           "_set/__setitem__, get_free_register), tied by EXACT opcode-list equality with the real generator on generated "
           "programs (only as far as the generated programs reach)",
           "instruction semantics Ebv.Ebpf, validated three-way (Lean / harness/vh/interp.py / kernel BPF_PROG_TEST_RUN)",
           "harness/vh/dsl.py (builds the real objects from JSON), harness/vh/interp.py (executes the real code for the oracle)",
           "Opcode table, FIXED_BASE and the small-constant window regenerated from /repo into Ebv.Generated.Consts"]
ASSUMPTIONS = ["registers in `owned` are declared by assigning EBPF.owners before the first statement; array-map variables are "
               "addressed through r7 (the ArrayMap.init prologue is emitted by the real class but not part of the compared code)",
               "flat byte memory: bounds and alignment are the verifier's business (C05); little-endian host",
               "the oracle checks each statement from the machine state the previous statements left, inside the "
               "precondition of DESIGN §4 C01 (W-bit fit below // % >> abs, shift counts in [0, W), divisors non-zero), "
               "for well-typed programs (every register read is owned)",
               "signedness and width of operands are the property's (dsl.psigned: leaves by declared kind, a result signed as soon as "
               "one operand is; -a signed, abs unsigned, a & b signed iff both are, a >> n like a; int (op) int is one constant): the "
               "class rshift-negative-logical holds only for a >> whose left operand the PROPERTY types unsigned; Ebv.Gen.elab_psigned "
               "proves that the model's `signed` attributes (compared node by node with the real objects) equal this typing"]
RULE = ("programs = JSON surface DSL (dsl.py): random trees to depth 5 over registers in the views r/sr/w/sw, variables of the "
        "formats B H I Q b h i q (stack and array-map), constants from the classes {0, +-1, small, +-2^31 edges, >= 2^32, "
        "negative 64-bit, > 2^64}, operators + - * | ^ << & >> // % neg abs and computed addresses; the depth-1 family "
        "(operator x leaf kind x leaf kind x destination kind x constant class) and the depth-2 family (two operators x shape x "
        "leaf kind classes), sampled in the quick tier and enumerated (stage 3 depth 2: 60000 sampled) in the thorough tier; targeted "
        "shapes (Sum +- int, int + Sum, Sum - expr also below other operators, ONE Sum object used twice with different added "
        "constants (let/ref: a real shared object), Binary + Sum, destination aliasing, register pressure, unowned registers); "
        "the typing family: X >> n with X an operand whose signedness an operator rule decides (register +- int in every "
        "spelling incl. chains that merge their numbers, & of signed / mixed / constant operands, unsigned differences, neg, abs); "
        "inputs = boundary (0, +-1, sign bits, all-ones, width edges) and random register/variable contents, half of them small "
        "so that products and quotients stay inside the precondition; non-trivial = accepted with more than one instruction")

M64 = dsl.M64
EDGE64 = [0, 1, 2, 3, 0x7f, 0x80, 0xff, 0x7fff, 0x8000, 0xffff, 0x7fffffff, 0x80000000, 0xffffffff, 0x100000000,
          0x7fffffffffffffff, 0x8000000000000000, 0xffffffffffffffff, 0xfffffffffffffffe, 0xffffffff80000000,
          0xffffffffffffff80, 0xffffffffffff8000, 0x1ffffffff, 0xfffffffe, 5, 100]
GLOBAL_BASE = interp.MAP_BASE

# defect classes of the unchanged tree (program-level predicates, computed on the real object tree here and on the
# model's `Expr` in Lean; the two are compared as part of the correspondence), in order of precedence
PROGRAM_CLASSES = ["narrow-reg-in-64"]
# classes that additionally look at the inputs (evaluated with the reference semantics)
INPUT_CLASSES = ["divmod-negative", "rshift-negative-logical"]


# ----------------------------------------------------------------------------- class predicates on real objects
def ret_long(E, v, L):
    """the width flag `calculate` yields for v when asked for width L"""
    if isinstance(v, E.Register):
        return dsl.reg_long(v)
    if isinstance(v, E.Constant):
        return not (-0x80000000 <= v.value < 0x100000000)
    if isinstance(v, E.Unary):
        return bool(L) or ret_long(E, v.arg, L)        # `long = long or arg_long`
    if isinstance(v, E.Memory):
        return v.fmt in "Qq"
    return L


def reg_chain(E, v):
    """v is a register (calculate hands the register itself out when not forced; unary operators work on a copy)"""
    return isinstance(v, E.Register)


TEMP = -1    # "a fresh temporary": differs from every register the expression mentions


def tree_classes(E, v, L, forced, dst, out):
    """walks the object tree the way `calculate` does: L = requested width, forced/dst = the destination the node
    is forced into (dst None: any register; TEMP: a fresh temporary).  The tree gives the SHAPE of the computation (which
    node is forced where); what a register leaf IS (w/sw view: 32 bits; sw: signed) comes from the program text
    (dsl.reg_long / dsl.reg_signed), not from the object's own flags"""
    if isinstance(v, E.Register):
        zero_extended = forced and dst != v.no             # a 32-bit MOV into the destination zero-extends
        if L and not dsl.reg_long(v) and (dsl.reg_signed(v) or not zero_extended):
            out.add("narrow-reg-in-64")
    elif isinstance(v, E.Binary):
        d = TEMP if dst is None or (dst != TEMP and v.right.contains(dst)) else dst
        tree_classes(E, v.left, L, True, d, out)
        if not v.right.small_constant:
            tree_classes(E, v.right, L, False, None, out)
    elif isinstance(v, E.Unary):
        # the operand is forced into the offered destination, else into a fresh temporary
        tree_classes(E, v.arg, L, True, TEMP if dst is None else dst, out)
    elif isinstance(v, E.Memory):
        if not isinstance(v.address, E.Sum):
            tree_classes(E, v.address, True, False, None, out)


def stmt_classes(E, stmt, obj, fm, surface_flags):
    """program-level classes of one statement"""
    out = set(surface_flags)
    d = stmt[1]
    if isinstance(obj, int) or obj is None:
        return out
    if d[0] == "v":
        tree_classes(E, obj, fm[d[1]] in "Qq", False, None, out)
    else:
        tree_classes(E, obj, d[0] in ("r", "sr"), True, d[1], out)
    return out


def eval_obj(E, v, regs, varat):
    """mathematical value of the object tree the operator overloads built (Python integer semantics per Opcode);
    varat(base, off, fmt) reads a variable; raises Outside where the value is undefined"""
    if isinstance(v, int):
        return v
    if isinstance(v, E.Constant):
        return int(v.value)
    if isinstance(v, E.Register):
        return dsl.view_value(dsl.reg_view(v), regs[v.no])
    if isinstance(v, E.Negate):
        return -eval_obj(E, v.arg, regs, varat)
    if isinstance(v, E.Absolute):
        return abs(eval_obj(E, v.arg, regs, varat))
    if isinstance(v, E.Memory):
        if not isinstance(v.address, E.Sum):
            raise dsl.Outside("computed address")
        return varat(v.address.left.no, v.address.right.value, v.fmt)
    a, b = eval_obj(E, v.left, regs, varat), eval_obj(E, v.right, regs, varat)
    op = v.operator.name
    if op in ("DIV", "MOD"):
        if b == 0:
            raise dsl.Outside("division by zero")
        return a // b if op == "DIV" else a % b
    if op in ("LSH", "RSH", "ARSH"):
        if not 0 <= b <= 4096:
            raise dsl.Outside("shift count")
        return a << b if op == "LSH" else a >> b
    return {"ADD": a + b, "SUB": a - b, "MUL": a * b, "OR": a | b, "AND": a & b, "XOR": a ^ b}[op]


def input_classes(expr, regs, vals, fm):
    """classes that depend on the operand values, decided on the SURFACE expression (the program text) with the reference
    values and the property-level typing `dsl.psigned` -- not on the implementation's object tree:
    divmod-negative: a // or % with a negative operand (the generator only has the unsigned DIV / MOD);
    rshift-negative-logical: a >> whose left operand the PROPERTY types unsigned (unsigned leaves only, e.g. the
    difference w3 - w4) and whose value is negative.  A >> of an operand the property types signed is in no class: a
    logical shift there is a failure of the check"""
    out = set()

    def val(x):
        try:
            return dsl.eval_ref(x, regs, vals)
        except (dsl.Outside, KeyError):
            return None

    def go(x):
        k = x[0]
        if k in ("c", "v") or k in dsl.VIEWS or dsl.fold_int(x) is not None:
            return                                        # a leaf, or folded by Python itself: no code
        if k in ("neg", "abs"):
            return go(x[1])
        if k == "m":
            return go(x[2])
        go(x[1])
        go(x[2])
        A, B = val(x[1]), val(x[2])
        if k in ("//", "%") and ((A is not None and min(A) < 0) or (B is not None and min(B) < 0)):
            out.add("divmod-negative")
        if k == ">>" and A is not None and min(A) < 0 and not dsl.psigned(x[1], fm):
            out.add("rshift-negative-logical")
    go(dsl.expand(expr))
    return out


# ----------------------------------------------------------------------------- execution of the real code
def rnd64(rng):
    r = rng.random()
    if r < 0.45:
        return rng.choice(EDGE64)
    if r < 0.6:
        return rng.getrandbits(31)               # fits every signed width >= 32
    if r < 0.7:
        return (-rng.getrandbits(rng.choice([3, 7, 15, 31]))) & M64
    return rng.getrandbits(rng.choice([8, 16, 32, 33, 64]))


def rnd_small(rng):
    """values that keep products, shifts and quotients inside the precondition"""
    r = rng.random()
    if r < 0.5:
        return rng.choice([0, 1, 2, 3, 5, 7, 31, 100, 1000])
    if r < 0.8:
        return (-rng.choice([1, 2, 3, 5, 100, 1000])) & M64
    return rng.getrandbits(12)


def make_inputs(rng, prog, small=False):
    pick = rnd_small if small else rnd64
    has_global = any(v[2] == "g" for v in prog["vars"])
    regs = {k: pick(rng) for k in prog["owned"] if k != 10 and not (k == 7 and has_global)}
    vars_ = {}
    for name, fmt, kind in prog["vars"]:
        vars_[name] = pick(rng) & ((1 << (8 * dsl.FSIZE[fmt])) - 1)
    return {"regs": {str(k): v for k, v in regs.items()}, "vars": vars_}


class Runner:
    """one accepted program: real instruction list, statement cuts, real layout"""

    def __init__(self, prog, built, insns):
        self.prog, self.built, self.insns = prog, built, insns
        self.layout = built.layout()
        self.fm = {n: f for n, f, _ in prog["vars"]}
        self.has_global = any(v[2] == "g" for v in prog["vars"])
        self.gsize = max([8] + [off + dsl.FSIZE[f] for (b, off, f) in self.layout.values() if b == 7])

    def addr(self, name):
        base, off, f = self.layout[name]
        return (interp.STACK_TOP if base == 10 else GLOBAL_BASE) + off

    def machine(self, code, regs, varbytes):
        regions = []
        g = None
        if self.has_global:
            g = interp.Region(GLOBAL_BASE, bytearray(self.gsize + 8), "globals")
            regions.append(g)
        m = interp.Machine(code + [(0x95, 0, 0, 0, 0)], regions)
        for k, v in regs.items():
            if k != 10:
                m.regs[k] = v & M64
                m.init[k] = True
        for name, raw in varbytes.items():
            m.store(self.addr(name), dsl.FSIZE[self.fm[name]], raw)
        return m

    def run_stmt(self, i, regs, varbytes):
        """execute the code of statement i from the given state; returns (regs', varbytes') or a fault string"""
        lo = self.built.cuts[i - 1] if i else 0
        code = [tuple(x) for x in self.insns[lo:self.built.cuts[i]]]
        m = self.machine(code, regs, varbytes)
        n = len(code)
        try:
            m.run()
        except interp.Fault as e:
            if not (m.trace and m.trace[-1] == n):
                return f"fault:{e}"
        regs2 = {k: m.regs[k] for k in range(10) if m.init[k]}
        vb2 = {name: m.load(self.addr(name), dsl.FSIZE[self.fm[name]]) for name in varbytes}
        return regs2, vb2


def check_program(ctx, prog, built, insns, inputs_list, replaying=False):
    """property oracle for one accepted program on several inputs; returns a short status string"""
    E = built.E
    R = Runner(prog, built, insns)
    status = []
    for inp in inputs_list:
        regs = {int(k): v for k, v in inp["regs"].items()}
        if R.has_global:
            regs[7] = GLOBAL_BASE
        varbytes = dict(inp["vars"])
        owned = set(prog["owned"])
        for i, st in enumerate(prog["stmts"]):
            dest, expr = st[1], st[2]
            W = dsl.width_W(prog, st)
            vals = {n: dsl.fmt_value(R.fm[n], raw) for n, raw in varbytes.items()}
            regview = dict(regs)
            regview.setdefault(10, interp.STACK_TOP)
            pcls = stmt_classes(E, st, built.objs[i], R.fm, built.flags[i])
            try:
                ref = dsl.eval_ref(expr, regview, vals)
                inside = dsl.pre_holds(expr, regview, vals, W)
            except dsl.Outside:
                ref, inside = None, False
            except KeyError:
                ref, inside = None, False
            res = R.run_stmt(i, regs, varbytes)
            case = {"prog": prog, "inputs": inp, "stmt": i}
            if not all(l[1] in owned for l in dsl.leaves(expr) if l[0] in dsl.VIEWS):
                # not well-typed: reads a register nobody owns (the generator's check is fooled when that register
                # is handed out as a temporary at that moment); outside the property, still under correspondence
                inside = False
                if not isinstance(res, str):
                    status.append("ill-typed-accepted")
                    regs, varbytes = res
                    if dest[0] != "v":
                        owned.add(dest[1])
                    continue
            if isinstance(res, str):
                if inside:
                    icls = input_classes(expr, regview, vals, R.fm)
                    cls = first_class(pcls, icls)
                    ctx.require(False, "generated code faults inside the precondition", case, res, cls)
                    status.append("fault")
                else:
                    status.append("outside-fault")
                break
            regs2, vb2 = res
            if not inside:
                # no claim about the destination's value; the frame condition is still checked
                cls = first_class(pcls, set())
                changed = [f"r{k}" for k in sorted(owned) if k != 10 and not (dest[0] != "v" and dest[1] == k)
                           and regs2.get(k) != regs.get(k)]
                changed += [n for n in varbytes if not (dest[0] == "v" and dest[1] == n) and vb2[n] != varbytes[n]]
                okf = ctx.require(not changed, "another owned register or declared variable changed", case,
                                  "changed=" + ",".join(changed), cls)
                status.append("outside" if okf else "fail:" + str(cls))
                if not okf:
                    break
            else:
                icls = input_classes(expr, regview, vals, R.fm)
                cls = first_class(pcls, icls)
                if dest[0] == "v":
                    f = R.fm[dest[1]]
                    got = dsl.fmt_value(f, vb2[dest[1]])
                    want = {dsl.fmt_value(f, v) for v in ref}
                else:
                    got = dsl.view_value(dest[0], regs2.get(dest[1], 0))
                    want = {dsl.view_value(dest[0], v) for v in ref}
                ok = ctx.require(got in want, "destination differs from the mathematical value (mod 2^width, destination format)",
                                 case, f"got={got} want={sorted(want)[:2]}", cls)
                changed = [f"r{k}" for k in sorted(owned) if k != 10 and not (dest[0] != "v" and dest[1] == k)
                           and regs2.get(k) != regs.get(k)]
                changed += [n for n in varbytes if not (dest[0] == "v" and dest[1] == n) and vb2[n] != varbytes[n]]
                ok2 = ctx.require(not changed, "another owned register or declared variable changed", case,
                                  "changed=" + ",".join(changed), cls)
                status.append("ok" if ok and ok2 else "fail:" + str(cls))
                if not (ok and ok2):
                    break      # the machine state is no longer the one the program's author reasons about
            regs, varbytes = regs2, vb2
            if dest[0] != "v":
                owned.add(dest[1])
    return status


def first_class(pcls, icls):
    for c in PROGRAM_CLASSES:
        if c in pcls:
            return c
    for c in INPUT_CLASSES:
        if c in icls:
            return c
    return None


# ----------------------------------------------------------------------------- canonical forms
def canon_real(res, built):
    if isinstance(res, str):
        return "err " + res
    fm = {n: f for n, f, _ in built.prog["vars"]}
    cls = []
    for st, obj, fl in zip(built.prog["stmts"], built.objs, built.flags):
        cls.append(",".join(sorted(c for c in stmt_classes(built.E, st, obj, fm, fl))) or "-")
    return ("ok " + " ".join(":".join(map(str, i)) for i in res) + " | " + " ; ".join(built.trees)
            + " | " + " ; ".join(cls))


def gen_programs(ctx):
    """the generated programs of this run, as (family, stage, program)"""
    rng = ctx.rng
    out = []
    n_rand = ctx.n(700, 40000)
    for stage in (1, 2, 3):
        for _ in range(n_rand):
            out.append((f"random-s{stage}", stage, dsl.gen_random(rng, stage)))
    for stage in (1, 2, 3):
        d1 = list(dsl.enum_depth1(stage))
        d2 = list(dsl.enum_depth2(stage))
        if ctx.quick:
            d1 = rng.sample(d1, min(len(d1), 900))
            d2 = rng.sample(d2, min(len(d2), 900))
        elif stage == 3:
            d2 = rng.sample(d2, min(len(d2), 60000))       # stages 1 and 2 are enumerated completely
        for d in d1:
            out.append((f"depth1-s{stage}", stage, dsl.build_desc(rng, d, stage)))
        for d in d2:
            out.append((f"depth2-s{stage}", stage, dsl.build_desc(rng, d, stage)))
    for _ in range(ctx.n(300, 6000)):
        out.append(("special", 3, dsl.gen_special(rng)))
    for _ in range(ctx.n(400, 8000)):
        out.append(("typing", 3, dsl.gen_typing(rng)))
    return out


def run(ctx):
    progs = gen_programs(ctx)
    ctx.extra["families"] = {}
    impl_lines, accepted = [], []
    for fam, stage, p in progs:
        res, built = dsl.emit_real(p, True)
        impl_lines.append(canon_real(res, built))
        kind = "accepted" if not isinstance(res, str) else res
        ctx.case(p, nontrivial=not isinstance(res, str) and len(res) > 1, kind=f"{fam}:{kind}")
        if not isinstance(res, str):
            accepted.append((fam, p, built, res))
    # (a) the tie: exact opcode lists, object trees, rejections and program-level classes
    model = ctx.drive(DRIVER, [p for _, _, p in progs], "emit")
    if model is not None:
        for (fam, stage, p), i, m in zip(progs, impl_lines, model):
            ctx.agree("emitted instruction list (real generator vs Gen)", p, i, m)
    # (b) the property oracle on the real emitted code
    ocount = 0
    accepted.sort(key=lambda a: len(a[3]))       # small programs first: the first stored failure is a small one
    for fam, p, built, res in accepted:
        if "special-m" in fam or any("m" == o for st in p["stmts"] for o in dsl.ops_of(st[2])):
            ctx.stats["oracle:skipped-computed-address"] += 1
            continue
        inputs = [make_inputs(ctx.rng, p, small=(k % 2 == 1)) for k in range(ctx.n(3, 6))]
        for st in check_program(ctx, p, built, res, inputs):
            ctx.stats["oracle:" + st] += 1
            ocount += 1
    ctx.extra["oracle_executions"] = ocount
    # (c) validation of the instruction-set model
    ctx.extra["isa_validation"] = isaval.validate(ctx, ctx.n(150, 3000))
    ctx.extra["corresponded_not_proved"] = CORRESPONDED_NOT_PROVED
    ctx.extra["proved_by_induction"] = PROVED


def replay(ctx, case):
    if "isa" in case:
        c = case["isa"]
        return {"interp": isaval.run_interp(c)}
    prog = case["prog"]
    res, built = dsl.emit_real(prog, True)
    if isinstance(res, str):
        return {"emit": res}
    st = check_program(ctx, prog, built, res, [case["inputs"]] if "inputs" in case else
                       [make_inputs(ctx.rng, prog, small=(k % 2 == 1)) for k in range(6)])
    return {"emit": res, "status": st, "classes": canon_real(res, built).split(" | ")[-1]}


PROVED = [
    "constants of any size (MOV imm / LD_IMM64)", "registers in the views r sr w sw (in place, forced 32/64-bit move)",
    "Binary incl. Sum and AndExpression at machine level for ALL operators (ADD SUB MUL DIV OR AND LSH RSH MOD XOR ARSH): "
    "immediate vs register form, temporary + final move when the right operand mentions the destination, release order",
    "Negate", "LocalVar / array-map variable reads of all eight formats (load + shift-pair sign extension)",
    "RegisterArray.__setitem__", "Memory._set (ST immediate and STX path, truncation by store width)",
    "integer semantics (evalBV = evalZ) for + - * | & ^ << and unary minus; operator-overload layer (elab_evalZ) for all operators "
    "without exception (Sum - expression, Sum +- int, int + Sum included; the operator overloads do not mutate their operands, so a "
    "shared object equals a copy of its tree)",
]
CORRESPONDED_NOT_PROVED = [
    "abs (Absolute: forward JSGE + NEG at the width of the computation, JMP32/NEG32 after a 32-bit one) -- modelled + corresponded + "
    "oracle at full strength (no class excuse); outside Expr.frag.  Proved separately (Lemmas/AbsSeg.lean, audited by C03): the two "
    "instructions as a closed segment (abs_segment) and abs on top of an operand of the fragment (abs_top_correct)",
    "computed addresses mB[...]..mq[...] with a non-Sum address (Expression.calculate/Memory.get_address) -- modelled + corresponded; "
    "not executed by the oracle; outside Expr.frag (a Sum address, e.g. mB[r3 + 8], IS inside calc_correct)",
    "// % >> : calc_correct proves the machine-level value (evalBV with the kernel's unsigned DIV/MOD, RSH/ARSH); the integer-level "
    "statement under the W-bit fit precondition is not proved (evalBV_eq_evalZ covers + - * | & ^ << neg only)",
    "requested width None (long inherited from the left operand; only reachable from comparisons, C03): modelled, not proved",
    "shift-range precondition is stated on the built tree (shiftsOk), not re-derived from the surface tree",
]
LEVEL_TEXT = ("Lean 4 proof by structural induction over expression trees of a hand-written model (Ebv.Gen) of the ebpfcat expression "
              "code generator: calc_correct (for every tree of the fragment, destination, width and generator state: the emitted "
              "non-jump segment computes the bit-vector value into the result register at the requested width, leaves every other "
              "owned register and memory alone, restores owners), evalBV_eq_evalZ (ring homomorphism Z -> BitVec 64/32 incl. & | ^ and "
              "<< under the shift-range precondition), elab_evalZ (the Python operator protocol preserves the value), assign/program "
              "theorems in terms of the validated instruction semantics Ebpf.run, C01_partial with the defect classes excluded by a "
              "decidable predicate, C01_full_refuted and one kernel-evaluated witness per defect class. Tie: exact opcode-list "
              "equality of the real generator and Gen (plus object trees, rejections and class predicates) on generated programs every "
              "run; the oracle executes the real code in an independent interpreter against Python big integers.")
LEVEL_NOTE = ("trusted: Lean kernel + propext/Classical.choice/Quot.sound; Gen <-> Python only as far as the generated programs reach; "
              "ISA model validated, not verified. Proved by induction: constants, register views, all Binary operators at machine level, "
              "Negate, variable reads/writes of the 8 formats, both store paths, __setitem__; integer level for + - * | & ^ << neg. "
              "Corresponded + oracle only (NOT proved): abs, computed non-Sum addresses, integer-level // % >>, width None. Known defect "
              "classes of the unchanged tree (each refuted in Lean on a witness): narrow-reg-in-64, "
              "divmod-negative, rshift-negative-logical. Repaired and now inside C01_partial at full strength: Sum - expression "
              "(was class sum-minus) and Sum +- int (returned None and changed the shared Constant); regression witness "
              "before_fix_sum_minus; unary operators on a register that is not forced into a destination (was class unary-in-place: "
              "the operator changed the user's register; it works on a copy now; calc_correct without the exclusion, regression witness "
              "before_fix_unary_in_place); unary minus / abs on a 32-bit operand inside a 64-bit computation (was class unary-32-in-64: "
              "executed in 32 bits; now `long or arg_long`; regression witness before_fix_unary_32_in_64). Repaired, checked by correspondence and the oracle without excuse: abs in a 32-bit computation "
              "(was class abs-32; regression witness before_fix_abs_32). Typing repaired (the checks had masked it: they took "
              "signedness from the implementation's objects): register +- int forgot the register's signedness, followed the merged "
              "number, & of two signed operands was unsigned; regression witnesses before_fix_sum_signed / _sum_merged / _and_signed; "
              "elab_psigned: model typing = property typing for every expression. Also seen, outside the property: a register nobody owns is accepted while it is handed out as a "
              "temporary.")
TECHNIQUE = "Lean 4 structural induction over expression trees (compiler correctness) + exact opcode-list correspondence"
DESIGN_REF = "§4 C01"
