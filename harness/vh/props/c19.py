"""C19 — process variables access their own bits and bytes on both paths.
Random terminals / PDO maps / Struct channels and generated Device subclasses are instantiated from /repo; the
same frame contents go through (i) the real Python path (`PacketVar.get/set` on a SyncGroup's `current_data`),
(ii) the real generated program of a FastSyncGroup (re-assembled from /repo, executed by the independent
interpreter) and (iii) the Lean model `Ebv.ProcVar`.  The oracle is a reference written from the property text
(big integers, `int.from_bytes`) over a layout recomputed independently of `allocate()`.

History of the PacketVar objects is part of the input: devices may have run before in another sync group
(`prior`), and one PacketVar object may be linked to two devices (`alias`).  These scenarios (`stale(case)`,
`shared(case)`) broke the Python path's cached accessors before the repair "fix: process variables kept stale
offsets when a device changed its sync group"; they are ordinary cases now and must pass the oracle.
A third kind of history is the *restart* (`restart`: the configurations of 1-2 earlier starts): the same SyncGroup object is started
through the real `SyncGroup.start()`, runs a cycle, its terminals get other process-data sizes / FMMU use, and it is started again
(the fast group: allocate + Python reads, then allocate + assemble); the oracle knows only the present configuration.
Program generation is part of the history too: in a fast group the devices of `prior` were compiled before in a FastSyncGroup of
their own, and every earlier configuration of `restart` had a FastSyncGroup object of its own over the same devices whose program
was generated (a group object is assembled once) before the present object is built.  Terminals may be instances of one class
(`twin`), and a variable may be reached through the very descriptor of another one on the other instance (`same`)."""
import struct

from .. import interp, progs
from ..core import canon

ID = "C19"
LEAN_MODULES = ["Ebv.Props.C19"]
MODEL_MODULES = ["Ebv.Model.ProcVar"]
DRIVER = "Drivers/C19.lean"
THEOREMS = [
    "Ebv.C19.py_own_bytes", "Ebv.C19.prog_own_bytes", "Ebv.C19.py_own_bit", "Ebv.C19.prog_own_bit",
    "Ebv.C19.paths_agree_get", "Ebv.C19.paths_agree_set", "Ebv.C19.paths_agree_copy",
    "Ebv.C19.paths_agree_get_bit", "Ebv.C19.paths_agree_test", "Ebv.C19.paths_agree_set_bit",
    "Ebv.C19.py_roundtrip", "Ebv.C19.prog_roundtrip", "Ebv.C19.bit_roundtrip",
    "Ebv.C19.step_agree", "Ebv.C19.run_agree", "Ebv.C19.rel_init",
    "Ebv.C19.run_agree_full", "Ebv.C19.run_agree_full_old_refuted", "Ebv.C19.run_agree_full_old_refuted_shared",
    "Ebv.C19.stale_start_old_vs_new", "Ebv.C19.shared_new_ok",
    "Ebv.C19.restart_invariant", "Ebv.C19.restart_agree", "Ebv.C19.restart_read", "Ebv.C19.restart_witness",
    "Ebv.C19.generation_leaves_nothing", "Ebv.C19.generated_only_history", "Ebv.C19.generation_agree", "Ebv.C19.generation_witness",
    "Ebv.C19.prog_addr_in_payload", "Ebv.C19.resolve_packet", "Ebv.C19.resolve_process", "Ebv.C19.width_table",
]
TRUSTED = ["hand-written model Ebv.ProcVar of PacketVar.get/set (Python path) and of the code Memory.calculate/_set emit for "
           "PacketVar.fmt_addr (program path), tied by exact three-way correspondence: real Python path, real bytecode "
           "(re-assembled each run) in harness/vh/interp.py, Lean model",
           "harness/vh/interp.py; Python's struct module for '<'+fmt"]
ASSUMPTIONS = ["values written are representable in the destination format (otherwise Python raises struct.error while the program "
               "truncates: outside the property); bit numbers 0..7; formats B H I Q b h i q",
               "output enabled (wkc_errors != 0, working counters as expected) and frame long enough, else the program leaves the frame alone (C21)",
               "pdo_assign is what allocate() computes (C18); the harness re-derives the layout independently and requires equality",
               "a cached accessor is modelled as (device, pdo_assign of the terminal it was built under); `pdo_assign is not assign` as "
               "inequality of that assignment (an equal assignment gives the same start); one PacketVar object = one terminal variable",
               "a group that is started again keeps its terminals and their positions (SyncGroupBase orders its terminals once, in __init__); "
               "what changes between starts are the terminals' process-data sizes and FMMU use; a fast group is allocated again before "
               "its program is assembled (EBPF.assemble appends, a group cannot be assembled twice)",
               "DeviceVars hold values of their own format; a Struct linked directly to a TerminalVar cannot be put into a sync group "
               "(Device.get_terminals needs .sm) and assigning to a Struct member only shadows the descriptor: not exercised"]
RULE = ("history: fresh objects (~65%), devices that ran before in a sync group of their own (~15%), the group object itself started "
        "once or twice before (real SyncGroup.start(); FastSyncGroup: allocate + Python reads) while its terminals had other process-data "
        "sizes / FMMU use (~15%; for the fast path each earlier configuration also had a FastSyncGroup object of its own whose program was "
        "generated, and `prior` devices were compiled in a fast group of their own), a PacketVar object linked to two devices (~5%); "
        "~20% of the configurations have a second instance of one terminal class (same PDO table, other position/sizes/FMMU use) with "
        "1-2 variables reached through the same descriptor on both instances; case = 1-3 terminals (FMMU or not, random position/sizes, pdos table with byte formats and bit numbers, several variables "
        "sharing a byte, Struct channels with sm3/sm2/coe offsets, ProcessDesc with size override, PacketDesc) x 1-2 generated Device "
        "subclasses whose program()/update() run 1-5 statements (var=var, bit=bit, bit=const, var=const, dv=var, var=dv, bit=var, "
        "var=bit, bit=dv) x random region contents (sign-bit/all-ones biased) and Ethernet header; non-trivial = the frame changes "
        "or a value is read")

FMTS = "BHIQbhiq"
IN, OUT = 3, 2


def width(f):
    return {"b": 1, "h": 2, "i": 4, "q": 8}[f.lower()]


def signed(f):
    return f.islower()


def frange(f):
    n = 8 * width(f)
    return (-(1 << (n - 1)), (1 << (n - 1)) - 1) if signed(f) else (0, (1 << n) - 1)


def fits(f, v):
    lo, hi = frange(f)
    return lo <= v <= hi


def struct_offsets(s):
    """Struct(sm3=0, sm2=None, coe=None) as the property text reads it: (IN offset, OUT offset, CoE index offset)"""
    if s is None:
        return 0, 0, 0
    sm3 = s[0] if len(s) > 0 else 0
    sm2 = s[1] if len(s) > 1 else sm3
    coe = s[2] if len(s) > 2 else sm3
    return sm3, sm2, coe


def resolve(case, v):
    """(sm, position in the terminal's region, size) of a variable, from the case alone"""
    sin, sout, coe = struct_offsets(v["struct"])
    d = v["desc"]
    if d[0] == "packet":
        return d[1], d[2] + (sin if d[1] == IN else sout), d[3]
    for i, s, sm, off, size in case["terms"][v["t"]]["pdos"]:
        if (i, s) == (d[1] + coe, d[2]):
            return sm, off, (size if d[3] is None else d[3])
    raise KeyError("no such pdo")


def layout(case, devs=None):
    """where every terminal's region lies in the EtherCAT frame (independent of allocate()): no-FMMU terminals get one
    FPRD and, if written, one FPWR datagram each, in position order; then one LRD and one LWR datagram hold the FMMU
    terminals' regions back to back.  Datagram = 10 header + data + 2 working counter; first datagram at 16."""
    res = [resolve(case, v) for v in case["vars"]]
    mine = [devs is None or v["dev"] in devs for v in case["vars"]]     # a group of only some of the devices
    used = sorted({v["t"] for v, m in zip(case["vars"], mine) if m}, key=lambda ti: case["terms"][ti]["position"])
    rw = {ti: any(r[0] == OUT for r, v, m in zip(res, case["vars"], mine) if m and v["t"] == ti) for ti in used}
    pos, regions, wkc, writers = 16, {}, [], []
    for ti in used:
        ts = case["terms"][ti]
        if ts["fmmu"]:
            continue
        if ts["in_sz"]:
            regions[ti, IN] = pos + 10
            pos += 12 + ts["in_sz"]
            wkc.append(pos - 2)
        if rw[ti] and ts["out_sz"]:
            regions[ti, OUT] = pos + 10
            writers.append([pos, pos + 10 + ts["out_sz"], 5, 1])
            pos += 12 + ts["out_sz"]
            wkc.append(pos - 2)
    fin = [ti for ti in used if case["terms"][ti]["fmmu"] and case["terms"][ti]["in_sz"]]
    fout = [ti for ti in used if case["terms"][ti]["fmmu"] and rw[ti] and case["terms"][ti]["out_sz"]]
    for lst, sm, key in ((fin, IN, "in_sz"), (fout, OUT, "out_sz")):
        if not lst:
            continue
        start, acc = pos, pos + 10
        for ti in lst:
            regions[ti, sm] = acc
            acc += case["terms"][ti][key]
        pos = acc + 2
        wkc.append(pos - 2)
        if sm == OUT:
            writers.append([start, pos - 2, 11, len(lst)])
    return {"res": res, "regions": regions, "size": pos, "wkc": wkc, "writers": writers}


def starts(lay, case):
    return [lay["regions"][v["t"], r[0]] + r[1] if (v["t"], r[0]) in lay["regions"] else None
            for v, r in zip(case["vars"], lay["res"])]


def accessed(case):
    """per variable: is it read (getter) / written (setter) by a statement"""
    g, w = set(), set()
    for o in case["ops"]:
        if o["op"] == "get":
            g.add(o["src"])
        else:
            w.add(o["dst"])
            if o["src"][0] == "var":
                g.add(o["src"][1])
    return g, w


def stale(case):
    """history class `stale-start` (former finding): some device ran before in a sync group that gave one of the variables it
    accesses another start than the present group does"""
    if not case.get("prior"):
        return False
    now, before = starts(layout(case), case), starts(layout(case, case["prior"]["devs"]), case)
    g, w = accessed(case)
    return any(v["dev"] in case["prior"]["devs"] and vi in g | w and before[vi] != now[vi] for vi, v in enumerate(case["vars"]))


def shared(case):
    """history class `shared-packetvar` (former finding): one PacketVar object is linked to TerminalVars of two devices"""
    return any(v.get("alias") is not None and case["vars"][v["alias"]]["dev"] != v["dev"] for v in case["vars"])


def earlier_case(case, k):
    """the configuration the group had at its k-th earlier start (`restart`: per start, per terminal the process-data sizes
    and the FMMU flag of that time); positions, PDO tables, variables and statements are those of the case"""
    return {**case, "terms": [{**t, **o} for t, o in zip(case["terms"], case["restart"][k])]}


def restarted(case):
    """history class `restart`: the group object itself was started before under another configuration and some accessed
    variable started elsewhere then"""
    g, w = accessed(case)
    now = starts(layout(case), case)
    return any(starts(layout(earlier_case(case, k)), case)[vi] != now[vi]
               for k in range(len(case.get("restart") or [])) for vi in g | w)


def history(case):
    if case.get("restart"):
        return "restart-changed-start" if restarted(case) else "restart-same-start"
    return ("stale-start" if stale(case) else "earlier-group-same-start" if case.get("prior") else
            "shared-packetvar" if shared(case) else "fresh-objects")


def ordered_ops(case):
    return sorted(case["ops"], key=lambda o: o["dev"])     # stable: devices run in order, statements in program order


def reference(case, lay, frame):
    """the property text: every statement reads its source's own bytes/bit and writes exactly its destination's own
    bytes/bit (little endian, two's complement), nothing else; both paths must produce this frame and these values"""
    data = bytearray(frame)
    st = starts(lay, case)
    dvs = [d["init"] for d in case["dvs"]]
    own = {}

    def rd(vi):
        size = lay["res"][vi][2]
        if isinstance(size, int):
            return (data[st[vi]] >> size) & 1
        return int.from_bytes(data[st[vi]:st[vi] + width(size)], "little", signed=signed(size))
    for o in ordered_ops(case):
        if o["op"] == "get":
            v = rd(o["src"])
            if not fits(case["dvs"][o["dv"]]["fmt"], v):
                return None
            dvs[o["dv"]] = v
            continue
        kind, x = o["src"]
        v = x if kind == "const" else rd(x) if kind == "var" else dvs[x]
        size, s = lay["res"][o["dst"]][2], st[o["dst"]]
        if isinstance(size, int):
            data[s] = (data[s] & (0xff ^ (1 << size))) | ((1 << size) if v else 0)
            own[s] = own.get(s, 0) | (1 << size)
        else:
            if not fits(size, v):
                return None
            data[s:s + width(size)] = v.to_bytes(width(size), "little", signed=signed(size))
            for k in range(width(size)):
                own[s + k] = 0xff
    return bytes(data), dvs, own


class Impl:
    """the two real paths; groups are cached per configuration (the frame contents vary)"""

    def __init__(self):
        self.key = None

    def groups(self, case):
        key = canon({"t": case["terms"], "v": case["vars"], "d": [(d["dev"], d["fmt"]) for d in case["dvs"]], "o": case["ops"]})
        if case.get("prior") or case.get("restart") or any(v.get("alias") is not None for v in case["vars"]):
            key = None              # the history of the PacketVar objects matters: fresh objects for every case
        if key is None or key != self.key:
            self.S = progs.procvar_group(case, fast=False)
            self.F = progs.procvar_group(case, fast=True)
            self.key = key
        return self.S, self.F

    def frames(self, case, lay, S):
        """EtherCAT frame as the Python path sees it (working counters cleared, as update_devices leaves them) and the
        Ethernet frame the program sees (sterile writers, working counters as expected)"""
        base = bytearray(S["sg"].packet.assemble(7, 0x88A4))
        for key, hexs in case["regions"].items():
            ti, sm = (int(x) for x in key.split(":"))
            if (ti, sm) in lay["regions"]:
                b = bytes.fromhex(hexs)
                p = lay["regions"][ti, sm]
                base[p:p + len(b)] = b
        for w in lay["wkc"]:
            base[w:w + 2] = b"\0\0"
        py = bytes(base)
        for cmdpos, wkcpos, cmd, cnt in lay["writers"]:
            base[cmdpos] = 0
            struct.pack_into("<H", base, wkcpos, cnt)
        return py, bytes.fromhex(case["hdr"]) + bytes(base)

    def run_py(self, case, S, frame):
        sg = S["sg"]
        if isinstance(sg.current_data, bytearray):       # the group was started: its process image is refreshed in place
            sg.current_data[:] = frame
        else:
            sg.current_data = bytearray(frame)
        for j, d in enumerate(case["dvs"]):
            setattr(S["devs"][d["dev"]], f"dv{j}", d["init"])
        try:
            for dev in sg.devices:
                dev.update()
        except struct.error:
            return "struct-error", None
        except AssertionError:
            return "assertion-error", None
        except Exception as e:               # e.g. ValueError: byte must be in range(0, 256)
            return "other:" + type(e).__name__, None
        return bytes(sg.current_data), [int(S["devs"][d["dev"]].__dict__[f"dv{j}"]) for j, d in enumerate(case["dvs"])]

    def run_fast(self, case, F, pkt):
        mp = interp.ArrayMapModel(F["var_fd"], F["var_size"])
        mem = mp.value.data
        struct.pack_into("<I", mem, F["off_wkc_errors"], 1)
        for j, d in enumerate(case["dvs"]):
            struct.pack_into("<" + d["fmt"], mem, F["dv_off"][j], d["init"])
        regions, pk = interp.xdp_regions(pkt)
        m = interp.Machine(F["insns"], regions + [mp.value], interp.std_helpers({F["var_fd"]: mp}))
        m.wr(1, interp.CTX_BASE)
        try:
            r0 = m.run()
        except interp.Fault as e:
            r0 = "fault"
        vals = [struct.unpack_from("<" + d["fmt"], mem, F["dv_off"][j])[0] for j, d in enumerate(case["dvs"])]
        errs, = struct.unpack_from("<I", mem, F["off_wkc_errors"])
        return r0, bytes(pk.data), vals, errs


def fmt_line(st, addrs, pyf, pyv, pyreads, fastf, fastv, fastreads):
    j = lambda xs: "-" if xs is None or isinstance(xs, str) else ",".join(str(int(x)) for x in xs)
    return (f"starts={j(st)} addrs={j(addrs)} py={pyf if isinstance(pyf, str) else pyf.hex()} pyv={j(pyv)} reads={j(pyreads)} "
            f"prog={fastf.hex()} progv={j(fastv)} reads={j(fastreads)}")


def read_all(G, case, data):
    """Python `get` of every linked variable on a frame (slow group: after update(); fast group: what fast_update()
    sees in the frame that came back)"""
    G["sg"].current_data = data
    try:
        return [int(getattr(G["devs"][v["dev"]], f"tv{vi}")) for vi, v in enumerate(case["vars"])]
    except Exception as e:
        return "other:" + type(e).__name__
    finally:
        if "insns" in G:
            G["sg"].current_data = None


def check_one(ctx, impl, case):
    lay = layout(case)
    st = starts(lay, case)
    try:
        S, F = impl.groups(case)
    except Exception as e:        # the working tree cannot build the groups / generate the program for this configuration
        impl.key = None
        ctx.require(False, "sync groups cannot be built / program cannot be generated", case, f"{type(e).__name__}: {e}", "build")
        return "build-error", b"", {"prior": None, "slow": [], "fast": [], "generated": []}, True, False, sorted(opkind(case, lay, o) for o in case["ops"])
    # layout and offset resolution of the real objects against the independent one
    for G, nm in ((S, "slow"), (F, "fast")):
        real = {(ti, sm.value): off for ti, t in enumerate(G["terms"]) if t in G["sg"].pdo_assign
                for sm, off in G["sg"].pdo_assign[t].items()}
        ctx.require(real == lay["regions"] and G["sg"].packet.size == lay["size"],
                    f"{nm} group: terminal regions differ from the frame layout", case, f"{real} vs {lay['regions']}", "layout")
    real_st = [pv._start(S["devs"][v["dev"]]) for pv, v in zip(S["pvs"], case["vars"])]
    real_fa = [pv.fmt_addr(F["devs"][v["dev"]]) for pv, v in zip(F["pvs"], case["vars"])]
    ctx.require(real_st == st, "Python path: variable does not start at region + position (+ struct offset)", case, f"{real_st} vs {st}", "start")
    ctx.require([a for _, a in real_fa] == [s + 14 for s in st], "program path: address is not the variable's start in the Ethernet frame",
                case, f"{[a for _, a in real_fa]} vs {[s + 14 for s in st]}", "addr")
    want_fmt = [((r[2], 1) if isinstance(r[2], int) else r[2]) for r in lay["res"]]
    ctx.require([f for f, _ in real_fa] == want_fmt, "program path: format is not the variable's format / bit", case, None, "fmt")

    pyframe, pkt = impl.frames(case, lay, S)
    pyout, pyvals = impl.run_py(case, S, pyframe)
    r0, fastout, fastvals, errs = impl.run_fast(case, F, pkt)
    pyreads = None if isinstance(pyout, str) else read_all(S, case, bytearray(pyout))
    fastreads = read_all(F, case, fastout[14:])
    ref = reference(case, lay, pyframe)
    hdr = bytes.fromhex(case["hdr"])
    if S["prior"] is not None:
        pl = layout(case, case["prior"]["devs"])
        psg = S["prior"]["sg"]
        real = {(ti, sm.value): off for ti, t in enumerate(S["terms"]) if t in psg.pdo_assign for sm, off in psg.pdo_assign[t].items()}
        ctx.require(real == pl["regions"], "earlier group: terminal regions differ from the frame layout", case, f"{real} vs {pl['regions']}", "layout")
    for G, nm in ((S, "slow"), (F, "fast")):               # the earlier starts of the same group were laid out as declared then
        for k, r in enumerate(G["restarts"]):
            el = layout(earlier_case(case, k))
            real = {(ti, sm.value): off for ti, t in enumerate(G["terms"]) if t in r["assign"] for sm, off in r["assign"][t].items()}
            ctx.require(real == el["regions"], f"{nm} group, earlier start {k}: terminal regions differ from the frame layout", case,
                        f"{real} vs {el['regions']}", "layout")
    for g in F["generated"]:            # earlier program generations ran under the layout declared for that time
        el = layout(earlier_case(case, g["restart"])) if "restart" in g else layout(case, case["prior"]["devs"])
        real = {(ti, sm.value): off for ti, t in enumerate(F["terms"]) if t in g["assign"] for sm, off in g["assign"][t].items()}
        ctx.require(real == el["regions"], "fast group, earlier program generation: terminal regions differ from the frame layout", case,
                    f"{real} vs {el['regions']}", "layout")
    if ref is not None:
        want, wvals, own = ref
        obs = f"python={pyout if isinstance(pyout, str) else pyout.hex()} program={fastout[14:].hex()} want={want.hex()} values py={pyvals} prog={fastvals} want={wvals}"
        ctx.require(pyout == want, "Python path: frame after the statements is not 'only own bytes/bit written with the value'", case, obs, "py-frame")
        ctx.require(pyvals == wvals, "Python path: value read is not the variable's own bytes/bit", case, obs, "py-value")
        ctx.require(r0 == 3 and errs == 1 and fastout[:14] == hdr, "program: not transmitted / working counter error / Ethernet header touched", case,
                    f"r0={r0} wkc_errors={errs} hdr={fastout[:14].hex()}", "prog-run")
        ctx.require(fastout[14:] == want, "program path: frame after the statements is not 'only own bytes/bit written with the value'", case, obs, "prog-frame")
        ctx.require(fastvals == wvals, "program path: value read is not the variable's own bytes/bit", case, obs, "prog-value")
        ctx.require(pyout == fastout[14:] and pyvals == fastvals, "the two paths leave different frames / values", case, obs, "paths-differ")
        wreads = [(want[s] >> r[2]) & 1 if isinstance(r[2], int) else
                  int.from_bytes(want[s:s + width(r[2])], "little", signed=signed(r[2])) for s, r in zip(st, lay["res"])]
        ctx.require(pyreads == wreads and fastreads == wreads, "Python get of a variable on the final frame is not its own bytes/bit "
                    "(slow group / fast group's received frame)", case, f"slow={pyreads} fast={fastreads} want={wreads}", "py-read")
        if not isinstance(pyout, str):
            for nm, before, after in (("python", pyframe, pyout), ("program", pyframe, fastout[14:])):
                stray = [k for k in range(len(before)) if (before[k] ^ after[k]) & ~own.get(k, 0) & 0xff]
                ctx.require(not stray, f"{nm} path changed bytes/bits that belong to no written variable", case, f"offsets {stray}",
                            "own-bytes")
    changed = ref is not None and (ref[0] != pyframe or any(o["op"] == "get" for o in case["ops"]))
    kinds = sorted(opkind(case, lay, o) for o in case["ops"])
    return (fmt_line(real_st, [a for _, a in real_fa], pyout, pyvals, pyreads, fastout, fastvals, fastreads), pyframe,
            {"prior": S["prior"], "slow": S["restarts"], "fast": F["restarts"], "generated": F["generated"]}, ref is not None, changed, kinds)


def opkind(case, lay, o):
    cls = lambda vi: "bit" if isinstance(lay["res"][vi][2], int) else "var:" + lay["res"][vi][2]
    if o["op"] == "get":
        return f"dv={cls(o['src'])}"
    k, x = o["src"]
    return f"{cls(o['dst'])}={'const' if k == 'const' else 'dv' if k == 'dv' else cls(x)}"


# ---- generator ---------------------------------------------------------------------------------------------------
def pick_byte(rng):
    return rng.choice([0, 0xff, 0x80, 0x7f, 1, 0xfe]) if rng.random() < 0.45 else rng.randrange(256)


def gen_config(rng):
    nterm = rng.choice([1, 1, 2, 2, 3])
    positions = rng.sample(range(0, 40), nterm)
    terms = []
    for ti in range(nterm):
        pdos, sizes = [], {}
        for sm, base_index in ((IN, 0x6000), (OUT, 0x7000)):
            off = 0
            channels = rng.choice([1, 1, 2])
            for ch in range(channels):                  # channel ch lives at CoE index + 0x10*ch
                sub = 1
                for _ in range(rng.randrange(1, 4)):
                    if rng.random() < 0.45:             # a byte shared by several bit variables
                        bits = rng.sample(range(8), rng.randrange(1, 5))
                        for b in bits:
                            pdos.append([base_index + 0x10 * ch, sub, sm, off, b])
                            sub += 1
                        off += 1
                    else:
                        f = rng.choice("BHIQ")
                        pdos.append([base_index + 0x10 * ch, sub, sm, off, f])
                        sub += 1
                        off += width(f)
            sizes[sm] = off + rng.randrange(0, 3)
        terms.append({"position": positions[ti], "fmmu": rng.random() < 0.5, "in_sz": sizes[IN], "out_sz": sizes[OUT], "pdos": pdos})
    if rng.random() < 0.2:          # a second terminal of the same type: an instance of the same class, same PDO table, elsewhere
        k = rng.randrange(nterm)
        free = [p for p in range(40) if p not in positions]
        terms.append({**terms[k], "position": rng.choice(free), "fmmu": rng.random() < 0.5, "twin": k,
                      "in_sz": terms[k]["in_sz"] + rng.choice([0, 0, 1, 2]), "out_sz": terms[k]["out_sz"] + rng.choice([0, 0, 1, 2])})
    return terms


def gen_var(rng, terms, dev, want_sm=None, want_bit=None, want_fmt=None):
    """a variable declared on a terminal in one of the ways the library offers"""
    for _ in range(200):
        ti = rng.randrange(len(terms))
        ts = terms[ti]
        how = rng.random()
        if how < 0.55:                                   # ProcessDesc looked up in the pdos table
            e = rng.choice(ts["pdos"])
            sm = e[2]
            coe = (e[0] & 0xf0)
            struct_ = None
            index = e[0]
            if coe or rng.random() < 0.3:                # through a Struct channel: index = template + coe offset
                index = e[0] - coe
                struct_ = rng.choice([[rng.randrange(0, 4), rng.randrange(0, 4), coe], [coe]]) if coe else \
                    rng.choice([[0], [rng.randrange(0, 4), rng.randrange(0, 4), 0]])
            size = None
            nat = e[4]
            if not isinstance(nat, int) and rng.random() < 0.4:   # size override: same width, maybe signed
                size = rng.choice([nat, nat.lower()])
            elif isinstance(nat, int) and rng.random() < 0.15:
                size = rng.choice(["B", "b", rng.randrange(8)])
            v = {"t": ti, "dev": dev, "desc": ["process", index, e[1], size], "struct": struct_}
        else:                                            # PacketDesc with explicit position, maybe inside a Struct
            sm = rng.choice([IN, OUT])
            sz = ts["in_sz"] if sm == IN else ts["out_sz"]
            size = rng.choice(list(FMTS)) if rng.random() < 0.6 else rng.randrange(8)
            w = 1 if isinstance(size, int) else width(size)
            if sz < w:
                continue
            total = rng.randrange(0, sz - w + 1)
            struct_ = None
            position = total
            if rng.random() < 0.5:
                so = rng.randrange(0, total + 1)
                position = total - so
                other = rng.randrange(0, 5)
                struct_ = rng.choice([[so], [so, so], [so, other, 0] if sm == IN else [other, so, 0]])
                if len(struct_) == 2 and sm == OUT:
                    struct_ = [other, so]
            v = {"t": ti, "dev": dev, "desc": ["packet", sm, position, size], "struct": struct_}
        rsm, rpos, rsize = resolve({"terms": terms}, v)
        if want_sm is not None and rsm != want_sm:
            continue
        if want_bit is not None and isinstance(rsize, int) != want_bit:
            continue
        if want_fmt is not None and (isinstance(rsize, int) or rsize not in want_fmt):
            continue
        w = 1 if isinstance(rsize, int) else width(rsize)
        if rpos + w > (ts["in_sz"] if rsm == IN else ts["out_sz"]):
            continue
        return v
    return None


def contained(src, dst):
    a, b = frange(src), frange(dst)
    return b[0] <= a[0] and a[1] <= b[1]


def gen_const(rng, f):
    lo, hi = frange(f)
    edge = [0, 1, lo, hi, hi - 1, lo + 1, 0x7f, 0x80, 0xff, 0x7fff, 0x8000, 0x7fffffff, 0x80000000, 0xffffffff, -1, -0x80000000, -0x80000001]
    c = [e for e in edge if lo <= e <= hi]
    return rng.choice(c) if rng.random() < 0.6 else rng.randrange(lo, hi + 1)


def gen_case_config(rng):
    terms = gen_config(rng)
    ndev = rng.choice([1, 1, 1, 2])
    vars_, dvs, ops = [], [], []

    def add(v):
        vars_.append(v)
        return len(vars_) - 1

    def size_of(vi):
        return resolve({"terms": terms}, vars_[vi])[2]
    for dev in range(ndev):
        for _ in range(rng.randrange(1, 6)):
            kind = rng.choice(["var=var", "bit=bit", "bit=const", "var=const", "dv=var", "dv=bit", "var=dv", "bit=var", "var=bit", "bit=dv"])
            dk, sk = kind.split("=")
            if dk == "dv":
                s = gen_var(rng, terms, dev, want_bit=(sk == "bit"))
                if s is None:
                    continue
                si = add(s)
                sz = size_of(si)
                if isinstance(sz, int):
                    f = rng.choice(list(FMTS))
                else:
                    f = rng.choice([g for g in FMTS if contained(sz, g)]) if rng.random() < 0.9 else rng.choice(list(FMTS))
                lo, hi = frange(f)
                dvs.append({"dev": dev, "fmt": f, "init": rng.randrange(lo, hi + 1)})
                ops.append({"dev": dev, "op": "get", "dv": len(dvs) - 1, "src": si})
                continue
            d = gen_var(rng, terms, dev, want_sm=OUT if rng.random() < 0.85 else None, want_bit=(dk == "bit"))
            if d is None:
                continue
            di = add(d)
            dsz = size_of(di)
            if sk == "const":
                k = rng.choice([0, 1, 1, 0, True, False, 2, 255, -1]) if isinstance(dsz, int) else gen_const(rng, dsz)
                ops.append({"dev": dev, "op": "set", "dst": di, "src": ["const", k]})
            elif sk == "dv":
                if isinstance(dsz, int):
                    f = rng.choice(list(FMTS))
                else:
                    f = rng.choice([g for g in FMTS if contained(g, dsz)]) if rng.random() < 0.85 else rng.choice(list(FMTS))
                lo, hi = frange(f)
                init = rng.choice([0, 0, lo, hi, 1]) if rng.random() < 0.5 else rng.randrange(lo, hi + 1)
                dvs.append({"dev": dev, "fmt": f, "init": init})
                ops.append({"dev": dev, "op": "set", "dst": di, "src": ["dv", len(dvs) - 1]})
            else:
                reuse = [i for i, v in enumerate(vars_) if v["dev"] == dev and isinstance(size_of(i), int) == (sk == "bit")]
                if reuse and rng.random() < 0.35:       # read something an earlier statement may have written
                    si = rng.choice(reuse)
                else:
                    wf = None
                    if sk == "var" and not isinstance(dsz, int) and rng.random() < 0.75:
                        wf = [g for g in FMTS if contained(g, dsz)]
                    s = gen_var(rng, terms, dev, want_bit=(sk == "bit"), want_fmt=wf)
                    if s is None:
                        continue
                    si = add(s)
                ops.append({"dev": dev, "op": "set", "dst": di, "src": ["var", si]})
    if not ops:
        return None
    devs_used = sorted({o["dev"] for o in ops})
    if devs_used != list(range(len(devs_used))):         # devices numbered densely
        m = {d: i for i, d in enumerate(devs_used)}
        for x in ops + vars_ + dvs:
            if x["dev"] in m:
                x["dev"] = m[x["dev"]]
        vars_ = [v for v in vars_ if v["dev"] in m.values()]
    cfg = {"terms": terms, "vars": vars_, "dvs": dvs, "ops": ops}
    twins = {t["twin"]: ti for ti, t in enumerate(terms) if "twin" in t}
    twins.update({v: k for k, v in twins.items()})
    if twins:               # the same descriptor reached on the other instance of the class, by the same or another device
        g, w = accessed(cfg)
        cand = [vi for vi, v in enumerate(vars_) if v["t"] in twins and vi in g | w]
        for k in rng.sample(cand, min(len(cand), rng.randrange(1, 3))):
            dev = rng.choice(sorted({o["dev"] for o in ops}))
            vars_.append({**vars_[k], "t": twins[vars_[k]["t"]], "dev": dev, "same": k})
            size = resolve(cfg, vars_[-1])[2]
            if k in g and (k not in w or rng.random() < 0.5):
                f = rng.choice(list(FMTS)) if isinstance(size, int) else rng.choice([x for x in FMTS if contained(size, x)])
                dvs.append({"dev": dev, "fmt": f, "init": 0})
                ops.append({"dev": dev, "op": "get", "dv": len(dvs) - 1, "src": len(vars_) - 1})
            else:
                c = rng.choice([0, 1]) if isinstance(size, int) else gen_const(rng, size)
                ops.append({"dev": dev, "op": "set", "dst": len(vars_) - 1, "src": ["const", c]})
    r = rng.random()
    ndev = 1 + max(o["dev"] for o in ops)
    if r < 0.15:            # the devices (or one of them) ran before in a sync group of their own
        cfg["prior"] = {"devs": rng.choice([[0], [1], [1], [0, 1]]) if ndev == 2 else [0]}
    elif r < 0.3:           # the group itself was started before (once or twice) while its terminals were configured differently
        cfg["restart"] = gen_restart(rng, cfg)
    elif r < 0.35:          # a second device is linked to the very PacketVar object a first one uses
        g, w = accessed(cfg)
        cand = [vi for vi, v in enumerate(vars_) if v["dev"] == 0 and vi in g | w]
        if cand:
            k = rng.choice(cand)
            vars_.append({**vars_[k], "dev": 1, "alias": k})
            size = resolve(cfg, vars_[k])[2]
            if k in g and (k not in w or rng.random() < 0.5):
                f = rng.choice(list(FMTS)) if isinstance(size, int) else rng.choice([x for x in FMTS if contained(size, x)])
                dvs.append({"dev": 1, "fmt": f, "init": 0})
                ops.append({"dev": 1, "op": "get", "dv": len(dvs) - 1, "src": len(vars_) - 1})
            else:
                c = rng.choice([0, 1]) if isinstance(size, int) else gen_const(rng, size)
                ops.append({"dev": 1, "op": "set", "dst": len(vars_) - 1, "src": ["const", c]})
    return cfg


def gen_restart(rng, cfg):
    """1-2 earlier configurations of the terminals: process-data sizes grown or shrunk (never below what the variables and
    the PDO table need), FMMU use switched; at least one terminal differs each time"""
    need = {}
    for v in cfg["vars"]:
        sm, pos, size = resolve(cfg, v)
        need[v["t"], sm] = max(need.get((v["t"], sm), 0), pos + (1 if isinstance(size, int) else width(size)))
    for ti, ts in enumerate(cfg["terms"]):
        for i, s_, sm, off, size in ts["pdos"]:
            need[ti, sm] = max(need.get((ti, sm), 0), off + (1 if isinstance(size, int) else width(size)))
    out = []
    for _ in range(rng.choice([1, 1, 2])):
        conf = [{"in_sz": ts["in_sz"], "out_sz": ts["out_sz"], "fmmu": ts["fmmu"]} for ts in cfg["terms"]]
        for ti in rng.sample(range(len(conf)), rng.randrange(1, len(conf) + 1)):
            c = conf[ti]
            for key, sm in (("in_sz", IN), ("out_sz", OUT)):
                if rng.random() < 0.6:
                    c[key] = max(need.get((ti, sm), 0), c[key] + rng.choice([-3, -2, -1, 1, 1, 2, 3, 8]))
            if rng.random() < 0.3:
                c["fmmu"] = not c["fmmu"]
        out.append(conf)
    return out


def gen_contents(rng, cfg):
    regions = {}
    small = rng.random() < 0.3                          # small magnitudes so that narrowing copies stay representable
    for ti, ts in enumerate(cfg["terms"]):
        for sm, key in ((IN, "in_sz"), (OUT, "out_sz")):
            if small:
                b = bytes(rng.choice([0, 0, 0, 1, 0xff, rng.randrange(256)]) for _ in range(ts[key]))
            else:
                b = bytes(pick_byte(rng) for _ in range(ts[key]))
            regions[f"{ti}:{sm}"] = b.hex()
    dvs = []
    for d in cfg["dvs"]:
        lo, hi = frange(d["fmt"])
        init = rng.choice([0, lo, hi, 1]) if rng.random() < 0.4 else rng.randrange(lo, hi + 1)
        dvs.append({**d, "init": init})
    return {**cfg, "dvs": dvs, "regions": regions, "hdr": bytes(rng.randrange(256) for _ in range(14)).hex()}


def model_line(case, lay, pyframe, prior):
    """what the Lean driver needs: the case plus what allocate() decided (taken from the independent layout, which the
    real groups were required to equal)"""
    vs = []
    for v in case["vars"]:
        s = struct_offsets(v["struct"])
        vs.append({"pdos": case["terms"][v["t"]]["pdos"], "struct": list(s), "desc": v["desc"],
                   "assign_in": lay["regions"].get((v["t"], IN)), "assign_out": lay["regions"].get((v["t"], OUT)),
                   "obj": len(vs) if v.get("alias") is None else v["alias"], "dev": v["dev"]})
    ops = [{"op": o["op"], **({"dv": o["dv"], "src": o["src"]} if o["op"] == "get" else
                              {"dst": o["dst"], "kind": o["src"][0], "x": int(o["src"][1])})} for o in ordered_ops(case)]
    line = {"frame": pyframe.hex(), "hdr": case["hdr"], "vars": vs, "dvs": [[d["fmt"], d["init"]] for d in case["dvs"]], "ops": ops}
    hist, prior = prior, prior["prior"]
    if prior is not None:            # the earlier group: its layout (independent), its frame, the statements of its devices
        pl = layout(case, case["prior"]["devs"])
        line["prior"] = [{"assign": [[pl["regions"].get((v["t"], IN)), pl["regions"].get((v["t"], OUT))] if v["dev"] in case["prior"]["devs"]
                                     else None for v in case["vars"]],
                          "frame": prior["frame"].hex(),
                          "ops": [m for m, o in zip(ops, ordered_ops(case)) if o["dev"] in case["prior"]["devs"]]}]
    # earlier starts of the same group (independent layout of the configuration of that time): the slow group ran one cycle of
    # all statements each time, in the fast group Python read every variable
    for key, rs in (("prior", hist["slow"]), ("fprior", hist["fast"])):
        for k, r in enumerate(rs):
            el = layout(earlier_case(case, k))
            line.setdefault(key, []).append({"assign": [[el["regions"].get((v["t"], IN)), el["regions"].get((v["t"], OUT))] for v in case["vars"]],
                                             "frame": r["frame"].hex(), "ops": ops if key == "prior" else []})
    # earlier program generations for the fast group's objects (an earlier fast group of some of the devices, earlier
    # FastSyncGroup objects of the same devices under the configuration of that time): layout only, nothing is executed
    for g in hist["generated"]:
        el = layout(earlier_case(case, g["restart"])) if "restart" in g else layout(case, case["prior"]["devs"])
        line.setdefault("gprior", []).append({"assign": [[el["regions"].get((v["t"], IN)), el["regions"].get((v["t"], OUT))]
                                                         if v["dev"] in g["devs"] else None for v in case["vars"]],
                                              "frame": "", "ops": []})
    return line


def run(ctx):
    impl = Impl()
    cases, outs, lines = [], [], []
    nconf = ctx.n(1500, 25000)
    for _ in range(nconf):
        cfg = None
        while cfg is None:
            cfg = gen_case_config(ctx.rng)
        for _ in range(ctx.rng.choice([1, 2, 4])):
            case = gen_contents(ctx.rng, cfg)
            out, pyframe, prior, indomain, changed, kinds = check_one(ctx, impl, case)
            ctx.case(case, nontrivial=changed, kind="representable" if indomain else "unrepresentable")
            ctx.stats["history:" + history(case)] += 1
            for k in kinds:                      # distribution: statement kinds, formats, layout features
                a, b = k.split("=")
                ctx.stats["stmt:" + a.split(":")[0] + "=" + b.split(":")[0]] += 1
                for side, x in (("dst", a), ("src", b)):
                    if ":" in x:
                        ctx.stats[f"{side}-fmt:{x.split(':')[1]}"] += 1
            ctx.stats["struct-vars"] += sum(v["struct"] is not None for v in case["vars"])
            ctx.stats["fmmu-terminals"] += sum(t["fmmu"] for t in case["terms"])
            ctx.stats["same-class-terminals"] += sum("twin" in t for t in case["terms"])
            ctx.stats["same-descriptor-vars"] += sum(v.get("same") is not None for v in case["vars"])
            ctx.stats["devices:%d" % (1 + max(o["dev"] for o in case["ops"]))] += 1
            cases.append(case)
            outs.append(out)
            lines.append(model_line(case, layout(case), pyframe, prior))
        if len(cases) >= 5000:               # the model side in batches, to bound memory in the thorough tier
            flush(ctx, cases, outs, lines)
    flush(ctx, cases, outs, lines)
    ctx.extra["configurations"] = nconf


def flush(ctx, cases, outs, lines):
    model = ctx.drive(DRIVER, lines, "procvar")
    if model is not None:
        for c, i, m in zip(cases, outs, model):
            ctx.agree("process variables: starts, frames and values on both paths", c, i, m)
    del cases[:], outs[:], lines[:]


def replay(ctx, case):
    out, pyframe, prior, indomain, changed, kinds = check_one(ctx, Impl(), case)
    return {"result": out, "representable": indomain, "statements": kinds,
            "history": history(case)}


LEVEL_TEXT = ("Lean 4 proof over a hand-written model of both paths: for all frames, offsets, formats B H I Q b h i q and bit numbers 0..7 and all "
              "representable values, PacketVar.set (Python) and the emitted store / read-modify-write (program; constant and run-time Boolean) "
              "change only the variable's own bytes / own bit (the other 7 bits and every other byte are unchanged), Python get on the EtherCAT "
              "frame equals the program's load + sign extension / mask + shift on the Ethernet frame with that payload (modulo the register "
              "width), both sets and var-to-var copies leave the same frame, and values round-trip on each format's range; offsets resolve to "
              "pdo_assign + position (+ Struct offset) and + ETHERNET_HEADER (regenerated) for the program; run_agree: for every list of "
              "statements of a device (var/bit = var/bit/DeviceVar/constant, DeviceVar = var/bit) the program path leaves exactly the frame "
              "and DeviceVar values of the Python path as _start of the present group defines it (run_agree), and of the real Python path with "
              "its accessors cached on the PacketVar objects whatever is cached there (earlier sync groups, objects linked to several "
              "devices): run_agree_full, no hypothesis on the history. The caching before the repair commit is kept as bindOld and refuted "
              "on the two former witnesses (run_agree_full_old_refuted, ..._shared; stale_start_old_vs_new, shared_new_ok). Restart: whatever "
              "history of earlier starts the objects went through (same group re-allocated under other layouts, other groups, cycles ended by "
              "exceptions, Python reads in a fast group) the present cycle is that of fresh objects and agrees with the program "
              "(restart_invariant, restart_agree, restart_read; restart_witness = the case an accessor that survives allocate() gets wrong); "
              "earlier program generations leave nothing on the objects (generation_leaves_nothing, generated_only_history, generation_agree; "
              "generation_witness = the address kept from an earlier generation writes the byte of the old layout). Tie: three-way exact correspondence "
              "(real Python path, real bytecode re-assembled every run and interpreted, model) on random terminals / PDO maps / devices.")
LEVEL_NOTE = ("trusted: Lean kernel + standard axioms; hand model validated by differential execution (not verified against the bytecode); "
              "interpreter semantics; unrepresentable values, bit numbers > 7, direct Struct links are outside the property")
TECHNIQUE = "Lean 4 proof (byte-codec lemmas, exhaustive kernel evaluation over all bytes x bit numbers) + three-way differential correspondence"
DESIGN_REF = "§4 C19"
