"""C15 — mailbox exchanges with a terminal are serialised and counted.

Real code driven here (all from /repo's working tree, nothing edited):
  cycle     MailboxLock.next_counter / ParallelMailboxLock.next_counter, n successive calls
  inproc    one real MailboxLock shared by real asyncio tasks; every suspension point of a task is a gate the
            schedule opens (phases of the event loop: the gates of one batch are opened together)
  terminal  real Terminal.sdo_read / sdo_write from several tasks over a scripted bus (mailbox headers observed)
  cross     real LockFile + ParallelMailboxLock run by emulated processes (one thread + one event loop each) over
            an emulation of the os/fcntl file operations (record locks owned per process), one scheduling point
            per file operation; with backend "fork": really forked processes on a temporary directory, real
            files and real lockf, the schedule enforced through pipes
  addr      real EtherCat.find_free_address (scripted randint) -> real ParallelEtherCat.get_mbx_lock
  mbxbus    real EtherCat (connect with a stub endpoint, sendloop, process_packet) + 1-3 real Terminals configured by the
            real parse_sync_managers, 1-4 tasks doing SDO reads/writes with retries over a frame-level bus of simulated
            mailbox terminals; attempts fail BEFORE anything is written (status read unanswered, stale mail whose fetch
            fails) and are retried; judged are the mailbox headers each simulated terminal received
  hist      histories: real EtherCat + real Terminal.sdo_read / sdo_write (expedited and segmented) / coe_request
            (with fragments) with either lock class; every transfer ends in one of all ways - normally, abort answer
            at any exchange (EtherCatError inside the block), a datagram not processed at any bus access, Task.cancel()
            while suspended in any bus access, a terminal that answers late or never - and is followed by the next
            user: same task, other task, or (lock file) another LockFile + ParallelMailboxLock object (= another
            process, alternating phases).  Judged: every mailbox header on the bus and who put it there, and what
            the lock keeps afterwards (MailboxLock.counter / the byte in the real lock file)
In inproc and cross a block may also be LEFT BY AN EXCEPTION while its request is out ([n, cut, mode]: an error
raised in the block, or Task.cancel() on the block's task), at every position, followed by further users.
The three defects this check found (creation window, tasks of one process, upper end of the address range) are
repaired in /repo; their former counterexample schedules are now ordinary cases that must pass.
Each observable trace is compared exactly with the Lean model (Ebv.Mbx via Drivers/C15.lean); the property text
is evaluated on the implementation's trace by the oracles below, independent of the model."""
import asyncio
import fcntl
import json
import logging
import os
import queue
import re
import select
import shutil
import struct
import tempfile
import threading
import types

ID = "C15"
LEAN_MODULES = ["Ebv.Props.C15"]
MODEL_MODULES = ["Ebv.Model.Mbx"]
DRIVER = "Drivers/C15.lean"
THEOREMS = [
    "Ebv.C15.counter_next", "Ebv.C15.counter_cycle",
    "Ebv.C15.inproc_serialised", "Ebv.C15.inproc_counted",
    "Ebv.C15.retries_serialised", "Ebv.C15.retries_counted", "Ebv.C15.retries_total",
    "Ebv.C15.crossproc_serialised", "Ebv.C15.creation_window_safe", "Ebv.C15.holder_can_proceed",
    "Ebv.C15.addr_accepted",
    "Ebv.C15.same_process_witness_now", "Ebv.C15.creation_window_witness_now",
    "Ebv.C15.failed_total", "Ebv.C15.counter_tracks_bus", "Ebv.C15.file_tracks_bus",
    "Ebv.C15.failed_exchange_witness", "Ebv.C15.failed_crossproc_witness",
]
TRUSTED = ["hand-written model Ebv.Mbx of MailboxLock / LockFile / ParallelMailboxLock, tied by exact trace correspondence",
           "asyncio.Lock semantics (FIFO waiters, release wakes the first) and POSIX semantics of O_EXCL, ftruncate, lockf "
           "(per-process record locks), pread, pwrite as modelled; the emulation in harness/vh/props/c15.py is cross-checked "
           "against the kernel on the forked-process cases",
           "mbxMod/mbxStart/addrLo/addrHi regenerated from /repo into Ebv.Generated.Consts"]
ASSUMPTIONS = ["no task cancellation while still WAITING for a lock (cancellation and errors inside the block are covered at every "
               "await); a process is single threaded",
               "a message is its mailbox header put on the bus (FPWR on the out mailbox): from then on its counter is used up, "
               "whether or not the terminal processed the datagram or the rest of the message followed (the master cannot know); "
               "a failure before that consumes nothing",
               "in hist the simulated terminal drops the unread answer to an abandoned request when the next request arrives "
               "(what a later user reads after somebody else's cancelled exchange is not part of this property)",
               "one lock object per (process, terminal): tasks of a process share it, as Terminal.mbx_lock does",
               "the lock file is not removed while in use (removal belongs to C23)",
               "random.randint(a, b) may return b",
               "liveness is claimed only as: the holder of the record lock is never blocked (holder_can_proceed); fair "
               "scheduling of processes and tasks is the environment's"]
RULE = ("cycle: c0 in 0..7 x n<=40; inproc: 1-4 tasks x 1-2 critical sections x 0-3 exchanges, random batched schedules; "
        "terminal: 2-3 tasks x 1-3 SDO transfers with random yields; cross: 1-3 processes x 1-3 tasks, file absent, full or "
        "short, terminal byte anywhere in the inclusive range, random (process, task) schedules + every interleaving of the "
        "first four steps of two processes on an absent file (thorough: every interleaving of all eight steps of two "
        "processes on a present file); fork: the former counterexample schedules and controls on really forked processes; "
        "addr: both ends of terminal_addr_range and random members; mbxbus: 1-3 terminals (symmetric and asymmetric mailbox sizes) x "
        "1-4 tasks x 1-4 SDO transfers, 0-3 unanswered status reads, 0-2 stale mails (fetched, or their fetch unanswered) per "
        "terminal, every transfer retried until it succeeds; inproc/cross: in 60% of the cases blocks are left by an error or "
        "a Task.cancel() while a request is out (40% of their blocks, any position, both modes) + two forked-process cases; hist: "
        "mailbox or parallel lock, 1-3 lock objects on one lock file in 1-5 alternating phases, 1-3 tasks x 1-3 transfers "
        "(sdo_read expedited/1-3 segments, sdo_write expedited/1-3 segments, coe_request 1-2 fragments, answers 0-2 polls late), "
        "ending ok / abort at any exchange / datagram lost at any access / cancelled in any access / never answered, terminal "
        "address at both ends of the range; non-trivial = at least two users sent a message (mbxbus: a failed "
        "attempt followed by a message that left; hist: a transfer that failed or was cancelled after sending, followed by a message)")


def succ(c):
    """the cycle of the property text: 0 -> 1, 1 -> 2, ..., 6 -> 7, 7 -> 1"""
    return 1 if c in (0, 7) else c + 1


def sec(x):
    """a block `async with lock:`: n complete exchanges, left normally (an int), or [n, cut, mode] - with cut != 0 one
    more request is sent and the block is then left by an exception before the response is read: mode 0 an error is
    raised inside the block, mode 1 the task is cancelled (Task.cancel) while it waits for the response"""
    if isinstance(x, int):
        return x, 0, 0
    return x[0], x[1], (x[2] if len(x) > 2 else 0)


class Boom(Exception):
    """what a failed exchange raises inside the block"""



# ----------------------------------------------------------------------------------------------------------
# cycle
# ----------------------------------------------------------------------------------------------------------
def run_cycle(case):
    import ebpfcat.lock as lk
    n, c0 = case["n"], case["c0"]
    if case["which"] == "mailbox":
        async def go():
            m = lk.MailboxLock()
            m.counter = c0 if case.get("preset") else m.counter
            async with m:
                return [m.next_counter() for _ in range(n)]
        seq = asyncio.run(go())
    else:
        lf = lk.LockFile.__new__(lk.LockFile)
        lf.minimum, lf.maximum = 0, 8
        pl = lk.ParallelMailboxLock(lf, 3)
        pl.counter = c0
        seq = [pl.next_counter() for _ in range(n)]
    return " ".join(map(str, seq))


def oracle_cycle(ctx, case, out):
    seq = [int(x) for x in out.split()]
    ok = all(b == succ(a) for a, b in zip(seq, seq[1:])) and all(1 <= x <= 7 for x in seq[1:]) \
        and (not seq or 0 <= seq[0] <= 7)
    ctx.require(ok, "successive counters leave the cycle 0?,1,...,7,1,...", case, out, None)


# ----------------------------------------------------------------------------------------------------------
# inproc: real MailboxLock, real tasks, scripted yields
# ----------------------------------------------------------------------------------------------------------
def run_inproc(case):
    import ebpfcat.lock as lk
    out = []

    async def main():
        loop = asyncio.get_running_loop()
        lock = lk.MailboxLock()
        gates, cancels, planned = {}, {}, set()
        holder = [None]

        def gate(t):
            f = loop.create_future()
            gates[t] = f
            return f

        async def block(t, spec):
            """one `async with lock:` (a task of its own, so that it can be cancelled like a timed-out transfer)"""
            n, cut, mode = sec(spec)
            me = asyncio.current_task()
            try:
                await gate(t)
                async with lock:
                    holder[0] = t
                    out.append(f"a{t}")
                    for _ in range(n):
                        await gate(t)
                        out.append(f"s{t}={lock.next_counter()}")
                        await gate(t)
                        out.append(f"r{t}")
                    if cut:
                        await gate(t)
                        out.append(f"s{t}={lock.next_counter()}")
                        if mode == 0:
                            await gate(t)
                            out.append(f"x{t}")
                            raise Boom()
                        cancels[t] = me
                        try:
                            await gate(t)
                        except asyncio.CancelledError:
                            if me in planned:
                                out.append(f"x{t}")
                            raise
                    await gate(t)
            except Boom:
                pass
            except asyncio.CancelledError:
                if me not in planned:
                    raise
            out.append(f"l{t}")
            holder[0] = None

        async def user(t, sections):
            try:
                for spec in sections:
                    await loop.create_task(block(t, spec))
            except asyncio.CancelledError:
                raise
            except Exception as ex:
                out.append(f"e{t}:{type(ex).__name__}")

        async def settle():
            for _ in range(6):
                await asyncio.sleep(0)

        ts = [loop.create_task(user(t, secs)) for t, secs in enumerate(case["tasks"])]
        await settle()
        for batch in case["sched"]:
            for t in batch:
                f = gates.pop(t, None)
                if f is not None:
                    c = cancels.pop(t, None)
                    if c is not None:
                        planned.add(c)
                        c.cancel()
                    else:
                        f.set_result(None)
            await settle()
            nw = len(lock._waiters) if lock._waiters else 0
            out.append(("/-" if holder[0] is None else f"/{holder[0]}") + ("L" if lock.locked() else "U") + str(nw))
        out.append(f"k{lock.counter}")          # what the lock keeps for the next user
        for t in ts:
            t.cancel()
        await asyncio.gather(*ts, return_exceptions=True)

    asyncio.run(main())
    return " ".join(out)


def oracle_inproc(ctx, case, out):
    """no two critical sections overlap, each request is answered before the next one leaves,
    counters consecutive in the cycle across all tasks, ownership reported by the lock is the section's owner"""
    inside = pend = last = None
    bad = None
    for tok in out.split():
        k = tok[0]
        if k == "/":
            m = re.match(r"/(-|\d+)([LU])(\d+)$", tok)
            own = None if m.group(1) == "-" else int(m.group(1))
            locked = m.group(2) == "L"
            if (inside is not None) != locked or own != inside:
                bad = bad or f"lock ownership {tok} while task {inside} is inside"
            continue
        if k == "e":
            bad = bad or f"task failed: {tok}"
            continue
        if k == "k":        # after the schedule: the counter the lock keeps continues the count of the bus
            if not ((last is None and tok[1:] in "01234567" and len(tok) == 2) or
                    (last is not None and tok[1:] == str(succ(last)))):
                bad = bad or f"the lock keeps {tok[1:]} for the next user after counter {last} on the bus"
            continue
        t = int(tok[1:].split("=")[0])
        if k == "a":
            if inside is not None:
                bad = bad or f"task {t} entered while task {inside} is inside"
            inside = t
        elif k == "l":
            if inside != t or pend is not None:
                bad = bad or f"task {t} left out of turn"
            inside = None
        elif k == "s":
            c = int(tok.split("=")[1])
            if inside != t or pend is not None:
                bad = bad or f"message of task {t} interleaves with task {inside if inside != t else pend}"
            if not ((last is None and 0 <= c <= 7) or (last is not None and c == succ(last))):
                bad = bad or f"counter {c} after {last}"
            last, pend = c, t
        elif k == "r":
            if pend != t:
                bad = bad or f"response read by task {t} while request of {pend} is out"
            pend = None
        elif k == "x":      # the block is left by an exception: its request stays unanswered, the exchange is over
            if pend != t:
                bad = bad or f"task {t} abandons a request while request of {pend} is out"
            pend = None
    ctx.require(bad is None, "in-process exchanges not serialised/counted: " + str(bad), case, out, None)


# ----------------------------------------------------------------------------------------------------------
# terminal: real sdo_read / sdo_write over a scripted bus
# ----------------------------------------------------------------------------------------------------------
def run_terminal(case):
    from ebpfcat.ethercat import Terminal, EtherCat, ECCmd
    log = []
    yields = list(case["yields"])
    OUT, OUTSZ, IN, INSZ = 0x1000, 64, 0x1100, 64
    state = {"pending": None}

    class EC:
        get_mbx_lock = EtherCat.get_mbx_lock

        async def roundtrip(self, cmd, pos, offset, *args, data=None, idx=0):
            me = int(asyncio.current_task().get_name())
            for _ in range(yields.pop() if yields else 0):
                await asyncio.sleep(0)
            if cmd is ECCmd.FPRD and offset == 0x805:
                return (0,)
            if cmd is ECCmd.FPWR and offset == OUT:
                fmt, size, addr, chprio, tc = args[:5]
                log.append(f"q{me}={tc >> 4}")
                od, index, sub = args[7], args[8], args[9]
                state["pending"] = (me, index, sub, od & 0xe0)
                return ()
            if cmd is ECCmd.FPWR and offset == OUT + OUTSZ - 1:
                return ()
            if cmd is ECCmd.FPRD and offset == 0x80D:
                return (8,)
            if cmd is ECCmd.FPRD and offset == IN:
                who, index, sub, kind = state["pending"]
                log.append(f"p{me}")
                sdocmd = 0x43 if kind == 0x40 else 0x60
                body = struct.pack("<HBHB4s", 3 << 12, sdocmd, index, sub, b"abcd")
                return (len(body), 0, 0, 3, body + bytes(INSZ - 6 - len(body)))
            raise AssertionError(f"unexpected bus access {cmd} {offset:x}")

    async def main():
        ec = EC()
        term = Terminal(ec)
        term.position = 1234
        term.mbx_out_off, term.mbx_out_sz, term.mbx_in_off, term.mbx_in_sz = OUT, OUTSZ, IN, INSZ
        term.mbx_lock = ec.get_mbx_lock(term.position)
        term.name = "t"

        async def user(t, ops):
            try:
                for op in ops:
                    if op == "r":
                        await term.sdo_read(0x6000 + t, 1)
                    else:
                        await term.sdo_write(b"\x01\x02", 0x7000 + t, 2)
            except Exception as ex:
                log.append(f"e{t}:{type(ex).__name__}")
        await asyncio.gather(*[asyncio.get_running_loop().create_task(user(t, ops), name=str(t))
                               for t, ops in enumerate(case["tasks"])])
    asyncio.run(main())
    return " ".join(log)


def oracle_terminal(ctx, case, out):
    pend = last = None
    bad = None
    for tok in out.split():
        if tok[0] == "e":
            bad = bad or f"transfer failed: {tok}"
        elif tok[0] == "q":
            t, c = tok[1:].split("=")
            c = int(c)
            if pend is not None:
                bad = bad or f"request of task {t} written while request of task {pend} is unanswered"
            if not ((last is None and 0 <= c <= 7) or (last is not None and c == succ(last))):
                bad = bad or f"counter {c} after {last}"
            pend, last = t, c
        elif tok[0] == "p":
            if pend != tok[1:]:
                bad = bad or f"task {tok[1:]} read the response to task {pend}"
            pend = None
    ctx.require(bad is None, "mailbox headers on the bus not serialised/counted: " + str(bad), case, out, None)


# ----------------------------------------------------------------------------------------------------------
# cross: LockFile / ParallelMailboxLock as cooperating processes
# ----------------------------------------------------------------------------------------------------------
_tls = threading.local()


class Quit(SystemExit):
    """ends a participant from inside a scheduling point (asyncio lets SystemExit through)"""


class EmuFS:
    """one file, shared by all emulated processes; record locks are owned by a process"""
    def __init__(self, file):
        self.present = file is not None
        self.data = bytearray(file or b"")
        self.owner = {}          # byte -> process
        self.fds = {}            # (process, fd) -> position

    def makedirs(self, w, path, exist_ok=False):
        pass

    def open(self, w, fn, flags):
        if flags & os.O_CREAT and flags & os.O_EXCL:
            if self.present:
                raise FileExistsError(17, "File exists", fn)
            self.present = True
            self.data = bytearray()
        elif not self.present:
            raise FileNotFoundError(2, "No such file", fn)
        fd = 100 + len(self.fds)
        self.fds[w.p, fd] = 0
        return fd

    def write(self, w, fd, data):
        pos = self.fds[w.p, fd]
        if len(self.data) < pos:
            self.data.extend(bytes(pos - len(self.data)))
        self.data[pos:pos + len(data)] = data
        self.fds[w.p, fd] = pos + len(data)
        return len(data)

    def ftruncate(self, w, fd, n):
        assert (w.p, fd) in self.fds
        if len(self.data) < n:
            self.data.extend(bytes(n - len(self.data)))
        else:
            del self.data[n:]

    def pread(self, w, fd, n, off):
        assert (w.p, fd) in self.fds
        return bytes(self.data[off:off + n])

    def pwrite(self, w, fd, data, off):
        assert (w.p, fd) in self.fds
        if len(self.data) < off:
            self.data.extend(bytes(off - len(self.data)))
        self.data[off:off + len(data)] = data
        return len(data)

    def lockf(self, w, fd, cmd, length, start):
        assert (w.p, fd) in self.fds
        rng = range(start, start + length)
        if cmd & fcntl.LOCK_UN:
            for b in rng:
                if self.owner.get(b) == w.p:
                    del self.owner[b]
            return
        if any(self.owner.get(b, w.p) != w.p for b in rng):
            if cmd & fcntl.LOCK_NB:
                raise BlockingIOError(11, "Resource temporarily unavailable")
            raise AssertionError("blocking lockf in the emulation")
        for b in rng:
            self.owner[b] = w.p

    def close(self, w, fd):
        self.fds.pop((w.p, fd), None)


class RealFS:
    """the kernel"""
    def makedirs(self, w, path, exist_ok=False):
        os.makedirs(path, exist_ok=exist_ok)

    def open(self, w, fn, flags):
        return os.open(fn, flags)

    def write(self, w, fd, data):
        return os.write(fd, data)

    def ftruncate(self, w, fd, n):
        return os.ftruncate(fd, n)

    def pread(self, w, fd, n, off):
        return os.pread(fd, n, off)

    def pwrite(self, w, fd, data, off):
        return os.pwrite(fd, data, off)

    def lockf(self, w, fd, cmd, length, start):
        return fcntl.lockf(fd, cmd, length, start)

    def close(self, w, fd):
        os.close(fd)


class _OsProxy:
    """stands in for the name `os` inside ebpfcat.lock"""
    def __getattr__(self, name):
        return getattr(os, name)

    def makedirs(self, path, mode=0o777, exist_ok=False):
        w = _tls.worker
        return w.fs.makedirs(w, path, exist_ok=exist_ok)

    def open(self, fn, flags, mode=0o777):
        return _tls.worker.op_open(fn, flags)

    def write(self, fd, data):
        return _tls.worker.op_write(fd, data)

    def ftruncate(self, fd, n):
        return _tls.worker.op_ftruncate(fd, n)

    def pread(self, fd, n, off):
        return _tls.worker.op_pread(fd, n, off)

    def pwrite(self, fd, data, off):
        return _tls.worker.op_pwrite(fd, data, off)

    def close(self, fd):
        w = _tls.worker
        return w.fs.close(w, fd)


class _FcntlProxy:
    def __getattr__(self, name):
        return getattr(fcntl, name)

    def lockf(self, fd, cmd, len=0, start=0, whence=0):
        return _tls.worker.op_lockf(fd, cmd, len, start)


async def _gate_sleep(delay=0, result=None):
    """`await sleep(0)` of the lock's retry loop: a suspension point of the task"""
    w = _tls.worker
    await w.gate(w.me())


class Patched:
    """install the environment stand-ins into ebpfcat.lock (module attributes only; /repo is untouched)"""
    def __enter__(self):
        import ebpfcat.lock as lk
        self.lk = lk
        self.saved = (lk.os, lk.fcntl, lk.sleep)
        lk.os, lk.fcntl, lk.sleep = _OsProxy(), _FcntlProxy(), _gate_sleep
        return lk

    def __exit__(self, *a):
        self.lk.os, self.lk.fcntl, self.lk.sleep = self.saved


class Worker:
    """one process: LockFile(), one ParallelMailboxLock shared by its tasks, an event loop.
    It runs only when the controller grants a step; it reports the events of that step."""
    def __init__(self, p, tasks, comm, fs, fn, size, off):
        self.p, self.tasks, self.comm, self.fs, self.fn = p, tasks, comm, fs, fn
        self.size, self.off = size, off
        self.events = []
        self.gates = {}
        self.cancels, self.planned = {}, set()
        self.credit = False      # the step just granted has not yet performed its operation
        self.granted = False
        self.quitting = False
        self.ts = []

    # -- protocol ------------------------------------------------------------------------------------------
    def flush(self):
        if self.granted:
            self.granted = False
            ev, self.events = self.events, []
            self.comm.send(["done", ev])

    def sched_point(self):
        if self.quitting:
            raise OSError("participant is being torn down")
        if self.credit:
            self.credit = False
            return
        self.flush()
        while True:
            cmd = self.recv()
            if cmd[0] == "quit":
                raise Quit()
            me = self.me()
            if me is None or cmd[1] == me:
                self.granted = True
                return
            self.comm.send(["noop", []])

    def recv(self):
        if self.quitting:
            return ["quit"]
        cmd = self.comm.recv()
        if cmd[0] == "quit":
            self.quitting = True
        return cmd

    def gate(self, t):
        f = self.loop.create_future()
        self.gates[t] = f
        return f

    def ev(self, tok):
        self.events.append(tok)

    def me(self):
        """the task that is running (None: the process is in LockFile.__init__)"""
        try:
            name = asyncio.current_task().get_name()
        except RuntimeError:
            return None
        return int(name[1:]) if name.startswith("u") else None

    def who(self):
        me = self.me()
        return f"{self.p}" if me is None else f"{self.p}.{me}"

    # -- file operations = scheduling points ---------------------------------------------------------------
    def op_open(self, fn, flags):
        self.sched_point()
        excl = bool(flags & os.O_CREAT and flags & os.O_EXCL)
        try:
            fd = self.fs.open(self, fn, flags)
        except FileExistsError:
            self.ev(f"c{self.p}-")
            raise
        self.ev(f"c{self.p}+" if excl else f"o{self.p}")
        return fd

    def op_write(self, fd, data):
        self.sched_point()
        self.ev(f"w{self.p}")
        return self.fs.write(self, fd, data)

    def op_ftruncate(self, fd, n):
        self.sched_point()
        self.ev(f"w{self.p}")
        return self.fs.ftruncate(self, fd, n)

    def op_lockf(self, fd, cmd, length, start):
        self.sched_point()
        if cmd & fcntl.LOCK_UN:
            self.ev(f"U{self.who()}")
            return self.fs.lockf(self, fd, cmd, length, start)
        try:
            r = self.fs.lockf(self, fd, cmd, length, start)
        except OSError:
            self.ev(f"B{self.who()}")
            raise
        self.ev(f"L{self.who()}")
        return r

    def op_pread(self, fd, n, off):
        self.sched_point()
        r = self.fs.pread(self, fd, n, off)
        self.ev(f"R{self.who()}" + (f"={r[0]}" if len(r) == 1 else "!" if not r else f"={r.hex()}"))
        return r

    def op_pwrite(self, fd, data, off):
        self.sched_point()
        self.ev(f"W{self.who()}=" + (str(data[0]) if len(data) == 1 else data.hex()))
        return self.fs.pwrite(self, fd, data, off)

    # -- the process ---------------------------------------------------------------------------------------
    async def block(self, t, spec, pl, st):
        """one `async with pl:` (a task of its own, so that it can be cancelled like a timed-out transfer)"""
        p = self.p
        n, cut, mode = sec(spec)
        me = asyncio.current_task()
        try:
            st["phase"] = "enter"
            await self.gate(t)
            async with pl:
                st["phase"] = "body"
                self.ev(f">{p}.{t}")
                for i in range(n + (1 if cut else 0)):
                    await self.gate(t)
                    self.credit = False
                    try:
                        c = pl.next_counter()
                    except TypeError:
                        self.ev(f"S{p}.{t}!")
                        st["phase"] = "dead"
                        raise
                    self.ev(f"S{p}.{t}={c}")
                    if i == n:          # the request that stays unanswered: the block is left by an exception
                        if mode == 0:
                            await self.gate(t)
                            self.ev(f"X{p}.{t}")
                            st["phase"] = "exit"
                            raise Boom()
                        self.cancels[t] = me
                        try:
                            await self.gate(t)
                        except asyncio.CancelledError:
                            if me in self.planned:
                                self.ev(f"X{p}.{t}")
                                st["phase"] = "exit"
                            raise
                    await self.gate(t)
                    self.credit = False
                    self.ev(f"V{p}.{t}")
                await self.gate(t)
                st["phase"] = "exit"
        except Boom:
            pass
        except asyncio.CancelledError:
            if me not in self.planned:
                raise
        st["phase"] = "out"
        self.ev(f"<{p}.{t}")

    async def user(self, t, sections, pl):
        p = self.p
        st = {"phase": "out"}
        try:
            for spec in sections:
                await self.loop.create_task(self.block(t, spec, pl, st), name=f"u{t}")
        except asyncio.CancelledError:
            raise
        except Exception as ex:
            name = type(ex).__name__
            if st["phase"] == "exit" and name == "TypeError":
                self.ev(f"W{p}.{t}!")
            self.ev(f"!{p}.{t}:{name}")

    async def main(self, lk):
        lo = 1000
        pl = None
        try:
            lf = lk.LockFile(self.fn, lo, lo + self.size)
            pl = lk.ParallelMailboxLock(lf, lo + self.off)
        except Exception as ex:
            self.ev(f"!{self.p}:{type(ex).__name__}")
        ts = []
        if pl is not None:
            ts = self.ts = [self.loop.create_task(self.user(t, secs, pl), name=f"u{t}")
                            for t, secs in enumerate(self.tasks)]
        try:
            while True:
                for _ in range(6):
                    await asyncio.sleep(0)
                self.credit = False
                self.flush()
                cmd = self.recv()
                if cmd[0] == "quit":
                    break
                f = self.gates.pop(cmd[1], None)
                if f is None:
                    self.comm.send(["noop", []])
                    continue
                self.granted = self.credit = True
                c = self.cancels.pop(cmd[1], None)
                if c is not None:               # Task.cancel() on the block that waits for its response
                    self.planned.add(c)
                    c.cancel()
                else:
                    f.set_result(None)
        finally:
            for t in ts:
                t.cancel()
            await asyncio.gather(*ts, return_exceptions=True)

    def run(self, lk):
        _tls.worker = self
        self.loop = asyncio.new_event_loop()
        try:
            self.loop.run_until_complete(self.main(lk))
        except Quit:
            pass
        except BaseException as ex:      # a harness problem, never silently dropped
            self.comm.send(["crash", [f"X{self.p}:{type(ex).__name__}:{ex}"]])
        finally:
            self.quitting = True
            try:
                pending = asyncio.all_tasks(self.loop)
                for t in pending:
                    t.cancel()
                if pending:
                    self.loop.run_until_complete(asyncio.gather(*pending, return_exceptions=True))
                for t in self.ts:
                    if t.done() and not t.cancelled():
                        t.exception()
            except BaseException:
                pass
            try:
                self.loop.close()
            except Exception:
                pass


class QComm:
    def __init__(self):
        self.to_w, self.to_c = queue.SimpleQueue(), queue.SimpleQueue()

    def recv(self):
        return self.to_w.get()

    def send(self, m):
        self.to_c.put(m)

    def ask(self, m):
        self.to_w.put(m)
        return self.to_c.get(timeout=20)

    def tell(self, m):
        self.to_w.put(m)


class PipeComm:
    """JSON lines over two pipes (child side: recv/send, parent side: ask/tell)"""
    def __init__(self, rfd, wfd):
        self.rfd, self.wfd, self.buf = rfd, wfd, b""

    def _readline(self, timeout=None):
        while b"\n" not in self.buf:
            if timeout is not None and not select.select([self.rfd], [], [], timeout)[0]:
                raise TimeoutError("forked participant does not answer")
            chunk = os.read(self.rfd, 65536)
            if not chunk:
                raise EOFError("pipe closed")
            self.buf += chunk
        line, self.buf = self.buf.split(b"\n", 1)
        return json.loads(line)

    def _writeline(self, m):
        os.write(self.wfd, json.dumps(m).encode() + b"\n")

    def recv(self):
        try:
            return self._readline()
        except EOFError:
            return ["quit"]

    def send(self, m):
        self._writeline(m)

    def ask(self, m):
        self._writeline(m)
        return self._readline(20)

    def tell(self, m):
        try:
            self._writeline(m)
        except OSError:
            pass


def _final(present, data, owner):
    return f" | f={1 if present else 0}:" + ",".join(str(b) for b in data) + f" own={'-' if owner is None else owner}"


def _drive(case, comms):
    toks, dead = [], set()
    for p, t in case["sched"]:
        if p >= len(comms) or p in dead:
            continue
        kind, evs = comms[p].ask(["step", t])
        toks += evs
        if kind == "crash":
            dead.add(p)
    return toks


def run_cross_emu(case):
    fs = EmuFS(None if case["file"] is None else bytes(case["file"]))
    with Patched() as lk:
        comms, threads = [], []
        for p, tasks in enumerate(case["tasks"]):
            c = QComm()
            w = Worker(p, tasks, c, fs, "/run/ebpf/emulated", case["size"], case["off"])
            th = threading.Thread(target=w.run, args=(lk,), daemon=True)
            comms.append(c)
            threads.append(th)
        try:
            for th in threads:
                th.start()
            toks = _drive(case, comms)
        finally:
            for c in comms:
                c.tell(["quit"])
            for th in threads:
                th.join(20)
    return " ".join(toks) + _final(fs.present, fs.data, fs.owner.get(case["off"]))


def run_cross_fork(case):
    """the same participants as forked processes: real files, real lockf, schedule through pipes"""
    d = tempfile.mkdtemp(prefix="c15_")
    fn = d + "/run/ebpf/lockfile"
    kids = []
    try:
        if case["file"] is not None:
            os.makedirs(os.path.dirname(fn))
            with open(fn, "wb") as f:
                f.write(bytes(case["file"]))
        with Patched() as lk:
            for p, tasks in enumerate(case["tasks"]):
                c2w, w2c = os.pipe(), os.pipe()
                pid = os.fork()
                if pid == 0:
                    code = 0
                    try:
                        os.close(c2w[1])
                        os.close(w2c[0])
                        Worker(p, tasks, PipeComm(c2w[0], w2c[1]), RealFS(), fn, case["size"], case["off"]).run(lk)
                    except BaseException:
                        code = 3
                    finally:
                        os._exit(code)
                os.close(c2w[0])
                os.close(w2c[1])
                kids.append((pid, PipeComm(w2c[0], c2w[1])))
        toks = _drive(case, [c for _, c in kids])
        present = os.path.exists(fn)
        data, owner = b"", None
        if present:
            fd = os.open(fn, os.O_RDWR)
            try:
                data = os.pread(fd, 1 << 16, 0)
                fl = fcntl.fcntl(fd, fcntl.F_GETLK, struct.pack("hhqqi", fcntl.F_WRLCK, 0, case["off"], 1, 0))
                ltype, _, _, _, lpid = struct.unpack("hhqqi", fl)
                if ltype != fcntl.F_UNLCK:
                    owner = [pid for pid, _ in kids].index(lpid)
            finally:
                os.close(fd)
        return " ".join(toks) + _final(present, data, owner)
    finally:
        for pid, c in kids:
            c.tell(["quit"])
        for pid, c in kids:
            try:
                for _ in range(200):
                    if os.waitpid(pid, os.WNOHANG)[0]:
                        break
                    select.select([], [], [], 0.01)
                else:
                    os.kill(pid, 9)
                    os.waitpid(pid, 0)
            except ChildProcessError:
                pass
            for fd in (c.rfd, c.wfd):
                try:
                    os.close(fd)
                except OSError:
                    pass
        shutil.rmtree(d, ignore_errors=True)


def run_cross(case):
    return run_cross_fork(case) if case.get("backend") == "fork" else run_cross_emu(case)


def model_view(out):
    """the part of the implementation's trace the model speaks about (enter/leave/exception marks removed)"""
    toks, fin = out.split(" | ")
    return " ".join(t for t in toks.split() if t[0] not in "><!") + " | " + fin


def oracle_cross(ctx, case, out):
    """the property text on the implementation's trace: no two users inside at once, every request answered
    before the next, counters consecutive across all users, nobody fails, every counter read is valid"""
    toks = out.split(" | ")[0].split()
    inside = pend = last = None
    fails = []     # (kind, text)
    for tok in toks:
        k = tok[0]
        if k == "!":
            fails.append(("failed:" + tok.split(":")[1], f"participant {tok[1:]}"))
        elif k == "X" and ":" in tok:
            fails.append(("harness", tok))
        elif k == ">":
            if inside is not None:
                fails.append(("overlap", f"{tok[1:]} entered while {inside} is inside"))
            inside = tok[1:]
        elif k == "<":
            if inside == tok[1:]:
                inside = None
        elif k == "R" and tok.endswith("!"):
            pass        # short read: the counter is 0, checked on the message that follows
        elif k == "R" and "=" in tok:
            v = int(tok.split("=")[1], 16 if len(tok.split("=")[1]) > 3 else 10)
            if not 0 <= v <= 7:
                fails.append(("counter", f"invalid counter read {tok}"))
        elif k == "S" and "=" in tok:
            u, c = tok[1:].split("=")
            c = int(c)
            if inside != u or pend is not None:
                fails.append(("overlap", f"message of {u} while {inside if inside != u else pend} is busy"))
            if not ((last is None and 0 <= c <= 7) or (last is not None and c == succ(last))):
                fails.append(("counter", f"counter {c} after {last}"))
            last, pend = c, u
        elif k == "V":
            if pend != tok[1:]:
                fails.append(("overlap", f"{tok[1:]} read a response while request of {pend} is out"))
            pend = None
        elif k == "X":      # the block is left by an exception: its request stays unanswered, the exchange is over
            if pend != tok[1:]:
                fails.append(("overlap", f"{tok[1:]} abandons a request while request of {pend} is out"))
            pend = None
    # the lock file once nobody is inside: the terminal's byte continues the count of the bus
    m = re.search(r"f=([01]):([\d,]*) own=(\S+)", out.split(" | ")[1])
    if m and m.group(3) == "-" and inside is None and last is not None:
        data = [int(x) for x in m.group(2).split(",") if x]
        byte = data[case["off"]] if case["off"] < len(data) else 0
        if byte != succ(last):
            fails.append(("counter", f"the lock file keeps {byte} for the next user after counter {last} on the bus"))
    for kind, text in fails:
        ctx.require(False, f"cross-process exchanges not serialised/counted ({kind}): {text}", case, out, None)
    return fails


# ----------------------------------------------------------------------------------------------------------
# addr: every address find_free_address hands out must be usable as a mailbox lock
# ----------------------------------------------------------------------------------------------------------
def run_addr(case):
    import ebpfcat.ethercat as ec
    import ebpfcat.lock as lk
    from ebpfcat.ebpfcat import ParallelEtherCat
    rng = tuple(ParallelEtherCat.terminal_addr_range)
    v = case["no"]
    calls = []

    def scripted(a, b):
        calls.append((a, b))
        assert a <= v <= b, "scripted value outside what randint(a, b) can return"
        return v

    class Bus:
        used_addresses = set()
        terminal_addr_range = rng

        async def roundtrip(self, *a, **k):
            raise ec.EtherCatError("no such terminal")
    saved = ec.randint
    ec.randint = scripted
    try:
        got = asyncio.run(ec.EtherCat.find_free_address(Bus()))
    finally:
        ec.randint = saved
    if calls != [rng] or got != v:
        return f"other:{calls}:{got}"
    lf = lk.LockFile.__new__(lk.LockFile)
    lf.filename, lf.minimum, lf.maximum = "-", *rng
    try:
        ParallelEtherCat.get_mbx_lock(types.SimpleNamespace(mbx_lock_file=lf), got)
    except AssertionError:
        return "assert"
    return "ok"


def oracle_addr(ctx, case, out):
    from ebpfcat.ebpfcat import ParallelEtherCat
    lo, hi = ParallelEtherCat.terminal_addr_range
    ctx.require(out == "ok", f"address {case['no']} from randint({lo}, {hi}) is refused as a mailbox lock: {out}",
                case, out, None)



# ----------------------------------------------------------------------------------------------------------
# mbxbus: real EtherCat (connect/sendloop/process_packet) + real Terminals configured by parse_sync_managers,
# over a frame-level bus with simulated mailbox terminals; attempts that fail before anything is written
# (status read unanswered, stale mail that cannot be fetched) are retried
# ----------------------------------------------------------------------------------------------------------
def _walk_frame(data):
    """independent walk over an EtherCAT frame -> [(cmd, station, off, start, stop)] without the identifying datagram"""
    out, p, first = [], 2, True
    while True:
        cmd, _idx, addr, off, lf = struct.unpack_from("<BBHHH", data, p)
        start, stop = p + 10, p + 10 + (lf & 0x7ff)
        if not first:
            out.append((cmd, addr, off, start, stop))
        first = False
        p = stop + 2
        if not lf >> 15:
            return out


class _Sock:
    def bind(self, addr):
        pass


class MbxTerm:
    """one simulated terminal: two mailbox sync managers and an expedited-only SDO server"""
    def __init__(self, spec, log):
        self.station, self.log = spec["addr"], log
        (self.out_off, self.out_sz), (self.in_off, self.in_sz) = spec["out"], spec["in"]
        self.outbox, self.inbox = bytearray(self.out_sz), []        # inbox: mails waiting to be fetched, oldest first
        self.lost, self.stale, self.stale_lost = set(spec.get("lost", [])), set(spec.get("stale", [])), set(spec.get("stale_lost", []))
        self.nstatus, self.drop_in = 0, False

    def unexpected(self):
        return any(m[5] & 0xf != 3 for m in self.inbox)

    def access(self, cmd, off, data):
        """-> response bytes, or None when the datagram is not executed (working counter 0)"""
        n = len(data)
        if cmd == 4 and off == 0x805 and n == 1:                 # status of the out mailbox, read before every send
            k, self.nstatus = self.nstatus, self.nstatus + 1
            if k in self.lost:
                self.log.append(f"x{self.station}")
                return None
            if (k in self.stale or k in self.stale_lost) and not self.inbox:
                body = b"stale"
                self.inbox.append(struct.pack("<HHBB", len(body), 0, 0, 2) + body)      # an EoE mail nobody asked for
                self.drop_in = k in self.stale_lost
                self.log.append(f"u{self.station}")
            return b"\x08" if self.unexpected() else b"\x00"
        if cmd == 4 and off == 0x80D and n == 1:
            return b"\x08" if self.inbox else b"\x00"
        if cmd == 5 and self.out_off <= off and off + n <= self.out_off + self.out_sz:
            self.outbox[off - self.out_off:off - self.out_off + n] = data
            if off + n == self.out_off + self.out_sz:
                self.mail()
            return bytes(data)
        if cmd == 4 and self.in_off <= off and off + n <= self.in_off + self.in_sz and self.inbox:
            if self.drop_in:
                self.drop_in = False
                self.log.append(f"x{self.station}")
                return None
            ret = (self.inbox[0] + bytes(self.in_sz))[off - self.in_off:off - self.in_off + n]
            if off + n == self.in_off + self.in_sz:
                self.log.append(f"p{self.station}" if self.inbox[0][5] & 0xf == 3 else f"v{self.station}")
                self.inbox.pop(0)
            return ret
        return bytes(n) if cmd == 4 else bytes(data)

    def mail(self):
        ln, _addr, _cp, tc = struct.unpack_from("<HHBB", self.outbox, 0)
        body = bytes(self.outbox[6:6 + ln])
        coe, sdocmd, index, sub = struct.unpack_from("<HBHB", body, 0)
        self.log.append(f"q{self.station}={tc >> 4}:{index:x}")
        if any(m[5] & 0xf == 3 for m in self.inbox):
            self.log.append(f"o{self.station}")                   # a request while the previous answer is unread
        if sdocmd & 0xe0 == 0x40:
            ans = struct.pack("<HBHB4s", 3 << 12, 0x43, index, sub, struct.pack("<HH", index, self.station))
        else:
            ans = struct.pack("<HBHB4x", 3 << 12, 0x60, index, sub)
        self.inbox.append(struct.pack("<HHBB", len(ans), 0, 0, 3 | (tc & 0x70)) + ans)


class MbxBus:
    def __init__(self, loop, terms, log):
        self._sock, self.loop, self.proto = _Sock(), loop, None
        self.terms = {t["addr"]: MbxTerm(t, log) for t in terms}

    def sendto(self, data, addr):
        ans = bytearray(data)
        for cmd, station, off, start, stop in _walk_frame(bytes(data)):
            t = self.terms.get(station)
            if t is None or cmd not in (4, 5):
                continue
            r = t.access(cmd, off, bytes(data[start:stop]))
            if r is None:
                continue
            ans[start:stop] = r
            ans[stop:stop + 2] = b"\x01\x00"
        self.loop.call_soon(self.proto.datagram_received, bytes(ans), addr)


def run_mbxbus(case):
    from ebpfcat.ethercat import Terminal, EtherCat, EtherCatError
    log = []
    loop = asyncio.new_event_loop()
    bus = MbxBus(loop, case["terms"], log)
    tries = 3 + max(len(t.get("lost", [])) + len(t.get("stale_lost", [])) for t in case["terms"])

    async def endpoint(factory, **kw):
        bus.proto = factory()
        bus.proto.connection_made(bus)
        return bus, bus.proto

    async def user(t, spec, terms):
        term = terms[spec["term"]]
        for _ in range(spec.get("lag", 0)):
            await asyncio.sleep(0)
        for j, op in enumerate(spec["ops"]):
            for _attempt in range(tries):
                try:
                    if op == "r":
                        got = await term.sdo_read(0x6000 + t, 1)
                        if bytes(got) != struct.pack("<HH", 0x6000 + t, term.position):
                            log.append(f"e{t}:foreign-answer")
                    else:
                        await term.sdo_write(bytes([t, j]), 0x7000 + t, 2)
                    break
                except EtherCatError:
                    pass                                            # the attempt failed: try again
                except Exception as ex:     # noqa: BLE001 - canonicalised
                    log.append(f"e{t}:{type(ex).__name__}")
                    break
            else:
                log.append(f"e{t}:gave-up")

    lockdir = None
    if case.get("lock") == "parallel":              # the lock of multi-process programs, on a real lock file
        import ebpfcat.lock as lk
        from ebpfcat.ebpfcat import ParallelEtherCat
        lockdir = tempfile.mkdtemp(prefix="c15_mbxbus_")
        owner = types.SimpleNamespace(mbx_lock_file=lk.LockFile(lockdir + "/mbx.lock", *ParallelEtherCat.terminal_addr_range))
        get_lock = lambda ec, no: ParallelEtherCat.get_mbx_lock(owner, no)
    else:
        get_lock = lambda ec, no: ec.get_mbx_lock(no)

    async def go():
        ec = EtherCat("lo")
        await ec.connect()
        terms = []
        for spec in case["terms"]:
            term = Terminal(ec)
            term.position, term.name = spec["addr"], f"T{spec['addr']}"
            sm = struct.pack("<HHBBBB", *spec["out"], 0x26, 0, 1, 0) + struct.pack("<HHBBBB", *spec["in"], 0x22, 0, 1, 0)
            for extra in spec.get("pdo", []):
                sm += struct.pack("<HHBBBB", *extra)
            term.parse_sync_managers(sm)
            term.mbx_lock = get_lock(ec, term.position)
            terms.append(term)
        try:
            await asyncio.wait_for(asyncio.gather(*[user(t, spec, terms) for t, spec in enumerate(case["tasks"])]), 20)
        except asyncio.TimeoutError:
            log.append("e-:stalled")
        finally:
            for t in asyncio.all_tasks():
                if t is not asyncio.current_task():
                    t.cancel()

    loop.create_datagram_endpoint = endpoint
    logging.disable(logging.CRITICAL)           # the code reports the unexpected mail with logging.error
    try:
        loop.run_until_complete(go())
        loop.run_until_complete(asyncio.sleep(0))
    finally:
        logging.disable(logging.NOTSET)
        loop.close()
        if lockdir is not None:
            owner.mbx_lock_file.close()
            shutil.rmtree(lockdir, ignore_errors=True)
    return " ".join(log)


def oracle_mbxbus(ctx, case, out):
    """per terminal, on what the terminal itself saw: each mail written into its mailbox carries the successor of the
    previous one's counter whatever failed in between, no request while the previous answer is unread, nobody got a
    foreign answer"""
    bad = None
    for spec in case["terms"]:
        st = str(spec["addr"])
        pend = last = None
        for tok in out.split():
            if tok[0] == "e":
                bad = bad or f"transfer failed: {tok}"
                continue
            who = tok[1:].split("=")[0]
            if who != st:
                continue
            if tok[0] == "q":
                c = int(tok.split("=")[1].split(":")[0])
                if pend is not None:
                    bad = bad or f"terminal {st}: request {tok} written while request {pend} is unanswered"
                if not ((last is None and 0 <= c <= 7) or (last is not None and c == succ(last))):
                    bad = bad or f"terminal {st}: counter {c} after {last} (failed attempts in between must not consume counters)"
                pend, last = tok, c
            elif tok[0] == "p":
                pend = None
            elif tok[0] == "o":
                bad = bad or f"terminal {st}: request written into a mailbox exchange that is not finished"
    ctx.require(bad is None, "mailbox headers seen by the terminals not serialised/counted: " + str(bad), case, out, None)


def gen_mbxbus(rng):
    nterm = rng.choice([1, 1, 2, 2, 3])
    addrs = rng.sample(range(1000, 1030), nterm)
    terms = []
    for a in addrs:
        osz, isz = rng.choice([(64, 64), (128, 128), (48, 96), (256, 32), (32, 200), (1024, 1024)])
        t = {"addr": a, "out": [0x1000, osz], "in": [0x1000 + osz + rng.choice([0, 16, 0x100]), isz]}
        if rng.random() < 0.5:
            t["pdo"] = [[0x1800, rng.randrange(0, 9), 0x24, 0, 1, 0], [0x1c00, rng.randrange(0, 9), 0x20, 0, 1, 0]]
        r = rng.random()
        if r < 0.75:
            t["lost"] = sorted(rng.sample(range(0, 6), rng.choice([1, 1, 2, 3])))
        if rng.random() < 0.35:
            t["stale"] = sorted(rng.sample(range(0, 7), rng.choice([1, 2])))
        if rng.random() < 0.35:
            t["stale_lost"] = sorted(rng.sample(range(0, 7), rng.choice([1, 2])))
        terms.append(t)
    tasks = []
    for _ in range(rng.choice([1, 2, 2, 3, 4])):
        tasks.append({"term": rng.randrange(nterm), "ops": [rng.choice("rw") for _ in range(rng.randrange(1, 5))],
                      "lag": rng.choice([0, 0, 1, 2, 3])})
    return {"op": "mbxbus", "terms": terms, "tasks": tasks, "lock": rng.choice(["mailbox", "mailbox", "parallel"])}

# ----------------------------------------------------------------------------------------------------------
# hist: histories of transfers through the real Terminal.sdo_read / sdo_write / coe_request over the real EtherCat
# (connect, roundtrip, sendloop, process_packet) with either lock class; transfers END IN ALL WAYS: normally, by an
# abort answer of the terminal at any of their exchanges (EtherCatError raised inside the block), by a datagram
# that is not processed (working counter 0) at any bus access, by Task.cancel() while suspended in any bus access
# (a timeout), with a terminal that answers late or never.  The next user is the same task, another task of the
# phase, or (lock file) another process = another LockFile + ParallelMailboxLock object in a later phase.
# Judged is what passed on the bus: every mailbox header (FPWR on the out mailbox) and who put it there.
# ----------------------------------------------------------------------------------------------------------
def hist_exchanges(op):
    return 1 + op.get("seg", 0) if op["k"] in "RW" else 1


def hist_per(op):
    """bus accesses of one complete exchange: status, header, last byte, d + 1 polls, mail"""
    return 5 + op.get("delay", 0)


def hist_total(op):
    if op["k"] == "c":
        return 3 + op.get("frag", 1) * (op.get("delay", 0) + 2)
    return hist_exchanges(op) * hist_per(op)


def hist_block(op):
    """the block a transfer amounts to, from its declaration alone: [complete exchanges, request left unanswered]"""
    end = op["end"]
    if end[0] == "ok":
        return [hist_exchanges(op), 0]
    if end[0] == "abort":               # the answer is read, then the transfer raises
        return [end[1] + 1, 0]
    if end[0] == "silent":              # the terminal never answers exchange e; cancelled while polling
        return [end[1], 1]
    j = end[1]                          # lost / cancel at the j-th bus access of the transfer
    assert j < hist_total(op)
    if op["k"] == "c":
        return [0, 1 if j >= 1 else 0]
    e, pos = divmod(j, hist_per(op))
    return [e, 1 if pos >= 1 else 0]


def hist_data(op, idx):
    if op["k"] == "r":
        return struct.pack("<HH", idx, 0xabcd)
    if op["k"] == "R":
        return b"".join(bytes([idx & 0xff, k, 1, 2, 3, 4, 5]) for k in range(op["seg"]))
    if op["k"] == "c":
        return b"".join(bytes([idx & 0xff, k]) * (1 if k == 0 else 3) for k in range(op.get("frag", 1)))
    return None


class HTerm:
    """the mailbox of one simulated terminal with a CoE server: expedited and segmented SDO upload/download, SDO
    information; per object index it is told where to answer with an abort, where not to answer at all, and how
    many polls late.  A new request supersedes the unread answer to an abandoned one."""
    def __init__(self, spec, plans):
        self.station = spec["addr"]
        (self.out_off, self.out_sz), (self.in_off, self.in_sz) = spec["out"], spec["in"]
        self.outbox, self.inbox, self.plans = bytearray(self.out_sz), [], plans
        self.cur, self.exch, self.toggle, self.armed = None, 0, 0, False

    def kind(self, cmd, off, n):
        if cmd == 4 and off == 0x805:
            return "s"
        if cmd == 4 and off == 0x80D:
            return "p"
        if cmd == 5 and off == self.out_off and n >= 6:
            return "h"
        if cmd == 5 and self.out_off <= off < self.out_off + self.out_sz:
            return "b"
        if cmd == 4 and self.in_off <= off < self.in_off + self.in_sz:
            return "i"
        return None

    def access(self, cmd, off, data):
        n = len(data)
        if cmd == 4 and off == 0x805 and n == 1:
            return b"\x00"
        if cmd == 4 and off == 0x80D and n == 1:
            if self.inbox and self.inbox[0][0] > 0:
                self.inbox[0][0] -= 1
                return b"\x00"
            return b"\x08" if self.inbox else b"\x00"
        if cmd == 5 and self.out_off <= off and off + n <= self.out_off + self.out_sz:
            self.outbox[off - self.out_off:off - self.out_off + n] = data
            if off == self.out_off:
                self.armed = True
            if off + n == self.out_off + self.out_sz and self.armed:      # the last byte completes the message once
                self.armed = False
                self.mail()
            return bytes(data)
        if cmd == 4 and self.in_off <= off and off + n <= self.in_off + self.in_sz and self.inbox \
                and self.inbox[0][0] == 0:
            ret = (self.inbox[0][1] + bytes(self.in_sz))[off - self.in_off:off - self.in_off + n]
            if off + n == self.in_off + self.in_sz:
                self.inbox.pop(0)
            return ret
        return bytes(n) if cmd == 4 else bytes(data)

    def answer(self, tc, body, delay):
        self.inbox.append([delay, struct.pack("<HHBB", len(body), 0, 0, 3 | (tc & 0x70)) + body])

    def mail(self):
        ln, _addr, _cp, tc = struct.unpack_from("<HHBB", self.outbox, 0)
        body = bytes(self.outbox[6:6 + ln])
        self.inbox.clear()
        coe, cmd = struct.unpack_from("<HB", body, 0)
        service = coe >> 12
        if service == 8:                                    # SDO information
            index, sub = struct.unpack_from("<HB", body, 6)
            plan = self.plans.get(index, {})
            if plan.get("silent") == 0:
                return
            if plan.get("abort") == 0:
                return self.answer(tc, struct.pack("<HBxH", 8 << 12, 7, 0) + bytes(4), plan.get("delay", 0))
            f = plan.get("frag", 1)
            for k in range(f):
                self.answer(tc, struct.pack("<HBxH", 8 << 12, (cmd & 0x7f) + 1, f - 1 - k)
                            + bytes([index & 0xff, k]) * (2 if k == 0 else 3), plan.get("delay", 0))
            return
        ccs = cmd & 0xe0
        if ccs in (0x40, 0x20):                             # a new transfer: upload / download initiate
            index, sub = struct.unpack_from("<HB", body, 3)
            self.cur, self.exch, self.toggle, self.sub = index, 0, 0, sub
        else:
            self.exch += 1
        index, sub = self.cur, self.sub
        plan = self.plans.get(index, {})
        d = plan.get("delay", 0)
        if plan.get("silent") == self.exch:
            return
        if plan.get("abort") == self.exch:
            return self.answer(tc, struct.pack("<HBHBI", 2 << 12, 0x80, index, sub, 0x06020000), d)
        if ccs == 0x40:
            seg = plan.get("seg", 0)
            if seg == 0:
                self.answer(tc, struct.pack("<HBHB4s", 3 << 12, 0x43, index, sub, struct.pack("<HH", index, 0xabcd)), d)
            else:
                self.answer(tc, struct.pack("<HBHBI", 3 << 12, 0x41, index, sub, 7 * seg), d)
        elif ccs == 0x60:                                   # upload segment
            k = self.exch - 1
            last = 1 if self.exch == plan.get("seg", 0) else 0
            self.answer(tc, struct.pack("<HB", 3 << 12, (cmd & 0x10) | last) + bytes([index & 0xff, k, 1, 2, 3, 4, 5]), d)
        elif ccs == 0x20:
            self.answer(tc, struct.pack("<HBHB4x", 3 << 12, 0x60, index, sub), d)
        else:                                               # download segment
            self.answer(tc, struct.pack("<HB", 3 << 12, 0x20 | (cmd & 0x10)), d)


class HBus:
    """the wire: every datagram is attributed to the transfer that queued it (same order), logged, and executed by
    the terminal unless the transfer's plan loses it"""
    def __init__(self, loop, term, log, fifo, lost):
        self._sock, self.loop, self.proto = _Sock(), loop, None
        self.term, self.log, self.fifo, self.lost = term, log, fifo, lost

    def sendto(self, data, addr):
        ans = bytearray(data)
        for cmd, station, off, start, stop in _walk_frame(bytes(data)):
            opid, acc = self.fifo.pop(0)
            kind = self.term.kind(cmd, off, stop - start) if station == self.term.station else None
            if kind is None:
                self.log.append(f"?{opid}")
                continue
            self.log.append(f"h{opid}={data[start + 5] >> 4}" if kind == "h" else f"{kind}{opid}")
            if self.lost.get(opid) == acc:
                continue
            ans[start:stop] = self.term.access(cmd, off, bytes(data[start:stop]))
            ans[stop:stop + 2] = b"\x01\x00"
        self.loop.call_soon(self.proto.datagram_received, bytes(ans), addr)


def run_hist(case):
    import ebpfcat.lock as lk
    from ebpfcat.ebpfcat import ParallelEtherCat
    from ebpfcat.ethercat import Terminal, EtherCat, EtherCatError, CoECmd, ODCmd
    log, fifo, lost, plans = [], [], {}, {}
    loop = asyncio.new_event_loop()
    spec = case["term"]
    hterm = HTerm(spec, plans)
    ops = {}            # task -> [opid, accesses so far, access to be cancelled in]

    class EC(EtherCat):
        async def roundtrip(self, *a, **k):
            me = asyncio.current_task()
            rec = ops.get(me)
            if rec is None:
                fifo.append((-1, 0))
            else:
                fifo.append((rec[0], rec[1]))
                if rec[2] == rec[1]:
                    loop.call_soon(me.cancel)           # lands while the task is suspended in this access
                rec[1] += 1
            return await super().roundtrip(*a, **k)

    nown = 1 + max(ph["owner"] for ph in case["phases"])
    lockdir = tempfile.mkdtemp(prefix="c15_hist_") if case["lock"] == "parallel" else None
    files, terms, locks = [], [], []

    async def transfer(term, op, idx):
        if op["k"] in "rR":
            got = await term.sdo_read(idx, 1)
        elif op["k"] == "w":
            got = await term.sdo_write(bytes(range(1, 1 + op.get("len", 2))), idx, 2)
        elif op["k"] == "W":
            chunk0, segsz = term.mbx_out_sz - 16, term.mbx_out_sz - 9
            got = await term.sdo_write(bytes(chunk0 + segsz * op["seg"] - op.get("short", 0)), idx, 2)
        else:
            got = await term.coe_request(CoECmd.SDOINFO, ODCmd.OE_REQ, "HBB", idx, 1, 7)
        want = hist_data(op, idx)
        return "ok" if want is None or bytes(got) == want else f"wrong-data:{bytes(got).hex()}"

    async def user(term, oplist):
        for opid, op in oplist:
            idx = 0x2000 + opid
            end = op["end"]
            plans[idx] = {"seg": op.get("seg", 0), "frag": op.get("frag", 1), "delay": op.get("delay", 0)}
            cancel_at = None
            if end[0] == "abort":
                plans[idx]["abort"] = end[1]
            elif end[0] == "silent":
                plans[idx]["silent"] = end[1]
                cancel_at = end[1] * hist_per(op) + 3 + end[2]
            elif end[0] == "lost":
                lost[opid] = end[1]
            elif end[0] == "cancel":
                cancel_at = end[1]
            inner = loop.create_task(transfer(term, op, idx))
            ops[inner] = [opid, 0, cancel_at]
            try:
                res = await inner
            except EtherCatError:
                res = "EtherCatError"
            except asyncio.CancelledError:
                if not inner.cancelled():
                    raise
                res = "cancelled"
            except Exception as ex:     # noqa: BLE001 - canonicalised
                res = type(ex).__name__
            log.append(f"E{opid}:{res}")
            for _ in range(op.get("lag", 0)):
                await asyncio.sleep(0)

    async def go():
        for o in range(nown):
            ec = EC("lo")
            bus = HBus(loop, hterm, log, fifo, lost)

            async def endpoint(factory, bus=bus, **kw):
                bus.proto = factory()
                bus.proto.connection_made(bus)
                return bus, bus.proto
            loop.create_datagram_endpoint = endpoint
            await ec.connect()
            term = Terminal(ec)
            term.position, term.name = spec["addr"], f"T{spec['addr']}"
            term.parse_sync_managers(struct.pack("<HHBBBB", *spec["out"], 0x26, 0, 1, 0)
                                     + struct.pack("<HHBBBB", *spec["in"], 0x22, 0, 1, 0))
            if lockdir is not None:
                lf = lk.LockFile(lockdir + "/run/mbx.lock", *ParallelEtherCat.terminal_addr_range)
                files.append(lf)
                term.mbx_lock = ParallelEtherCat.get_mbx_lock(types.SimpleNamespace(mbx_lock_file=lf), term.position)
            else:
                term.mbx_lock = ec.get_mbx_lock(term.position)
            terms.append(term)
            locks.append(term.mbx_lock)
        opid = 0
        try:
            for ph in case["phases"]:
                jobs = []
                for oplist in ph["tasks"]:
                    jobs.append(user(terms[ph["owner"]], [(opid + i, op) for i, op in enumerate(oplist)]))
                    opid += len(oplist)
                await asyncio.wait_for(asyncio.gather(*jobs), 20)
        except asyncio.TimeoutError:
            log.append("E-:stalled")
        finally:
            for t in asyncio.all_tasks():
                if t is not asyncio.current_task():
                    t.cancel()

    logging.disable(logging.CRITICAL)
    try:
        loop.run_until_complete(go())
        loop.run_until_complete(asyncio.sleep(0))
        if lockdir is not None:
            lo = ParallelEtherCat.terminal_addr_range[0]
            fd = os.open(lockdir + "/run/mbx.lock", os.O_RDONLY)
            try:
                b = os.pread(fd, 1, spec["addr"] - lo)
            finally:
                pass        # closing any descriptor of the file would drop the process's record locks: at the very end
            keeps = b[0] if b else 0
            os.close(fd)
        else:
            keeps = locks[0].counter
    finally:
        logging.disable(logging.NOTSET)
        loop.close()
        for lf in files:
            lf.close()
        if lockdir is not None:
            shutil.rmtree(lockdir, ignore_errors=True)
    return " ".join(log) + f" | keeps={keeps}"


def hist_ops(case):
    return [op for ph in case["phases"] for oplist in ph["tasks"] for op in oplist]


def oracle_hist(ctx, case, out):
    """on what passed on the bus: mailbox headers carry successive counters of the cycle across all users and all
    endings of earlier transfers; the bus accesses of two transfers never interleave; every transfer ends the way
    its declaration says (nobody gets a foreign answer, nobody fails because of somebody else); what the lock keeps
    afterwards is the successor of the last counter on the bus"""
    toks, keeps = out.split(" | keeps=")
    bad = None
    last = None
    seen, cur = set(), None
    ops = hist_ops(case)
    ended = {}
    for tok in toks.split():
        k = tok[0]
        if k == "E":
            opid, res = tok[1:].split(":", 1)
            ended[opid] = res
            continue
        if k == "?":
            bad = bad or f"unexpected bus access {tok}"
            continue
        opid = tok[1:].split("=")[0]
        if opid != cur:
            if opid in seen:
                bad = bad or f"transfer {opid} accesses the mailbox inside the exchange of transfer {cur}"
            seen.add(opid)
            cur = opid
        if k == "h":
            c = int(tok.split("=")[1])
            if not ((last is None and 0 <= c <= 7) or (last is not None and c == succ(last))):
                bad = bad or f"counter {c} after {last} (header of transfer {opid})"
            last = c
    for i, op in enumerate(ops):
        want = {"ok": "ok", "abort": "EtherCatError", "lost": "EtherCatError", "cancel": "cancelled",
                "silent": "cancelled"}[op["end"][0]]
        if ended.get(str(i)) != want:
            bad = bad or f"transfer {i} declared {op['end']} ended as {ended.get(str(i))}"
    if last is not None and keeps != str(succ(last)):
        bad = bad or f"the lock keeps {keeps} for the next user after counter {last} on the bus"
    ctx.require(bad is None, "transfer histories on the bus not serialised/counted: " + str(bad), case, out, None)


def gen_hist_op(rng, failing):
    k = rng.choice("rrRwWc")
    op = {"k": k, "delay": rng.choice([0, 0, 1, 2])}
    if k in "RW":
        op["seg"] = rng.choice([1, 1, 2, 3])
    if k == "W":
        op["short"] = rng.randrange(0, 6)
    if k == "w":
        op["len"] = rng.randrange(1, 5)
    if k == "c":
        op["frag"] = rng.choice([1, 1, 2])
    if rng.random() < 0.3:
        op["lag"] = rng.randrange(1, 4)
    r = rng.random()
    nex = hist_exchanges(op)
    if not failing or r < 0.4:
        op["end"] = ["ok"]
    elif r < 0.55:
        op["end"] = ["abort", rng.randrange(nex)]
    elif r < 0.7:
        op["end"] = ["lost", rng.randrange(hist_total(op))]
    elif r < 0.9:
        op["end"] = ["cancel", rng.randrange(hist_total(op))]
    else:
        op["end"] = ["silent", rng.randrange(nex), rng.randrange(0, 4)]
    return op


def gen_hist(rng):
    from ebpfcat.ebpfcat import ParallelEtherCat
    lo, hi = ParallelEtherCat.terminal_addr_range
    lock = rng.choice(["mailbox", "parallel", "parallel"])
    nown = 1 if lock == "mailbox" else rng.choice([1, 2, 2, 3])
    osz, isz = rng.choice([(32, 32), (48, 64), (64, 48), (128, 128)])
    term = {"addr": rng.choice([lo, hi, rng.randrange(lo, hi + 1)]), "out": [0x1000, osz],
            "in": [0x1000 + osz + rng.choice([0, 16]), isz]}
    failing = rng.random() < 0.85
    phases = []
    for i in range(rng.choice([1, 2, 2, 3, 4]) if nown == 1 else rng.randrange(nown, nown + 3)):
        owner = i % nown if i < nown else rng.randrange(nown)
        phases.append({"owner": owner, "tasks": [[gen_hist_op(rng, failing) for _ in range(rng.randrange(1, 4))]
                                                  for _ in range(rng.choice([1, 1, 2, 3]))]})
    return {"op": "hist", "lock": lock, "term": term, "phases": phases}


# ----------------------------------------------------------------------------------------------------------
RUN = {"cycle": run_cycle, "inproc": run_inproc, "terminal": run_terminal, "cross": run_cross, "addr": run_addr,
       "mbxbus": run_mbxbus, "hist": run_hist}
ORACLE = {"cycle": oracle_cycle, "inproc": oracle_inproc, "terminal": oracle_terminal, "cross": oracle_cross,
          "addr": oracle_addr, "mbxbus": oracle_mbxbus, "hist": oracle_hist}


def to_model(case):
    """what the driver gets for a case"""
    if case["op"] == "terminal":
        return {"op": "cycle", "c0": 0, "n": sum(len(ops) for ops in case["tasks"])}
    if case["op"] == "cycle":
        return {"op": "cycle", "c0": case["c0"], "n": case["n"]}
    if case["op"] == "mbxbus":      # per terminal: its tasks' operations (one exchange each) and the planned failures
        return {"op": "retry", "terms": [
            {"tasks": [[1] * len(t["ops"]) for t in case["tasks"] if t["term"] == k],
             "fails": len(spec.get("lost", [])) + len(spec.get("stale_lost", []))} for k, spec in enumerate(case["terms"])]}
    if case["op"] == "hist":        # every transfer is one block, computed from its declaration
        return {"op": "hist", "lock": case["lock"], "phases": [
            {"owner": ph["owner"], "tasks": [[hist_block(op) for op in oplist] for oplist in ph["tasks"]]}
            for ph in case["phases"]]}
    return {k: v for k, v in case.items() if k != "backend"}


def impl_view(case, out):
    """the implementation's output in the model's vocabulary"""
    if case["op"] == "cross":
        return model_view(out)
    if case["op"] == "terminal":
        return " ".join(t.split("=")[1] for t in out.split() if t[0] == "q")
    if case["op"] == "hist":
        toks, keeps = out.split(" | keeps=")
        return " ".join(t.split("=")[1] for t in toks.split() if t[0] == "h") + " | keeps=" + keeps
    if case["op"] == "mbxbus":
        return " || ".join(" ".join(t.split("=")[1].split(":")[0] for t in out.split()
                                    if t[0] == "q" and t[1:].split("=")[0] == str(spec["addr"])) for spec in case["terms"])
    return out


def model_split(line):
    body, _, verdict = line.partition(" # ")
    return body, verdict


# ---- generators ----------------------------------------------------------------------------------------------
def gen_block(rng, top, failing):
    """a block that ends normally, or (in histories with failures) one that is left by an error / a cancellation
    while its last request is out"""
    if failing and rng.random() < 0.4:
        return [rng.randrange(0, top - 1), 1, rng.randrange(2)]
    return rng.randrange(0, top)


def block_steps(x):
    n, cut, _ = sec(x)
    return 2 * n + (2 if cut else 0)


def gen_inproc(rng):
    nt = rng.choice([1, 2, 2, 3, 3, 4])
    failing = rng.random() < 0.6
    tasks = [[gen_block(rng, 4, failing) for _ in range(rng.choice([1, 1, 2, 3] if failing else [1, 1, 2]))]
             for _ in range(nt)]
    steps = sum(2 + block_steps(x) for secs in tasks for x in secs)
    sched = []
    for _ in range(rng.randrange(steps, 2 * steps + 4)):
        if rng.random() < 0.75:
            sched.append([rng.randrange(nt)])
        else:
            sched.append(rng.sample(range(nt), rng.randrange(1, nt + 1)))
    return {"op": "inproc", "tasks": tasks, "sched": sched}


def gen_terminal(rng):
    nt = rng.choice([2, 2, 3])
    tasks = [[rng.choice("rw") for _ in range(rng.randrange(1, 4))] for _ in range(nt)]
    n = sum(len(o) for o in tasks)
    return {"op": "terminal", "tasks": tasks, "yields": [rng.randrange(0, 3) for _ in range(8 * n)]}


def gen_cross(rng):
    mode = rng.random()
    np_ = rng.choice([1, 2, 2, 2, 3, 3])
    multi = mode < 0.45                     # some process with two or three mailbox tasks
    failing = rng.random() < 0.6            # blocks that are left by an error or a cancellation after a request
    tasks = []
    for p in range(np_):
        nt = rng.choice([2, 2, 3]) if multi and (p == 0 or rng.random() < 0.3) else 1
        tasks.append([[gen_block(rng, 3, failing) for _ in range(rng.choice([1, 1, 2]))] for _ in range(nt)])
    size = rng.randrange(2, 7)
    off = rng.randrange(0, size + 1)        # both ends of the address range
    absent = rng.random() < 0.4
    file = None
    if not absent:
        file = [rng.randrange(0, 8) for _ in range(size + 1 if rng.random() < 0.85 else rng.randrange(0, size + 1))]
    steps = sum(2 + sum(4 + block_steps(x) for x in secs) for ts in tasks for secs in ts)
    sched = []
    parts = [(p, t) for p, ts in enumerate(tasks) for t in range(len(ts))]
    if absent and rng.random() < 0.3:       # the creator completes LockFile() first
        c = rng.randrange(np_)
        sched += [[c, 0], [c, 0]]
    cur = rng.choice(parts)
    for _ in range(rng.randrange(steps, 2 * steps + 6)):
        if rng.random() < 0.45:
            cur = rng.choice(parts)
        sched.append(list(cur))
    return {"op": "cross", "size": size, "off": off, "file": file, "tasks": tasks, "sched": sched}


def window_family():
    """absent file, two processes with one exchange each: every interleaving of their first four steps,
    then both run to completion alternately"""
    out = []

    def rec(a, b, acc):
        if a == 4 and b == 4:
            tail = []
            for _ in range(14):
                tail += [[0, 0], [1, 0]]
            out.append({"op": "cross", "size": 2, "off": 2, "file": None, "tasks": [[[1]], [[1]]],
                        "sched": acc + tail})
            return
        if a < 4:
            rec(a + 1, b, acc + [[0, 0]])
        if b < 4:
            rec(a, b + 1, acc + [[1, 0]])
    rec(0, 0, [])
    return out


def full_family():
    """thorough tier: initialised file, two processes with one exchange each: every interleaving of their eight
    steps (open x2, lockf, pread, send, recv, pwrite, unlock), then both alternately until done"""
    out = []

    def rec(a, b, acc):
        if a == 8 and b == 8:
            out.append({"op": "cross", "size": 1, "off": 0, "file": [7, 0], "tasks": [[[1]], [[1]]],
                        "sched": acc + [[0, 0], [1, 0]] * 8})
            return
        if a < 8:
            rec(a + 1, b, acc + [[0, 0]])
        if b < 8:
            rec(a, b + 1, acc + [[1, 0]])
    rec(0, 0, [])
    return out


WITNESS_WINDOW = {"op": "cross", "backend": "fork", "size": 3, "off": 1, "file": None, "tasks": [[[1]], [[1]]],
                  "sched": [[0, 0]] + [[1, 0]] * 8 + [[0, 0]] * 7}
WITNESS_SAMEPROC = {"op": "cross", "backend": "fork", "size": 3, "off": 1, "file": [0, 0, 0, 0], "tasks": [[[1], [1]]],
                    "sched": [[0, 0], [0, 0], [0, 0], [0, 0], [0, 0], [0, 1], [0, 1], [0, 1], [0, 0], [0, 0], [0, 0]]
                    + [[0, 1]] * 7}
WITNESS_LASTADDR = {"op": "cross", "backend": "fork", "size": 3, "off": 3, "file": None, "tasks": [[[1]], [[1], [1]]],
                    "sched": [[0, 0], [1, 0], [0, 0], [1, 0]] + [[1, 1], [0, 0], [1, 0]] * 12}


def fork_family():
    good = {"op": "cross", "backend": "fork", "size": 3, "off": 1, "file": [0, 5, 0, 0], "tasks": [[[1]], [[2]]],
            "sched": [[0, 0], [0, 0], [1, 0], [1, 0], [0, 0], [1, 0], [0, 0], [0, 0], [0, 0], [1, 0], [0, 0], [0, 0]]
            + [[1, 0]] * 8}
    created = {"op": "cross", "backend": "fork", "size": 4, "off": 3, "file": None, "tasks": [[[1]], [[1]], [[1]]],
               "sched": [[0, 0], [0, 0]] + [[1, 0], [2, 0], [0, 0]] * 12}
    # blocks left by a cancellation / an error while their request is out, on real files with real lockf
    cancelled = {"op": "cross", "backend": "fork", "size": 3, "off": 1, "file": [0, 5, 0, 0],
                 "tasks": [[[[0, 1, 1]]], [[1]]],
                 "sched": [[0, 0], [0, 0], [1, 0], [1, 0], [0, 0], [0, 0], [0, 0], [1, 0], [0, 0], [0, 0]] + [[1, 0]] * 8}
    failed = {"op": "cross", "backend": "fork", "size": 3, "off": 3, "file": None,
              "tasks": [[[[1, 1, 0]], [1]], [[[0, 1, 1], 1]]],
              "sched": [[0, 0], [0, 0], [1, 0], [1, 0]] + [[0, 0], [0, 1], [1, 0]] * 16}
    return [dict(WITNESS_WINDOW), dict(WITNESS_SAMEPROC), dict(WITNESS_LASTADDR), good, created, cancelled, failed]


def nontrivial(case, out):
    if case["op"] == "hist":        # a transfer that ended by a failure / cancellation after a request, then a further message
        toks = out.split(" | ")[0].split()
        ops = hist_ops(case)
        ends = [i for i, t in enumerate(toks) if t[0] == "E" and not t.endswith(":ok")
                and sum(hist_block(ops[int(t[1:].split(":")[0])])) > 0]
        return bool(ends) and any(t[0] == "h" for t in toks[ends[0]:])
    if case["op"] == "mbxbus":      # a failed attempt followed by a message that really left
        toks = out.split()
        fails = [i for i, t in enumerate(toks) if t[0] == "x"]
        return bool(fails) and any(t[0] == "q" for t in toks[fails[0]:])
    users = {t.split("=")[0][1:] for t in out.split(" | ")[0].split() if t[0] in "sSq" and "=" in t}
    return len(users) >= 2


def run(ctx):
    from ebpfcat.ebpfcat import ParallelEtherCat
    lo, hi = ParallelEtherCat.terminal_addr_range
    rng = ctx.rng
    cases = []
    for c0 in range(8):
        cases.append({"op": "cycle", "which": "parallel", "c0": c0, "n": rng.randrange(1, 41)})
    cases.append({"op": "cycle", "which": "mailbox", "c0": 0, "n": 40})
    cases += [{"op": "addr", "no": v} for v in
              [lo, lo + 1, hi - 1, hi] + [rng.randrange(lo, hi + 1) for _ in range(ctx.n(20, 200))]]
    cases += fork_family()
    cases += window_family()
    if not ctx.quick:
        cases += full_family()
    cases += [gen_inproc(rng) for _ in range(ctx.n(700, 20000))]
    cases += [gen_terminal(rng) for _ in range(ctx.n(150, 3000))]
    cases += [gen_cross(rng) for _ in range(ctx.n(700, 20000))]
    cases += [gen_mbxbus(rng) for _ in range(ctx.n(300, 6000))]
    cases += [gen_hist(rng) for _ in range(ctx.n(400, 8000))]

    outs = []
    known_fail = {}
    for i, c in enumerate(cases):
        before = len(ctx.failures), sum(v for k, v in ctx.stats.items() if k.startswith("oracle-fail"))
        out = RUN[c["op"]](c)
        outs.append(out)
        ORACLE[c["op"]](ctx, c, out)
        failed = sum(v for k, v in ctx.stats.items() if k.startswith("oracle-fail")) - before[1]
        if failed:
            known_fail[i] = True
        ctx.case(c, nontrivial=nontrivial(c, out),
                 kind=c["op"] + (":" + c["backend"] if c.get("backend") else "") + (":oracle-fail" if failed else "") +
                 (":abandoned-request" if c["op"] in ("inproc", "cross") and re.search(r"(^| )[xX]\d", out) else "") +
                 ((":" + c["lock"] + (":failing" if any(op["end"][0] != "ok" for op in hist_ops(c)) else ":clean"))
                  if c["op"] == "hist" else "") +
                 ((":" + c.get("lock", "mailbox")) + (":retried" if " x" in " " + out else ":clean") + (":stale-mail" if " u" in " " + out else "")
                  if c["op"] == "mbxbus" else ""))
    model = ctx.drive(DRIVER, [to_model(c) for c in cases], "mailbox locks")
    if model is not None:
        for i, (c, out, line) in enumerate(zip(cases, outs, model)):
            body, verdict = model_split(line)
            same = ctx.agree(c["op"] + " trace", c, impl_view(c, out), body)
            if verdict == "ok" and i in known_fail and same:
                ctx.require(False, "the property oracle fails where the model's checker accepts the same trace",
                            c, out, None)
            if verdict:
                ctx.stats["model-checker-" + verdict] += 1


def replay(ctx, case):
    out = RUN[case["op"]](case)
    ORACLE[case["op"]](ctx, case, out)
    return {"trace": out}


LEVEL_TEXT = ("Lean 4 proofs over a hand-written model of lock.py: the counter sequence is 0,1,..,7,1,.. for any number of calls; "
              "for any number of tasks sharing a MailboxLock and every schedule (asyncio.Lock FIFO semantics) critical sections "
              "never overlap, each request is answered before the next and counters are consecutive across all tasks - also when sections "
              "are attempts that failed before their next message was written: once all are done there is exactly one counter per message "
              "that left (retries_total). Blocks may be left by an exception while their request is out (abort answer, error, "
              "timeout, cancellation - Sec.cut; an error between two exchanges is a shorter block): all statements quantify over such "
              "blocks, failed_total counts exactly one counter per message that left (abandoned requests included), and "
              "counter_tracks_bus / file_tracks_bus state that what the lock keeps for the next user (MailboxLock.counter; the "
              "terminal's byte in the lock file whenever the record lock is free) is the successor of the latest counter on the bus "
              "after every schedule, whatever the outcomes of earlier exchanges. For the lock "
              "file (after the three fix: commits): for any number of processes AND tasks per process, file present or absent, and "
              "every schedule of file operations and tasks - including any activity between the creator's O_EXCL open and its "
              "ftruncate - users are serialised, counted consecutively, read only valid counters and never fail; the holder of the "
              "record lock can always proceed to its unlock; every address of the inclusive range is accepted and has a byte. Tied to "
              "/repo by exact trace correspondence of the real classes (emulated file operations with per-process locks, plus "
              "forked processes on real files for the former counterexample schedules).")
LEVEL_NOTE = ("trusted: Lean kernel; hand transcription Ebv.Mbx validated (not verified) by differential traces; asyncio.Lock and POSIX "
              "open/ftruncate/lockf/pread/pwrite semantics as modelled; no cancellation while waiting for a lock, no removal of the lock file (C23), one lock "
              "object per process and terminal; liveness only as non-blocking of the lock holder")
TECHNIQUE = "Lean 4 invariants over schedules (induction) + refutation by evaluation on witness schedules + differential traces"
DESIGN_REF = "§4 C15"
