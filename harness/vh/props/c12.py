"""C12 — every datagram request gets exactly its own response.

The real `EtherCat` object (sendloop, process_packet, roundtrip_packet,
roundtrip, datagram_received, Packet.append/assemble) runs on a fresh asyncio
event loop with a recording transport under an event script
(submit / cancel / quiesce / deliver / duplicate / lose).  Observed: every frame
handed to the transport (parsed by an independent parser into datagrams), the
requests completing in every quiesce, and each request's final outcome.  The
property text is evaluated on these observations (oracle), the same script is
run through the Lean model `Ebv.SendLoop` (correspondence), and the script is
re-run with another request's wkc / bytes / cancellation changed (independence).
"""
import asyncio
import gc
import logging
import signal
import struct
import warnings

warnings.filterwarnings("ignore", message="coroutine .* was never awaited")   # abandoned loops after a stall

ID = "C12"
LEAN_MODULES = ["Ebv.Props.C12"]
MODEL_MODULES = ["Ebv.Model.SendLoop"]
DRIVER = "Drivers/C12.lean"
THEOREMS = [
    "Ebv.C12.sent_once_in_order", "Ebv.C12.sent_after_quiesce", "Ebv.C12.sent_nodup",
    "Ebv.C12.frames_wellformed", "Ebv.C12.completes_at_most_once", "Ebv.C12.own_bytes",
    "Ebv.C12.wkc_zero_fails", "Ebv.C12.response_completes", "Ebv.C12.independence",
    "Ebv.C12.unsendable_fails", "Ebv.C12.overflow_only_unsendable", "Ebv.C12.cancelled_only_own",
]
TRUSTED = [
    "hand-written event-level model Ebv.SendLoop of sendloop/process_packet/roundtrip_packet/datagram_received, "
    "tied by exact correspondence of sent frames, per-quiesce completions and final outcomes",
    "asyncio semantics (FIFO ready queue, Queue.get not suspending on a non-empty queue, Future.cancel/done) are exercised "
    "through the real CPython asyncio in the correspondence, not verified",
    "harness/vh/props/c12.py: recording transport, deterministic packet-index source, independent frame parser",
    "Packet size/count limits regenerated into Ebv.Generated.Consts (MAXSIZE, PACKET_HEADER, DATAGRAM_HEADER, DATAGRAM_TAIL, "
    "PACKET_INDEX, MAX_DATAGRAMS)",
]
ASSUMPTIONS = [
    "environment events (submit, cancel, frame arrival) happen while all tasks are blocked; a submit is the synchronous part of "
    "roundtrip up to `await future`",
    "a packet index drawn by randint is never the index of a frame that was retired earlier (indices in flight are redrawn by the code)",
    "responses are arbitrary byte strings (any wkc, any payload, any truncation); frames are delivered, lost, duplicated, reordered",
]
RULE = ("scripts of submit(len)/cancel/quiesce/deliver/duplicate/lose events; workloads: many tiny datagrams (count limit), "
        "sizes around the 1500-byte frame limit, oversize datagrams, mixed; cancellations before packing, in flight and after "
        "completion; wkc in {0,1,2,3,256,65535}; truncated responses; loss, duplication, out-of-order delivery; index collisions; "
        "non-trivial = at least one frame sent")
LEVEL_TEXT = ("Lean 4 proof over an event-level model of the send loop, for every event list: each accepted sendable request is on the "
              "wire exactly once in submission order (cancelled or not), completes at most once, a result is the bytes at its own "
              "(start, stop) of an accepted response of its own frame with own wkc != 0, EtherCatError iff own wkc = 0 when its "
              "response is processed, the outcome of r is unchanged when other requests' cancellations and the bytes outside r's own "
              "datagram change, an unsendable request gets OverflowError in the next quiesce and everything queued behind it is sent. "
              "Tied to /repo by running the real EtherCat object under the same scripts (exact correspondence) and by regenerated limits.")
LEVEL_NOTE = ("trusted: Lean kernel + propext/Classical.choice/Quot.sound; the hand transcription Ebv.SendLoop is validated (not verified) "
              "by differential runs against the real code on CPython's asyncio; the atomicity of one sendloop pass and FIFO task order are "
              "asyncio behaviour observed through the correspondence; retired packet indices are assumed never to be drawn again")
TECHNIQUE = "Lean 4 invariants + simulation (noninterference) over event lists; differential correspondence on the real asyncio code"
DESIGN_REF = "§4 C12"

BUDGET_S = 4.0          # SIGALRM watchdog per script
MAX_STALLS = 3          # stop running further scripts after that many stalls (each costs BUDGET_S)
WKCS = [1, 1, 1, 1, 0, 0, 2, 3, 256, 65535]


class Stall(KeyboardInterrupt):
    """raised by the watchdog; a KeyboardInterrupt so that asyncio lets it through"""


class Transport:
    def __init__(self):
        self.sent = []

    def sendto(self, data, addr):
        self.sent.append(bytes(data))


class IndexSource:
    """stands in for random.randint in roundtrip_packet: fresh indices, and now and then first an
    index that is in flight (the code has to draw again)"""

    def __init__(self, ec, collide):
        self.ec, self.collide, self.n, self.last_collided = ec, collide, 0, False

    def __call__(self, a, b):
        if self.collide and self.ec.wait_futures and not self.last_collided and self.n % self.collide == 0:
            self.last_collided = True
            return next(iter(self.ec.wait_futures))
        self.last_collided = False
        self.n += 1
        return a + self.n * 3


# ---- independent frame parser (EtherCAT frame format, not Packet.assemble) ----------------------
def parse_frame(data):
    """-> (index, [dict(cmd, idx, pos, off, start, stop, wkc)]) or None"""
    try:
        if len(data) < 2:
            return None
        p = 2
        first = True
        index = None
        out = []
        while True:
            cmd, idx, addr, lf, _irq = struct.unpack_from("<BBiHH", data, p)
            ln, more = lf & 0x7ff, lf >> 15
            start = p + 10
            stop = start + ln
            wkc, = struct.unpack_from("<H", data, stop)
            if first:
                index = addr & 0xffffffff
                first = False
            else:
                pos, off = struct.unpack_from("<hH", data, p + 2)
                out.append({"cmd": cmd, "idx": idx, "pos": pos, "off": off, "start": start, "stop": stop, "wkc": wkc})
            p = stop + 2
            if not more:
                break
        return index, out
    except struct.error:
        return None


def payload(seed, ln):
    return bytes((seed * 17 + 3 + i * (1 + 2 * (seed % 5))) % 256 for i in range(ln))


CMDS = (4, 5, 1, 2, 7, 6)      # FPRD FPWR APRD APWR BRD FPRW


def addr_of(r):
    return r // 1000, r % 1000, r % 256, CMDS[r % len(CMDS)]


def expand(segs):
    out = bytearray()
    for s in segs:
        if s[0] == "h":
            out += bytes.fromhex(s[1])
        else:
            _, n, b0, st = s
            out += bytes((b0 + i * st) % 256 for i in range(n))
    return bytes(out)


def truncate(segs, t):
    out, have = [], 0
    for s in segs:
        n = len(s[1]) // 2 if s[0] == "h" else s[1]
        if have + n <= t:
            out.append(s)
            have += n
        else:
            k = t - have
            if k > 0:
                out.append(["h", s[1][:2 * k]] if s[0] == "h" else ["a", k, s[2], s[3]])
            break
    return out


def build_response(sent, spec):
    """the bus: the sent frame comes back with working counters and payload bytes chosen by the script"""
    parsed = parse_frame(sent)
    if parsed is None:
        return [["h", sent.hex()]]
    _, dgs = parsed
    segs = [["h", sent[:16].hex()]]
    ws, ps = spec.get("w", []), spec.get("p", [])
    end = 16
    for k, g in enumerate(dgs):
        segs.append(["h", sent[g["start"] - 10:g["start"]].hex()])
        seed = ps[k] if k < len(ps) else k
        n = g["stop"] - g["start"]
        if n:
            segs.append(["a", n, (seed * 29 + 11) % 256, 1 + 2 * (seed % 7)])
        segs.append(["h", struct.pack("<H", ws[k] if k < len(ws) else 1).hex()])
        end = g["stop"] + 2
    if len(sent) > end:
        segs.append(["h", sent[end:].hex()])
    if spec.get("t") is not None:
        segs = truncate(segs, spec["t"])
    return segs


# ---- the real code under an event script ---------------------------------------------------------
def outcome(E, t):
    if not t.done():
        return "pending"
    if t.cancelled():
        return "cancelled"
    e = t.exception()
    if e is None:
        r = t.result()
        return "result:" + r.hex() if isinstance(r, (bytes, bytearray)) else "other-result:" + type(r).__name__
    if isinstance(e, E.EtherCatError):
        return "ethercat-error"
    if isinstance(e, OverflowError):
        return "overflow"
    return "other:" + type(e).__name__


def kind_of(o):
    return "result" if o.startswith("result:") else o


def normalise(events):
    events = [list(e) for e in events]
    if not events or events[-1] != ["q"]:
        events.append(["q"])        # outcomes are read from the callers' tasks, which are in step after a quiesce
    return events


def _alarm(signum, frame):
    raise Stall()


def run_impl(case):
    """-> dict(obs=str, frames=[...], log=[...], outcomes={r: str}, snaps=[...], resolved=[...], stall=bool)"""
    import ebpfcat.ethercat as E
    events = normalise(case["events"])
    tr = Transport()
    ec = E.EtherCat("verif0")
    ec.transport = tr
    loop = asyncio.new_event_loop()
    loop.set_exception_handler(lambda *a: None)
    res = {"resolved": [], "log": [], "snaps": [], "order": [], "delivered": [], "stall": False, "lens": {}}
    tasks = {}

    async def settle():
        for _ in range(200000):
            await asyncio.sleep(0)
            ready = getattr(loop, "_ready", None)
            if ready is None:
                for _ in range(16):
                    await asyncio.sleep(0)
                return
            if not ready:
                return
        raise Stall()

    async def script():
        ec.send_queue = asyncio.Queue()
        sl = asyncio.ensure_future(ec.sendloop())
        await settle()
        prev = {}
        for i, ev in enumerate(events):
            k = ev[0]
            if k == "s":
                r, ln = ev[1], ev[2]
                res["resolved"].append(["s", r, ln])
                if r in tasks:
                    continue
                pos, off, idx, cmd = addr_of(r)
                data = payload(ev[3] if len(ev) > 3 else r, ln)
                res["lens"][r] = (ln, data)
                tasks[r] = asyncio.Task(ec.roundtrip(E.ECCmd(cmd), pos, off, data=data, idx=idx),
                                        loop=loop, eager_start=True)
                res["order"].append(r)
                prev[r] = "pending"
            elif k == "c":
                res["resolved"].append(ev)
                if ev[1] in tasks:
                    tasks[ev[1]].cancel()
            elif k == "q":
                res["resolved"].append(ev)
                await settle()
                snap = {r: outcome(E, tasks[r]) for r in res["order"]}
                newly = [f"{r}={kind_of(snap[r])}" for r in res["order"] if prev[r] == "pending" and snap[r] != "pending"]
                res["log"].append(f"q{i}:{len(tr.sent)}:" + ",".join(newly))
                res["snaps"].append((i, len(tr.sent), snap))
                prev = snap
            elif k in ("d", "u"):
                f = ev[1]
                if f < len(tr.sent):
                    segs = build_response(tr.sent[f], ev[2])
                    data = expand(segs)
                    res["resolved"].append([k, f, segs])
                    res["delivered"].append((i, f, data))
                    try:
                        ec.datagram_received(data, None)
                    except struct.error:
                        pass            # too short to carry an index: raised into the transport, nothing happened
                else:
                    res["resolved"].append(["l", f])    # the bus cannot return a frame that was never sent
            elif k == "l":
                res["resolved"].append(ev)
            else:
                raise ValueError(f"bad event {ev}")
        final = {r: outcome(E, tasks[r]) for r in res["order"]}
        for t in asyncio.all_tasks(loop):
            if t is not asyncio.current_task():
                t.cancel()
        await settle()
        return final

    old_randint = E.randint
    E.randint = IndexSource(ec, case.get("collide", 0))
    old_disable = logging.root.manager.disable
    logging.disable(logging.CRITICAL)
    old_handler = signal.signal(signal.SIGALRM, _alarm)
    signal.setitimer(signal.ITIMER_REAL, BUDGET_S)
    gc_was = gc.isenabled()
    try:
        try:
            final = loop.run_until_complete(script())
        finally:
            signal.setitimer(signal.ITIMER_REAL, 0)
        res["outcomes"] = final
    except Stall:
        res["stall"] = True
        res["outcomes"] = {}
    finally:
        signal.signal(signal.SIGALRM, old_handler)
        E.randint = old_randint
        try:
            if res["stall"]:
                # an abandoned loop full of never-started tasks: drop it without running them
                gc.disable()
                loop._ready.clear()
            loop.close()
        except Exception:
            pass
        tasks.clear()
        del loop
        if gc_was:
            gc.enable()
        logging.disable(old_disable)
    res["sent"] = tr.sent
    frames = []
    for n, raw in enumerate(tr.sent[:2000]):
        p = parse_frame(raw)
        frames.append(None if p is None else
                      [dict(g, rid=g["pos"] * 1000 + g["off"], payload=raw[g["start"]:g["stop"]]) for g in p[1]])
    res["frames"] = frames
    res["indices"] = [None if parse_frame(raw) is None else parse_frame(raw)[0] for raw in tr.sent[:2000]]
    if res["stall"]:
        res["obs"] = "stall"
    else:
        fs = " ".join("F%d[%s]" % (n, "unparseable" if fr is None else
                                   ",".join(f"{g['rid']}@{g['start']}-{g['stop']}" for g in fr))
                      for n, fr in enumerate(frames))
        res["obs"] = fs + " | " + " ".join(res["log"]) + " | " + " ".join(f"{r}={res['outcomes'][r]}" for r in res["order"])
    return res


# ---- the property text on the observations -------------------------------------------------------
def oracle(ctx, case, res):
    from ebpfcat.ethercat import Packet as P
    events = normalise(case["events"])
    obs = res["obs"] if len(res["obs"]) < 600 else res["obs"][:600] + "…"
    if not ctx.require(not res["stall"], "the event loop is blocked (watchdog fired): the master stalls", case, "stall", "stall"):
        return
    limit = P.MAXSIZE - P.PACKET_HEADER - P.DATAGRAM_HEADER - P.DATAGRAM_TAIL

    def sendable(ln):
        return ln <= limit

    sub_at, cancel_at = {}, {}
    for i, ev in enumerate(events):
        if ev[0] == "s" and ev[1] not in sub_at:
            sub_at[ev[1]] = i
        elif ev[0] == "c" and ev[1] in sub_at and ev[1] not in cancel_at:
            cancel_at[ev[1]] = i
    qs = [i for i, ev in enumerate(events) if ev[0] == "q"]
    order = [r for r in sorted(sub_at, key=sub_at.get)]
    lens = {r: res["lens"][r][0] for r in order}

    def next_q(i):
        return next((q for q in qs if q > i), None)

    # (1) sent exactly once, in submission order, its own datagram; oversize ones never
    frames = res["frames"]
    ok = ctx.require(all(fr is not None and len(fr) >= 1 for fr in frames), "a transmitted frame cannot be parsed / is empty",
                     case, obs, "frame")
    if not ok:
        return
    wire = [g["rid"] for fr in frames for g in fr]
    ctx.require(wire == [r for r in order if sendable(lens[r])],
                "requests on the wire are not exactly the sendable submitted ones, once each, in submission order",
                case, obs, "order")
    for (i, nsent, _snap) in res["snaps"]:
        ctx.require([g["rid"] for fr in frames[:nsent] for g in fr] == [r for r in order if sub_at[r] < i and sendable(lens[r])],
                    "after a quiesce not exactly the requests submitted so far are on the wire", case, obs, "order")
    place = {}
    for n, fr in enumerate(frames):
        ctx.require(len(res["sent"][n]) <= max(P.MAXSIZE, 46), "frame longer than the limit", case, obs, "frame")
        for g in fr:
            r = g["rid"]
            if r in lens:
                pos, off, idx, cmd = addr_of(r)
                ctx.require(g["payload"] == res["lens"][r][1] and g["cmd"] == cmd and g["idx"] == idx,
                            "a transmitted datagram is not the request's own datagram", case, obs, "datagram")
            place.setdefault(r, (n, g["start"], g["stop"]))
    inflight = {}
    for n, ix in enumerate(res["indices"]):
        sent_q = next(i for (i, nsent, _s) in res["snaps"] if nsent > n)
        inflight[n] = (ix, sent_q)
    # (2) completes at most once
    seen = {}
    for (_i, _n, snap) in res["snaps"] + [(None, None, res["outcomes"])]:
        for r, o in snap.items():
            if r in seen and seen[r] != "pending":
                ctx.require(o == seen[r], "a completed request changed its outcome", case, obs, "once")
            seen[r] = o
    # (3) own bytes / own wkc / lost -> never / unsendable -> overflow / cancelled
    for r in order:
        got = res["outcomes"][r]
        exp, t_done = None, None
        if not sendable(lens[r]):
            t_done, exp = next_q(sub_at[r]), "overflow"
        elif r in place:
            f, start, stop = place[r]
            sent_q = inflight[f][1]
            hit = next(((i, d) for (i, ff, d) in res["delivered"] if ff == f and i > sent_q and len(d) >= 8), None)
            if hit is not None:
                t_done = next_q(hit[0])
                d = hit[1]
                if len(d) < stop + 2:
                    exp = "error"
                elif d[stop] == 0 and d[stop + 1] == 0:
                    exp = "ethercat-error"
                else:
                    exp = "result:" + d[start:stop].hex()
        tc = cancel_at.get(r)
        if tc is not None and (t_done is None or tc < t_done):
            exp, t_done = "cancelled", next_q(tc)
        if t_done is None:
            exp = "pending"
        if exp == "error":
            ctx.require(got.startswith("other:"), "a request whose datagram is missing from a truncated response did not fail",
                        case, f"request {r}: {got}; " + obs, "truncated")
        else:
            cls = {"overflow": "unsendable", "cancelled": "cancel", "pending": "lost", "ethercat-error": "wkc"}.get(exp, "own-bytes")
            if got == "ethercat-error" or exp == "ethercat-error":
                cls = "wkc"
            ctx.require(got == exp, f"request {r}: expected {exp[:80]} by the property text, got {got[:80]}", case, obs, cls)
        if t_done is not None:
            when = next((i for (i, _n, snap) in res["snaps"] if snap.get(r, "pending") != "pending"), None)
            ctx.require(when == t_done, f"request {r} completed at event {when}, expected in the quiesce at {t_done}", case, obs, "when")


# ---- independence: change what belongs to another request, re-run, compare -----------------------
def variant(rng, case, res):
    """-> (changed case, set of requests whose own inputs changed) or None"""
    events = [list(e) for e in normalise(case["events"])]
    choice = rng.random()
    deliveries = [i for i, ev in enumerate(events) if ev[0] in ("d", "u") and ev[1] < len(res["frames"]) and res["frames"][ev[1]]]
    if choice < 0.5 and deliveries:
        i = rng.choice(deliveries)
        fr = res["frames"][events[i][1]]
        k = rng.randrange(len(fr))
        spec = dict(events[i][2])
        if rng.random() < 0.6:
            w = list(spec.get("w", []))
            w += [1] * (k + 1 - len(w))
            w[k] = 0 if w[k] else rng.choice([1, 2, 256])
            spec["w"] = w
        else:
            p = list(spec.get("p", []))
            p += list(range(len(p), k + 1))
            p[k] = p[k] + 1 + rng.randrange(50)
            spec["p"] = p
        events[i] = [events[i][0], events[i][1], spec]
        return dict(case, events=events), {fr[k]["rid"]}
    cancels = [i for i, ev in enumerate(events) if ev[0] == "c"]
    if choice < 0.75 and cancels:
        i = rng.choice(cancels)
        r = events[i][1]
        del events[i]
        return dict(case, events=events), {r}
    if res["order"]:
        r = rng.choice(res["order"])
        first = next(i for i, ev in enumerate(events) if ev[0] == "s" and ev[1] == r)
        events.insert(rng.randrange(first + 1, len(events)), ["c", r])
        return dict(case, events=events), {r}
    return None


def independence(ctx, rng, case, res):
    v = variant(rng, case, res)
    if v is None or res["stall"]:
        return
    case2, touched = v
    res2 = run_impl(case2)
    ctx.stats["independence-pairs"] += 1
    pair = {"events": case["events"], "collide": case.get("collide", 0), "variant": case2["events"], "touched": sorted(touched)}
    if not ctx.require(not res2["stall"], "the event loop is blocked (watchdog fired): the master stalls", case2, "stall", "stall"):
        return
    same_wire = [[g["rid"] for g in fr] if fr is not None else None for fr in res["frames"]] == \
                [[g["rid"] for g in fr] if fr is not None else None for fr in res2["frames"]]
    ctx.require(same_wire, "changing another request's response/cancellation changed what is sent", pair,
                f"touched {sorted(touched)}", "independence")
    for r in res["order"]:
        if r not in touched:
            ctx.require(res["outcomes"][r] == res2["outcomes"].get(r),
                        f"outcome of request {r} changed although only requests {sorted(touched)} were changed",
                        pair, f"{res['outcomes'][r][:60]} -> {str(res2['outcomes'].get(r))[:60]}", "independence")


# ---- generators ------------------------------------------------------------------------------------
def plan(queue, limit=1500, maxd=15):
    """generator-side guess of how a queue is packed (only used to aim deliveries at plausible frames)"""
    frames, cur, size = [], [], 16
    for r, ln in queue:
        if 16 + ln + 12 > limit:
            if cur and (size + ln + 12 > limit or len(cur) >= maxd):
                frames.append(cur)
                cur, size = [], 16
            continue
        if size + ln + 12 > limit or len(cur) >= maxd:
            frames.append(cur)
            cur, size = [], 16
        cur.append((r, ln))
        size += ln + 12
    if cur:
        frames.append(cur)
    return frames


def gen_len(rng, kind):
    x = rng.random()
    if kind == "tiny":
        return rng.choice([0, 0, 1, 2, 2, 4, 6, 8])
    if kind == "big":
        if x < 0.25:
            return rng.choice([1472, 1471, 1470, 1460])
        if x < 0.6:
            return rng.choice([730, 729, 731, 724, 736, 484, 485, 486, 355, 356, 357])
        return rng.randrange(200, 1473)
    if kind == "oversize":
        if x < 0.35:
            return rng.choice([1473, 1474, 1500, 2000, 4000])
        if x < 0.5:
            return rng.choice([1472, 1460])
        return rng.choice([0, 2, 4, 10, 100, 700])
    # mixed
    if x < 0.5:
        return rng.randrange(0, 16)
    if x < 0.8:
        return rng.randrange(16, 400)
    if x < 0.95:
        return rng.randrange(400, 1473)
    return rng.choice([1473, 1480, 3000])


def gen(rng, kind=None, scale=1):
    kind = kind or rng.choice(["tiny", "tiny", "big", "oversize", "mixed", "mixed"])
    events = []
    queue = []              # submitted, not yet quiesced
    flight = []             # planned frames sent and not yet delivered: (fid, [(r, len)])
    gone = []               # frame ids delivered or lost
    alive, packed, done = [], [], []   # request names by stage
    nf = 0
    rid = rng.choice([0, 0, 1, 990])
    phases = rng.randrange(1, 6)
    for _ph in range(phases):
        nsub = rng.choice([0, 1, 1, 2, 3, 5]) if kind != "tiny" else rng.choice([1, 3, 14, 15, 16, 17, 31, 40])
        nsub = min(nsub * scale, 80)
        acts = ["s"] * nsub
        acts += ["c"] * rng.choice([0, 0, 0, 1, 1, 2])
        acts += ["d"] * (rng.randrange(0, len(flight) + 2) if flight else rng.choice([0, 0, 1]))
        if rng.random() < 0.2:
            acts.append("q")
        rng.shuffle(acts)
        if rng.random() < 0.5:      # submissions first: cancellations then hit queued requests
            acts.sort(key=lambda a: a != "s")
        for a in acts:
            if a == "s":
                ln = gen_len(rng, kind)
                events.append(["s", rid, ln, rng.randrange(0, 200)])
                queue.append((rid, ln))
                alive.append(rid)
                rid += rng.choice([1, 1, 1, 2, 7])
            elif a == "c":
                pool = rng.choice([alive, [r for r, _ in queue], packed, done])
                if pool:
                    events.append(["c", rng.choice(pool)])
                elif rng.random() < 0.2:
                    events.append(["c", rid + 50])      # never submitted
            elif a == "d":
                x = rng.random()
                if flight and x < 0.7:
                    fid, dgs = flight.pop(rng.randrange(len(flight)))     # any order
                    y = rng.random()
                    if y < 0.12:
                        events.append(["l", fid])
                        gone.append(fid)
                        continue
                    spec = {"w": [rng.choice(WKCS) for _ in dgs]}
                    if rng.random() < 0.3:
                        spec["w"] = spec["w"][:rng.randrange(0, len(dgs) + 1)]
                    if rng.random() < 0.5:
                        spec["p"] = [rng.randrange(0, 250) for _ in dgs]
                    if rng.random() < 0.08:
                        size = 16 + sum(ln + 12 for _, ln in dgs)
                        cuts = [0, 4, 7, 8, 15, 16, 26, size - 1, size - 2, size - 3, size]
                        pos = 16
                        for _, ln in dgs:
                            cuts += [pos + 10, pos + 10 + ln, pos + 11 + ln, pos + 12 + ln]
                            pos += ln + 12
                        spec["t"] = max(0, rng.choice(cuts))
                    events.append(["d", fid, spec])
                    gone.append(fid)
                    done += [r for r, _ in dgs]
                    if rng.random() < 0.2:
                        events.append(["u", fid, {"w": [rng.choice(WKCS) for _ in dgs], "p": [rng.randrange(250) for _ in dgs]}])
                elif gone and x < 0.85:
                    events.append([rng.choice(["d", "u"]), rng.choice(gone), {"w": [rng.choice(WKCS) for _ in range(3)]}])
                else:
                    events.append([rng.choice(["d", "l"]), nf + rng.randrange(0, 3), {"w": [0, 1]}][:3])
                    if events[-1][0] == "l":
                        events[-1] = events[-1][:2]
            elif a == "q":
                events.append(["q"])
                for fr in plan(queue):
                    flight.append((nf, fr))
                    packed += [r for r, _ in fr]
                    nf += 1
                queue = []
        events.append(["q"])
        for fr in plan(queue):
            flight.append((nf, fr))
            packed += [r for r, _ in fr]
            nf += 1
        queue = []
        if rng.random() < 0.15:
            events.append(["q"])
    if flight and rng.random() < 0.6:     # the bus answers what is still out
        rng.shuffle(flight)
        for fid, dgs in flight:
            if rng.random() < 0.85:
                events.append(["d", fid, {"w": [rng.choice(WKCS) for _ in dgs], "p": [rng.randrange(250) for _ in dgs]}])
        events.append(["q"])
    return {"events": events, "collide": rng.choice([0, 0, 1, 2, 3])}


FIXED = [
    # the two fixed defects: cancelled request with wkc 0 next to others; oversize alone and behind others
    {"events": [["s", 0, 2, 1], ["s", 1, 2, 2], ["s", 2, 2, 3], ["q"], ["c", 0], ["d", 0, {"w": [0, 1, 1]}], ["q"]], "collide": 0},
    {"events": [["s", 0, 2000, 1], ["q"]], "collide": 0},
    {"events": [["s", 0, 4, 1], ["s", 1, 1473, 2], ["s", 2, 4, 3], ["q"], ["d", 0, {"w": [1]}], ["d", 1, {"w": [1]}], ["q"]], "collide": 0},
    {"events": [["s", 0, 1473, 1], ["c", 0], ["s", 1, 1472, 2], ["q"], ["d", 0, {"w": [3]}], ["q"]], "collide": 0},
    # count limit: 31 tiny datagrams -> 15 + 15 + 1; out-of-order delivery, duplicate, loss
    {"events": [["s", r, r % 3, r] for r in range(31)] + [["q"], ["d", 2, {"w": [256]}], ["d", 0, {"w": [1] * 7 + [0] * 8}],
                                                          ["u", 0, {"w": [0] * 15}], ["l", 1], ["q"]], "collide": 2},
    # size limit exactly reached, and crossed by one byte
    {"events": [["s", 0, 730, 1], ["s", 1, 730, 2], ["s", 2, 730, 3], ["s", 3, 731, 4], ["q"],
                ["d", 1, {"w": [1, 1]}], ["d", 0, {"w": [1, 0]}], ["q"]], "collide": 1},
    # response arrives, request cancelled before the loop runs again
    {"events": [["s", 0, 2, 1], ["s", 1, 2, 2], ["q"], ["d", 0, {"w": [1, 1]}], ["c", 1], ["q"], ["c", 0], ["q"]], "collide": 0},
    # truncated response: the first datagram is complete, the second is cut
    {"events": [["s", 0, 4, 1], ["s", 1, 4, 2], ["q"], ["d", 0, {"w": [1, 1], "t": 40}], ["q"]], "collide": 0},
]


def run(ctx):
    rng = ctx.rng
    cases = list(FIXED)
    n = ctx.n(1500, 40000)
    for _ in range(n):
        cases.append(gen(rng))
    for _ in range(ctx.n(40, 600)):      # long queues
        cases.append(gen(rng, kind=rng.choice(["tiny", "mixed"]), scale=3))
    impl, lines = [], []
    stalls = 0
    for c in cases:
        res = run_impl(c)
        if res["stall"]:
            stalls += 1
        impl.append(res["obs"])
        lines.append({"events": res["resolved"]})
        nframes = len(res["sent"])
        ctx.case(c, nontrivial=nframes > 0 and not res["stall"], kind=None)
        for o in res["outcomes"].values():
            ctx.stats["outcome:" + kind_of(o)] += 1
        ctx.stats["frames"] += nframes
        ctx.stats["frames-15-datagrams"] += sum(1 for fr in res["frames"] if fr is not None and len(fr) == 15)
        ctx.stats["frames>=1400B"] += sum(1 for raw in res["sent"] if len(raw) >= 1400)
        oracle(ctx, c, res)
        if rng.random() < 0.5 and not res["stall"]:
            independence(ctx, rng, c, res)
        if stalls >= MAX_STALLS:
            ctx.notes.append(f"stopped after {stalls} stalled scripts")
            break
    done = len(impl)
    model = ctx.drive(DRIVER, lines, "send loop")
    if model is not None:
        for c, i, m in zip(cases[:done], impl, model):
            ctx.agree("send loop observations", c, i, m)


def replay(ctx, case):
    if "variant" in case:           # an independence pair
        a = run_impl({"events": case["events"], "collide": case.get("collide", 0)})
        b = run_impl({"events": case["variant"], "collide": case.get("collide", 0)})
        touched = set(case["touched"])
        ctx.require(not a["stall"] and not b["stall"], "the event loop is blocked (watchdog fired)", case, "stall", "stall")
        for r in a["order"]:
            if r not in touched:
                ctx.require(a["outcomes"].get(r) == b["outcomes"].get(r),
                            f"outcome of request {r} changed although only requests {sorted(touched)} were changed",
                            case, f"{a['outcomes'].get(r)} -> {b['outcomes'].get(r)}", "independence")
        return {"base": a["obs"][:2000], "variant": b["obs"][:2000]}
    res = run_impl(case)
    oracle(ctx, case, res)
    return {"observed": res["obs"][:4000]}
