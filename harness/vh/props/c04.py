"""C04 — writing one variable never changes another.
Layout part: random program classes (locals of all sizes, Dict key/value images, base
classes, subprograms) are built with the real descriptors; their stack offsets,
get_stack temporaries and subprogram addresses are compared with the Lean model
`Ebv.Stack`, and the property's oracle checks pairwise disjointness directly.
Execution part: real generated programs that assign every variable in turn are run in
the interpreter and every variable is read back afterwards (shadow store)."""
import struct

from .. import fsim, interp

ID = "C04"
LEAN_MODULES = ["Ebv.Props.C04"]
MODEL_MODULES = ["Ebv.Model.Stack"]
DRIVER = "Drivers/C04.lean"
THEOREMS = ["Ebv.C04.alloc_bounds", "Ebv.C04.alloc_disjoint", "Ebv.C04.alloc_aligned", "Ebv.C04.temp_below",
            "Ebv.C04.temp_disjoint_from_locals", "Ebv.C04.nested_temps_disjoint", "Ebv.C04.subprog_disjoint_refuted",
            "Ebv.C04.temp_vs_subprog_refuted"]
TRUSTED = ["hand-written layout model Ebv.Stack (LocalVar/Dict allocation, get_stack, subprogram address rule), tied by exact correspondence of the "
           "offsets the real descriptors compute", "harness/vh/interp.py for the shadow-store runs"]
ASSUMPTIONS = ["formats of local variables are 1/2/4/8 bytes (B H I Q b h i q x); `x & -size` is modelled as rounding down to a multiple of size",
               "that the code emitted for `v = e` stores only into v's range is the frame condition of C01 (assign_correct); here it is exercised by "
               "the shadow-store runs only", "hash-map variables are covered by C09", "kernel stack limit of 512 bytes is C05's concern"]
RULE = ("layouts: 1..10 declarations (LocalVar of every format, Dict with random Structure sizes), 0..2 base classes, 0..3 subprogram instances of 1..2 "
        "classes, nested get_stack of sizes 4/8; shadow runs: every variable assigned a distinct constant in random order, all read back; "
        "non-trivial = at least two declarations")

FMT_SIZE = {"B": 1, "b": 1, "H": 2, "h": 2, "I": 4, "i": 4, "Q": 8, "q": 8, "x": 8}


def make_structure(rng, name):
    from ebpfcat.ebpf import Structure, Member
    ns, off = {}, 0
    for k in range(rng.randrange(1, 5)):
        f = rng.choice("BHIQbhiq")
        s = FMT_SIZE[f]
        if off % s:
            f, s = "B", 1
        ns[f"m{k}"] = Member(f)
        off += s
    return type(name, (Structure,), ns)


def gen_layout(rng):
    """returns a JSON-able description: bases = list of decl lists (MRO from root to leaf)"""
    levels = []
    for _ in range(rng.randrange(1, 4)):
        ds = []
        for _ in range(rng.randrange(0, 6)):
            if rng.random() < 0.8:
                ds.append(["loc", rng.choice("BHIQbhiqx")])
            else:
                ds.append(["dict", rng.randrange(1 << 30), rng.randrange(1 << 30)])
        levels.append(ds)
    subs = []
    for _ in range(rng.choice([0, 0, 1, 2, 3])):
        subs.append([rng.choice("BHIQbhiq") for _ in range(rng.randrange(1, 4))])
    return {"levels": levels, "subs": subs, "same_class": rng.random() < 0.4, "temps": [rng.choice([4, 8]) for _ in range(rng.randrange(0, 4))]}


def build(desc):
    import random
    from ebpfcat.ebpf import EBPF, LocalVar, SubProgram
    from ebpfcat.hashmap import Dict
    base = EBPF
    names = []      # (level, name, kind)
    for li, ds in enumerate(desc["levels"]):
        ns = {}
        for k, d in enumerate(ds):
            nm = f"v{li}_{k}"
            if d[0] == "loc":
                ns[nm] = LocalVar(d[1])
            else:
                K = make_structure(random.Random(d[1]), "K")
                V = make_structure(random.Random(d[2]), "V")
                ns[nm] = Dict(K, V)
            names.append((li, nm, d[0]))
        base = type(f"L{li}", (base,), ns)
    subclasses = []
    for si, fmts in enumerate(desc["subs"]):
        if desc["same_class"] and subclasses:
            subclasses.append(subclasses[0])
        else:
            subclasses.append(type(f"S{si}", (SubProgram,), {f"s{k}": LocalVar(f) for k, f in enumerate(fmts)}))
    subs = [c() for c in subclasses]
    with fsim.fake_maps():
        e = base(subprograms=subs)
    return base, e, names, subs


def observe(desc):
    """slots the real descriptors compute: (addr, size, owner) + temps + final stack"""
    cls, e, names, subs = build(desc)
    slots, decls = [], []
    for li, nm, kind in names:
        d = None
        for c in cls.__mro__:
            if nm in c.__dict__:
                d = c.__dict__[nm]
                break
        if kind == "loc":
            slots.append([d.relative_addr, FMT_SIZE[d.fmt], nm])
            decls.append(["loc", FMT_SIZE[d.fmt]])
        else:
            slots.append([d.key_offset, d.Key.stack, nm + ".key"])
            slots.append([d.value_offset, d.Value.stack, nm + ".value"])
            decls.append(["dict", d.Key.stack, d.Value.stack])
    subslots = []
    for si, s in enumerate(subs):
        for k, v in type(s).__dict__.items():
            if hasattr(v, "relative_addr"):
                fmt, addr = v.fmt_addr(s)
                subslots.append([addr, FMT_SIZE[fmt], f"sub{si}.{k}", v.relative_addr])
    temps = []
    ctxs = []
    for n in desc["temps"]:
        c = e.get_stack(n)
        temps.append([c.__enter__(), n])
        ctxs.append(c)
    for c in reversed(ctxs):
        c.__exit__(None, None, None)
    return {"slots": slots, "decls": decls, "final": cls.stack, "temps": temps, "subslots": subslots}


def overlap(a, b):
    return a[0] < b[0] + b[1] and b[0] < a[0] + a[1]


def shadow_run(ctx, rng, desc):
    """main program with locals and array-map variables: assign all, read all back"""
    from ebpfcat.ebpf import EBPF, LocalVar
    from ebpfcat.arraymap import ArrayMap
    fmts = [d[1] for ds in desc["levels"] for d in ds if d[0] == "loc" and d[1] != "x"][:8]
    mfmts = [rng.choice("BHIQbhiq") for _ in range(rng.randrange(0, 4))]
    if len(fmts) + len(mfmts) < 2:
        return
    vals = {}
    order = [f"l{k}" for k in range(len(fmts))] + [f"g{k}" for k in range(len(mfmts))]
    rng.shuffle(order)

    def wrapv(f, v):
        n = FMT_SIZE[f]
        v %= 1 << (8 * n)
        return v - (1 << (8 * n)) if f.islower() and v >> (8 * n - 1) else v
    allf = {f"l{k}": f for k, f in enumerate(fmts)} | {f"g{k}": f for k, f in enumerate(mfmts)}
    for nm in order:
        vals[nm] = wrapv(allf[nm], rng.getrandbits(64) | 1)

    def program(self):
        for nm in order:
            setattr(self, nm, vals[nm])
        self.r0 = 0
        self.exit()
    m = ArrayMap()
    ns = {"program": program, "m": m}
    for k, f in enumerate(fmts):
        ns[f"l{k}"] = LocalVar(f)
    for k, f in enumerate(mfmts):
        ns[f"g{k}"] = m.globalVar(f)
    cls = type("P", (EBPF,), ns)
    with fsim.fake_maps() as created:
        e = cls()
        e.assemble()
    regions, helpers = [], {}
    if created:
        mp = interp.ArrayMapModel(created[0][0], created[0][1][2])
        regions, helpers = [mp.value], interp.std_helpers({created[0][0]: mp})
    mach = interp.Machine(e.opcodes, regions, helpers)
    mach.wr(1, 0)
    case = {"op": "shadow", "locals": fmts, "mapvars": mfmts, "order": order, "values": vals}
    try:
        mach.run()
    except interp.Fault as ex:
        ctx.require(False, "generated program faults", case, str(ex), "fault")
        return
    bad = []
    for nm in order:
        f = allf[nm]
        if nm[0] == "l":
            a = interp.STACK_TOP + cls.__dict__[nm].relative_addr
            raw = mach.load(a, FMT_SIZE[f])
        else:
            raw = int.from_bytes(mp.value.data[e.__dict__[nm]:e.__dict__[nm] + FMT_SIZE[f]], "little")
        if wrapv(f, raw) != vals[nm]:
            bad.append((nm, wrapv(f, raw), vals[nm]))
    ctx.case(case, nontrivial=True, kind="shadow")
    ctx.require(not bad, "a variable changed when another one was written", case, str(bad[:3]), None)


def run(ctx):
    rng = ctx.rng
    cases, impl = [], []
    for _ in range(ctx.n(400, 20000)):
        desc = gen_layout(rng)
        try:
            o = observe(desc)
        except Exception as ex:
            ctx.require(False, f"layout could not be built: {type(ex).__name__}: {ex}", desc, None, "build")
            continue
        ctx.case(desc, nontrivial=len(o["slots"]) >= 2, kind=f"subs{len(desc['subs'])}")
        # property oracle: declared variables and temporaries pairwise disjoint
        main = o["slots"]
        for i in range(len(main)):
            for j in range(i):
                ctx.require(not overlap(main[i], main[j]), f"{main[i][2]} and {main[j][2]} share stack bytes", desc, str(main), None)
        live = []
        for t in o["temps"]:
            for s in main + live:
                ctx.require(not overlap(t, s), "a get_stack temporary overlaps a live variable/temporary", desc, str((t, s)), None)
            live.append(t)
        ss = o["subslots"]
        for i in range(len(ss)):
            for j in range(i):
                if ss[i][2].split(".")[0] != ss[j][2].split(".")[0]:
                    ctx.require(not overlap(ss[i], ss[j]), "locals of two subprogram instances share stack bytes", desc, str((ss[i], ss[j])),
                                "subprogram-locals")
            for s in main:
                ctx.require(not overlap(ss[i], s), "a subprogram local overlaps a main-program variable", desc, str((ss[i], s)), None)
            for t in o["temps"]:
                ctx.require(not overlap(ss[i], t), "a get_stack temporary overlaps a subprogram local", desc, str((ss[i], t)), "subprogram-locals")
        # correspondence
        cases.append({"op": "alloc", "start": 0, "decls": o["decls"]})
        impl.append(" ".join(f"{a}:{n}" for a, n, _ in main) + f" | {o['final']}")
        if o["temps"]:
            cases.append({"op": "temps", "stack": o["final"], "sizes": [n for _, n in o["temps"]]})
            impl.append(" ".join(str(a) for a, _ in o["temps"]))
        for a, n, nm, rel in ss[:3]:
            cases.append({"op": "sub", "stack": o["final"], "rel": rel})
            impl.append(str(a))
    for _ in range(ctx.n(150, 5000)):
        shadow_run(ctx, rng, gen_layout(rng))
    model = ctx.drive(DRIVER, cases, "stack layout")
    if model is not None:
        for c, i, m in zip(cases, impl, model):
            ctx.agree(f"stack layout {c['op']}", c, i, m)


def replay(ctx, case):
    if case.get("op") == "shadow":
        return {"note": "shadow runs are regenerated from the seed; see the layout cases"}
    o = observe(case)
    ss = o["subslots"]
    for i in range(len(ss)):
        for j in range(i):
            if ss[i][2].split(".")[0] != ss[j][2].split(".")[0]:
                ctx.require(not overlap(ss[i], ss[j]), "locals of two subprogram instances share stack bytes", case, str((ss[i], ss[j])),
                            "subprogram-locals")
        for t in o["temps"]:
            ctx.require(not overlap(ss[i], t), "a get_stack temporary overlaps a subprogram local", case, str((ss[i], t)), "subprogram-locals")
    main = o["slots"]
    for i in range(len(main)):
        for j in range(i):
            ctx.require(not overlap(main[i], main[j]), f"{main[i][2]} and {main[j][2]} share stack bytes", case, str(main), None)
    return o


LEVEL_TEXT = ("Lean 4 proofs over the stack-layout model, for every declaration list: variables and Dict key/value images are pairwise disjoint, below the "
              "start and aligned; get_stack temporaries lie strictly below every declared variable and nested temporaries are disjoint. The subprogram "
              "rule is refuted (two subprogram instances' first locals share a slot; a main-program temporary overlaps a subprogram local) and recorded "
              "as a known finding. Tie: exact correspondence of the offsets computed by the real LocalVar/Dict/Member descriptors, get_stack and "
              "fmt_addr for random class hierarchies; plus shadow-store runs of real generated programs in the interpreter.")
LEVEL_NOTE = ("trusted: Lean kernel + standard axioms; layout model validated by correspondence; store footprint of emitted assignments is C01's frame "
              "condition (exercised here only by execution); hash-map variables → C09; array-map layout → C08")
TECHNIQUE = "Lean 4 induction over declaration lists (disjointness invariant) + exact layout correspondence + shadow-store execution"
DESIGN_REF = "§4 C04"
