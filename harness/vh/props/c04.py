"""C04 — writing one variable never changes another.
Layout part: random program classes (locals of all sizes, Dict key/value images, base
classes, subprograms) are built with the real descriptors; their stack offsets,
get_stack temporaries and subprogram addresses are compared with the Lean model
`Ebv.Stack`, and the property's oracle checks pairwise disjointness directly.
Execution part: real generated programs that assign every variable in turn are run in
the interpreter and every variable is read back afterwards (shadow store)."""
import struct

from .. import fsim, interp

ID = "C04"
LEAN_MODULES = ["Ebv.Props.C04"]
MODEL_MODULES = ["Ebv.Model.Stack"]
DRIVER = "Drivers/C04.lean"
THEOREMS = ["Ebv.C04.alloc_bounds", "Ebv.C04.alloc_disjoint", "Ebv.C04.alloc_aligned", "Ebv.C04.temp_below",
            "Ebv.C04.temp_disjoint_from_locals", "Ebv.C04.nested_temps_disjoint", "Ebv.C04.subprog_disjoint_refuted",
            "Ebv.C04.temp_vs_subprog_refuted",
            "Ebv.C04.varSlots_bounds", "Ebv.C04.varSlots_disjoint", "Ebv.C04.writeTemps_above", "Ebv.C04.read_write_same",
            "Ebv.C04.read_write_indep", "Ebv.C04.exec_shadow", "Ebv.C04.progVars_indep", "Ebv.C04.noninterference",
            "Ebv.C04.relSlots_below", "Ebv.C04.sub_below_main", "Ebv.C04.world_sub_disjoint", "Ebv.C04.world_sub_local"]
TRUSTED = ["hand-written layout model Ebv.Stack (LocalVar/Dict/Member allocation, get_stack, subprogram address rule; statements as stores of the "
           "variable's width with arbitrary temporaries), tied by exact correspondence of the offsets the real descriptors and the instance's "
           "access path compute and of the values real generated programs leave in every variable",
           "harness/vh/interp.py and the emulated kernel of C10 (harness/vh/props/c10.py EmuKernel) for the shadow-store / exec runs"]
ASSUMPTIONS = ["formats of local variables are 1/2/4/8 bytes (B H I Q b h i q x); `x & -size` is modelled as rounding down to a multiple of size",
               "that the code emitted for `v = e` stores only into v's range is the frame condition of C01 (assign_correct); here it is exercised by "
               "the shadow-store runs only", "hash-map and array-map variables are cells of maps of their own in the model (their layout: C08, C09); in the exec runs they take part as "
               "sources, targets and users of get_stack temporaries", "kernel stack limit of 512 bytes is C05's concern",
               "exec runs: values are positive and fit every format involved (truncation / sign extension: C01); a program the generator refuses "
               "(AssembleError: not enough registers) is not judged (C05); subprogram locals are not part of the exec runs (known finding "
               "C04-subprogram-locals, layout part)"]
RULE = ("layouts: 1..10 declarations (LocalVar of every format, Dict with random Structure classes, half of them drawn from a pool of 1..3 classes "
        "so that several Dicts - or key and value of one - use the same class), 0..2 base classes, 0..3 subprogram instances of 1..2 "
        "classes, nested get_stack of sizes 4/8; addresses are taken where the generated code takes them (instance.<dict>.key/value.addr_offset + "
        "Member.relative_addr), per member; shadow runs: every variable assigned a distinct constant in random order, all read back; "
        "exec runs: self-contained programs (1..2 class levels; locals, Dicts over 1..3 shared Structure classes, array-map and hash-map variables) "
        "loaded into the emulated kernel: every variable (each Dict member included) initialised, then 2..11 statements (constant, copy + constant, "
        "sum of two variables, Dict.update(), Dict.lookup()), complete read-out by the program itself at the end and sometimes in the middle, "
        "compared with the shadow store; histories: 2..4 main programs built one after another in one process from shared classes (1..3 SubProgram "
        "classes, a pool of Structure classes, optionally a common base class with locals and Dicts, sometimes a second instance of a main class "
        "with other subprograms; one frame clearly larger, at any place of the history), after every step every program built so far is looked at "
        "again (disjointness; nothing moved); exec histories: 2..3 exec programs over the same Structure classes, all declared first, then loaded and "
        "run in some order, one of them twice; non-trivial = at least two declarations")

FMT_SIZE = {"B": 1, "b": 1, "H": 2, "h": 2, "I": 4, "i": 4, "Q": 8, "q": 8, "x": 8}


def make_structure(rng, name):
    from ebpfcat.ebpf import Structure, Member
    ns, off = {}, 0
    for k in range(rng.randrange(1, 5)):
        f = rng.choice("BHIQbhiq")
        s = FMT_SIZE[f]
        if off % s:
            f, s = "B", 1
        ns[f"m{k}"] = Member(f)
        off += s
    return type(name, (Structure,), ns)


def gen_layout(rng):
    """returns a JSON-able description: bases = list of decl lists (MRO from root to leaf)"""
    levels = []
    pool = [rng.randrange(1 << 30) for _ in range(rng.choice([1, 2, 3]))]     # Structure classes several Dicts (or key and value) share

    def struct_id():
        return rng.choice(pool) if rng.random() < 0.5 else rng.randrange(1 << 30)
    for _ in range(rng.randrange(1, 4)):
        ds = []
        for _ in range(rng.randrange(0, 6)):
            if rng.random() < 0.75:
                ds.append(["loc", rng.choice("BHIQbhiqx")])
            else:
                ds.append(["dict", struct_id(), struct_id()])
        levels.append(ds)
    subs = []
    for _ in range(rng.choice([0, 0, 1, 2, 3])):
        subs.append([rng.choice("BHIQbhiq") for _ in range(rng.randrange(1, 4))])
    return {"levels": levels, "subs": subs, "same_class": rng.random() < 0.4, "temps": [rng.choice([4, 8]) for _ in range(rng.randrange(0, 4))]}


def build(desc):
    import random
    from ebpfcat.ebpf import EBPF, LocalVar, SubProgram
    from ebpfcat.hashmap import Dict
    base = EBPF
    structs = {}    # one Structure class per id: the same id is the same class, whichever Dict (or side) uses it
    names = []      # (level, name, kind)
    for li, ds in enumerate(desc["levels"]):
        ns = {}
        for k, d in enumerate(ds):
            nm = f"v{li}_{k}"
            if d[0] == "loc":
                ns[nm] = LocalVar(d[1])
            else:
                for sid in d[1:3]:
                    if sid not in structs:
                        structs[sid] = make_structure(random.Random(sid), f"S{len(structs)}")
                ns[nm] = Dict(structs[d[1]], structs[d[2]])
            names.append((li, nm, d[0]))
        base = type(f"L{li}", (base,), ns)
    subclasses = []
    for si, fmts in enumerate(desc["subs"]):
        if desc["same_class"] and subclasses:
            subclasses.append(subclasses[0])
        else:
            subclasses.append(type(f"S{si}", (SubProgram,), {f"s{k}": LocalVar(f) for k, f in enumerate(fmts)}))
    subs = [c() for c in subclasses]
    with fsim.fake_maps():
        e = base(subprograms=subs)
    return base, e, names, subs


def observe(desc):
    """slots the real descriptors compute: (addr, size, owner) + temps + final stack"""
    return observe_built(desc, *build(desc))


def observe_built(desc, cls, e, names, subs):
    """the same on a program that exists already (it may have been built a while ago, other programs after it)"""
    slots, decls = [], []
    members, vdecls = [], []       # variables proper: locals and every member of every Dict's key / value
    for li, nm, kind in names:
        d = None
        for c in cls.__mro__:
            if nm in c.__dict__:
                d = c.__dict__[nm]
                break
        if kind == "loc":
            slots.append([d.relative_addr, FMT_SIZE[d.fmt], nm])
            decls.append(["loc", FMT_SIZE[d.fmt]])
            members.append(slots[-1])
            vdecls.append(decls[-1])
        else:
            # where the generated code goes: `e.<dict>.key.<member>` is at r10 + key.addr_offset + relative_addr
            the = getattr(e, nm)
            slots.append([the.key.addr_offset, d.Key.stack, nm + ".key"])
            slots.append([the.value.addr_offset, d.Value.stack, nm + ".value"])
            decls.append(["dict", d.Key.stack, d.Value.stack])
            ms = []
            for side, st in (("key", the.key), ("value", the.value)):
                one = []
                for mn, mv in type(st).__dict__.items():
                    if hasattr(mv, "relative_addr"):
                        fmt, addr = mv.fmt_addr(st)
                        one.append([addr, FMT_SIZE[fmt], f"{nm}.{side}.{mn}"])
                ms.append(one)
            members.extend(ms[0] + ms[1])
            vdecls.append(["dict", [m[1] for m in ms[0]], [m[1] for m in ms[1]]])
    subslots = []
    for si, s in enumerate(subs):
        for k, v in type(s).__dict__.items():
            if hasattr(v, "relative_addr"):
                fmt, addr = v.fmt_addr(s)
                subslots.append([addr, FMT_SIZE[fmt], f"sub{si}.{k}", v.relative_addr])
    temps = []
    ctxs = []
    for n in desc["temps"]:
        c = e.get_stack(n)
        temps.append([c.__enter__(), n])
        ctxs.append(c)
    for c in reversed(ctxs):
        c.__exit__(None, None, None)
    return {"slots": slots, "decls": decls, "final": cls.stack, "temps": temps, "subslots": subslots,
            "members": members, "vdecls": vdecls}


def overlap(a, b):
    return a[0] < b[0] + b[1] and b[0] < a[0] + a[1]


def shadow_run(ctx, rng, desc):
    """main program with locals and array-map variables: assign all, read all back"""
    from ebpfcat.ebpf import EBPF, LocalVar
    from ebpfcat.arraymap import ArrayMap
    fmts = [d[1] for ds in desc["levels"] for d in ds if d[0] == "loc" and d[1] != "x"][:8]
    mfmts = [rng.choice("BHIQbhiq") for _ in range(rng.randrange(0, 4))]
    if len(fmts) + len(mfmts) < 2:
        return
    vals = {}
    order = [f"l{k}" for k in range(len(fmts))] + [f"g{k}" for k in range(len(mfmts))]
    rng.shuffle(order)

    def wrapv(f, v):
        n = FMT_SIZE[f]
        v %= 1 << (8 * n)
        return v - (1 << (8 * n)) if f.islower() and v >> (8 * n - 1) else v
    allf = {f"l{k}": f for k, f in enumerate(fmts)} | {f"g{k}": f for k, f in enumerate(mfmts)}
    for nm in order:
        vals[nm] = wrapv(allf[nm], rng.getrandbits(64) | 1)

    def program(self):
        for nm in order:
            setattr(self, nm, vals[nm])
        self.r0 = 0
        self.exit()
    m = ArrayMap()
    ns = {"program": program, "m": m}
    for k, f in enumerate(fmts):
        ns[f"l{k}"] = LocalVar(f)
    for k, f in enumerate(mfmts):
        ns[f"g{k}"] = m.globalVar(f)
    cls = type("P", (EBPF,), ns)
    with fsim.fake_maps() as created:
        e = cls()
        e.assemble()
    regions, helpers = [], {}
    if created:
        mp = interp.ArrayMapModel(created[0][0], created[0][1][2])
        regions, helpers = [mp.value], interp.std_helpers({created[0][0]: mp})
    mach = interp.Machine(e.opcodes, regions, helpers)
    mach.wr(1, 0)
    case = {"op": "shadow", "locals": fmts, "mapvars": mfmts, "order": order, "values": vals}
    try:
        mach.run()
    except interp.Fault as ex:
        ctx.require(False, "generated program faults", case, str(ex), "fault")
        return
    bad = []
    for nm in order:
        f = allf[nm]
        if nm[0] == "l":
            a = interp.STACK_TOP + cls.__dict__[nm].relative_addr
            raw = mach.load(a, FMT_SIZE[f])
        else:
            raw = int.from_bytes(mp.value.data[e.__dict__[nm]:e.__dict__[nm] + FMT_SIZE[f]], "little")
        if wrapv(f, raw) != vals[nm]:
            bad.append((nm, wrapv(f, raw), vals[nm]))
    ctx.case(case, nontrivial=True, kind="shadow")
    ctx.require(not bad, "a variable changed when another one was written", case, str(bad[:3]), None)


# ---- execution: real programs over locals, Dict members, array-map and hash-map variables -----------------------
# A case is self-contained: declarations (Structure classes by number, so that several Dicts - or the key and the
# value of one - use the same class), statements, and the points at which everything is read out.

def packed_members(rng):
    """member formats of a Structure the real Member accepts (every offset a multiple of the size)"""
    out, off = [], 0
    for _ in range(rng.randrange(1, 4)):
        f = rng.choice("BHIQbhiq")
        if off % FMT_SIZE[f]:
            f = rng.choice("Bb")
        out.append(f)
        off += FMT_SIZE[f]
    return out


def maxv(fmt):
    """values stay positive and inside every format involved (truncation and sign belong to C01)"""
    return (1 << (min(8 * FMT_SIZE[fmt], 32) - 1)) - 1


def exec_vars(case):
    """[(name, fmt, kind)] of all declared variables, in declaration order: locals and Dict members, then map variables"""
    stack, cells = [], []
    for li, ds in enumerate(case["levels"]):
        for k, d in enumerate(ds):
            nm = f"v{li}_{k}"
            if d[0] == "loc":
                stack.append((nm, d[1], "loc"))
            elif d[0] == "dict":
                for side, sid in (("key", d[1]), ("value", d[2])):
                    for j, f in enumerate(case["structs"][sid]):
                        stack.append((f"{nm}.{side}.m{j}", f, "member"))
            else:
                cells.append((nm, d[1], d[0]))
    return stack + cells


def gen_exec(rng, structs=None):
    ns = rng.choice([1, 1, 2, 3]) if structs is None else len(structs)
    case = {"op": "exec", "structs": [packed_members(rng) for _ in range(ns)] if structs is None else structs, "levels": []}
    nl = rng.choice([1, 1, 2])
    for li in range(nl):
        ds = []
        for _ in range(rng.randrange(1, 5)):
            r = rng.random()
            if r < 0.35:
                ds.append(["loc", rng.choice("BHIQbhiq")])
            elif r < 0.7:
                ds.append(["dict", rng.randrange(ns), rng.randrange(ns)])
            elif li == nl - 1:      # map variables in the leaf class (a HashMap of a base class cannot be loaded: C09 finding)
                ds.append([rng.choice(["amap", "hvar"]), rng.choice("BHIQbhiq")])
        case["levels"].append(ds)
    vs = exec_vars(case)
    if len(vs) < 2:
        case["levels"][-1] += [["loc", "I"], ["dict", 0, 0]]
        vs = exec_vars(case)
    dicts = [f"v{li}_{k}" for li, ds in enumerate(case["levels"]) for k, d in enumerate(ds) if d[0] == "dict"]
    shadow = {}
    stmts = []
    order = list(range(len(vs)))
    rng.shuffle(order)
    for t in order:                                   # every variable gets a value of its own first
        shadow[t] = rng.randint(1, maxv(vs[t][1]))
        stmts.append(["const", t, shadow[t]])
    case["reads"] = [len(stmts)] if rng.random() < 0.3 else []
    for _ in range(rng.randrange(2, 12)):
        t = rng.randrange(len(vs))
        kind = rng.choice(["const", "copy", "copy", "sum", "sum", "call"])
        if kind == "call" and dicts:
            stmts.append([rng.choice(["update", "lookup"]), rng.choice(dicts)])
            continue
        st = None
        for _ in range(6):
            a, b = rng.randrange(len(vs)), rng.randrange(len(vs))
            if kind == "copy":
                add = rng.choice([0, 0, 1, 2])
                if a != t and shadow[a] + add <= maxv(vs[t][1]):
                    st, val = ["copy", t, a, add], shadow[a] + add
                    break
            elif kind == "sum" and shadow[a] + shadow[b] <= maxv(vs[t][1]):
                st, val = ["sum", t, a, b], shadow[a] + shadow[b]
                break
        if st is None:
            val = rng.randint(1, maxv(vs[t][1]))
            st = ["const", t, val]
        shadow[t] = val
        stmts.append(st)
    case["stmts"] = stmts
    case["reads"].append(len(stmts))
    return case


def expected_exec(case):
    """the shadow store, from the statements alone: {read point: [value of every variable]}"""
    vs = exec_vars(case)
    shadow = [None] * len(vs)
    out = {}
    for n, st in enumerate(case["stmts"] + [None]):
        if n in case["reads"]:
            out[n] = list(shadow)
        if st is None:
            break
        if st[0] == "const":
            shadow[st[1]] = st[2]
        elif st[0] == "copy":
            shadow[st[1]] = shadow[st[2]] + st[3]
        elif st[0] == "sum":
            shadow[st[1]] = shadow[st[2]] + shadow[st[3]]
    return out


def build_structs(case):
    from ebpfcat.ebpf import Structure, Member
    return [type(f"S{i}", (Structure,), {f"m{j}": Member(f) for j, f in enumerate(fs)}) for i, fs in enumerate(case["structs"])]


def build_exec(case, structs=None):
    from ebpfcat.ebpf import EBPF, LocalVar
    from ebpfcat.arraymap import ArrayMap
    from ebpfcat.hashmap import HashMap, Dict
    if structs is None:
        structs = build_structs(case)
    vs = exec_vars(case)
    am, hm = ArrayMap(), HashMap()

    def ref(e, i):
        nm = vs[i][0].split(".")
        return (e, nm[0]) if len(nm) == 1 else (getattr(getattr(e, nm[0]), nm[1]), nm[2])

    def get(e, i):
        o, a = ref(e, i)
        return getattr(o, a)

    def put(e, i, value):
        o, a = ref(e, i)
        if vs[i][2] == "hvar" and isinstance(value, int):     # hash-map variables take no Python constants: through a register
            e.r5 = value
            value = e.r5
        setattr(o, a, value)

    def program(e):
        for n, st in enumerate(case["stmts"] + [None]):
            if n in case["reads"]:
                for i in range(len(vs)):
                    setattr(e, f"o{n}_{i}", get(e, i))
            if st is None:
                break
            if st[0] == "const":
                put(e, st[1], st[2])
            elif st[0] == "copy":
                put(e, st[1], get(e, st[2]) + st[3] if st[3] else get(e, st[2]))
            elif st[0] == "sum":
                put(e, st[1], get(e, st[2]) + get(e, st[3]))
            elif st[0] == "update":
                getattr(e, st[1]).update()
            elif st[0] == "lookup":
                with getattr(e, st[1]).lookup() as (val, Else):
                    pass
        e.r0 = 2
        e.exit()
    base = EBPF
    for li, ds in enumerate(case["levels"]):
        ns = {}
        if li == len(case["levels"]) - 1:
            ns.update(am=am, program=program)
            if any(kind == "hvar" for nm, f, kind in vs):      # (a HashMap without variables cannot be created)
                ns["hm"] = hm
            for n in case["reads"]:
                for i in range(len(vs)):
                    ns[f"o{n}_{i}"] = am.globalVar("q")
        for k, d in enumerate(ds):
            nm = f"v{li}_{k}"
            ns[nm] = LocalVar(d[1]) if d[0] == "loc" else Dict(structs[d[1]], structs[d[2]], size=4) if d[0] == "dict" \
                else am.globalVar(d[1]) if d[0] == "amap" else hm.globalVar(d[1])
        base = type(f"L{li}", (base,), ns)
    return base


def run_exec(case):
    """the real generated program, loaded into the emulated kernel and executed once; what was read out"""
    from . import c10
    from ebpfcat.bpf import ProgType
    from ebpfcat.ebpf import AssembleError
    K = c10.EmuKernel(4)
    nv = len(exec_vars(case))
    try:
        with c10.emulated(K):
            e = build_exec(case)(ProgType.XDP, "GPL")
            e.load()
            r0, _ = K.run_prog(e.file_descriptor)
            if isinstance(r0, str):
                return {"fault": r0}
            got = {n: [getattr(e, f"o{n}_{i}") for i in range(nv)] for n in case["reads"]}
    except AssembleError as ex:
        return {"asm": str(ex)}
    except Exception as ex:
        return {"error": f"{type(ex).__name__}: {ex}"}
    return {"got": {str(n): v for n, v in got.items()}, "final": got[len(case["stmts"])]}


def gen_exechist(rng):
    """2..3 exec programs of one process over the same Structure classes; they are all declared first, then loaded and run
    in some order, one of them a second time (a fresh object of the same class)"""
    structs = [packed_members(rng) for _ in range(rng.choice([1, 1, 2, 3]))]
    progs = [gen_exec(rng, structs) for _ in range(rng.choice([2, 2, 3]))]
    order = list(range(len(progs))) + [rng.randrange(len(progs))]
    rng.shuffle(order)
    return {"op": "exechist", "structs": structs, "progs": progs, "order": order}


def run_exechist(case):
    """[(program number, result of run_exec's kind)] in the order of the runs"""
    from . import c10
    from ebpfcat.bpf import ProgType
    from ebpfcat.ebpf import AssembleError
    K = c10.EmuKernel(4)
    out = []
    try:
        with c10.emulated(K):
            structs = build_structs(case)
            classes = [build_exec(p, structs) for p in case["progs"]]
    except Exception as ex:
        return [(None, {"error": f"{type(ex).__name__}: {ex}"})]
    for j in case["order"]:
        p = case["progs"][j]
        nv = len(exec_vars(p))
        try:
            with c10.emulated(K):
                e = classes[j](ProgType.XDP, "GPL")
                e.load()
                r0, _ = K.run_prog(e.file_descriptor)
                if isinstance(r0, str):
                    out.append((j, {"fault": r0}))
                    continue
                got = {n: [getattr(e, f"o{n}_{i}") for i in range(nv)] for n in p["reads"]}
            out.append((j, {"got": {str(n): v for n, v in got.items()}, "final": got[len(p["stmts"])]}))
        except AssembleError as ex:
            out.append((j, {"asm": str(ex)}))
        except Exception as ex:
            out.append((j, {"error": f"{type(ex).__name__}: {ex}"}))
    return out


def judge_exechist(ctx, case, results, cases=None, impl=None):
    ctx.case(case, nontrivial=True, kind="exechist")
    for n, (j, res) in enumerate(results):
        if j is None:
            ctx.require(False, "the programs of the history could not be declared", case, res["error"], None)
            return
        judge_exec(ctx, case["progs"][j], res, whole=case, when=f" (run {n}: program {j})")
        if cases is not None and res.get("final") is not None:
            cases.append(model_exec(case["progs"][j]))
            impl.append(" ".join(str(v) for v in res["final"]))


def judge_exec(ctx, case, res, whole=None, when=""):
    """the property on the execution: at every read-out each variable holds what was last assigned to it"""
    vs = exec_vars(case)
    if "asm" in res:                  # the generator refuses the program (C05's concern): no execution to judge
        ctx.stats["exec:not-assembled"] += 1
        return
    if whole is None:
        ctx.case(case, nontrivial=True, kind="exec")
    ids = [x for ds in case["levels"] for d in ds if d[0] == "dict" for x in d[1:3]]
    if len(ids) != len(set(ids)):
        ctx.stats["exec:shared-structure-class"] += 1
    rep = whole or case       # what is stored as the replay: the whole history
    if not ctx.require("error" not in res and "fault" not in res, "the program could not be loaded / faults" + when, rep,
                       res.get("error") or res.get("fault"), None):
        return
    for n, want in sorted(expected_exec(case).items()):
        got = res["got"][str(n)]
        bad = [(vs[i][0], want[i], got[i]) for i in range(len(vs)) if want[i] is not None and got[i] != want[i]]
        if not ctx.require(not bad, f"a variable changed when another one was written (read-out after statement {n})" + when, rep,
                           "; ".join(f"{nm} should be {w}, is {g}" for nm, w, g in bad[:4]), None):
            return


def model_exec(case):
    """the case for the Lean model: sizes instead of formats, variable numbers as they are"""
    vs = exec_vars(case)
    decls = []
    for ds in case["levels"]:
        for d in ds:
            if d[0] == "loc":
                decls.append(["loc", FMT_SIZE[d[1]]])
            elif d[0] == "dict":
                decls.append(["dict", [FMT_SIZE[f] for f in case["structs"][d[1]]], [FMT_SIZE[f] for f in case["structs"][d[2]]]])
    cells = [[i, FMT_SIZE[f]] for i, (nm, f, kind) in enumerate(vs) if kind in ("amap", "hvar")]
    hv = {i for i, (nm, f, kind) in enumerate(vs) if kind == "hvar"}
    stmts = []
    for st in case["stmts"]:
        if st[0] in ("update", "lookup"):
            stmts.append({"t": -1, "rhs": ["const", 0], "temps": []})
        else:       # a 4-byte temporary (the key) for every hash-map variable touched
            used = [x for x in ([st[1]] + (st[2:3] if st[0] == "copy" else st[2:4] if st[0] == "sum" else [])) if x in hv]
            stmts.append({"t": st[1], "rhs": [st[0]] + st[2:], "temps": [4] * len(used)})
    return {"op": "exec", "start": 0, "decls": decls, "cells": cells, "stmts": stmts}


def judge_layout(ctx, desc, o, when=""):
    """property oracle on a layout: declared variables and temporaries pairwise disjoint"""
    main = o["slots"]
    for i in range(len(main)):
        for j in range(i):
            ctx.require(not overlap(main[i], main[j]), f"{main[i][2]} and {main[j][2]} share stack bytes" + when, desc, str(main), None)
    mem = o["members"]
    for i in range(len(mem)):
        for j in range(i):
            ctx.require(not overlap(mem[i], mem[j]), f"the variables {mem[i][2]} and {mem[j][2]} share stack bytes" + when, desc,
                        str((mem[i], mem[j])), None)
    live = []
    for t in o["temps"]:
        for s in main + mem + live:
            ctx.require(not overlap(t, s), "a get_stack temporary overlaps a live variable/temporary", desc, str((t, s)), None)
        live.append(t)
    ss = o["subslots"]
    for i in range(len(ss)):
        for j in range(i):
            if ss[i][2].split(".")[0] != ss[j][2].split(".")[0]:
                ctx.require(not overlap(ss[i], ss[j]), "locals of two subprogram instances share stack bytes", desc, str((ss[i], ss[j])),
                            "subprogram-locals")
        for s in main + mem:
            ctx.require(not overlap(ss[i], s), "a subprogram local overlaps a main-program variable" + when, desc, str((ss[i], s)), None)
        for t in o["temps"]:
            ctx.require(not overlap(ss[i], t), "a get_stack temporary overlaps a subprogram local", desc, str((ss[i], t)), "subprogram-locals")


# ---- histories: several main programs built one after another in one process, sharing classes ------------------
# What a program's variables are is fixed by its own declarations.  The classes a program is put together from
# (SubProgram classes, Structure classes, a base class with locals and Dicts, the main class itself for a second
# instance) are shared with other programs of the process, and their descriptors are where anything remembered from
# an earlier use would live.  So a case is a history: main programs are built in turn, and after every step ALL
# programs built so far are looked at again, through the same access paths the generated code takes.

def gen_decls(rng, struct_id, lo=0, hi=6):
    return [["loc", rng.choice("BHIQbhiqx")] if rng.random() < 0.75 else ["dict", struct_id(), struct_id()]
            for _ in range(rng.randrange(lo, hi))]


def gen_hist(rng):
    pool = [rng.randrange(1 << 30) for _ in range(rng.choice([1, 2, 3]))]

    def struct_id():
        return rng.choice(pool) if rng.random() < 0.6 else rng.randrange(1 << 30)
    case = {"op": "hist",
            "subclasses": [[rng.choice("BHIQbhiq") for _ in range(rng.randrange(1, 4))] for _ in range(rng.choice([1, 1, 2, 3]))],
            "base": gen_decls(rng, struct_id, 1, 4) if rng.random() < 0.5 else None, "mains": []}
    big = rng.randrange(4)          # frames of clearly different sizes, the large one at any place in the history
    for i in range(rng.choice([2, 2, 3, 4])):
        if i and rng.random() < 0.15:      # a second instance of a main class that exists already, other subprograms
            m = {"same_as": rng.randrange(i)}
        else:
            m = {"base": case["base"] is not None and rng.random() < 0.6,
                 "levels": [gen_decls(rng, struct_id, 0, 3 if i != big else 8) for _ in range(rng.choice([1, 1, 2]))]}
            if i == big:
                m["levels"][-1] += [["loc", "Q"]] * rng.choice([1, 2, 3])
        m["subs"] = [rng.randrange(len(case["subclasses"])) for _ in range(rng.choice([0, 1, 1, 2, 3]))]
        m["temps"] = [rng.choice([4, 8]) for _ in range(rng.randrange(0, 3))]
        case["mains"].append(m)
    return case


class World:
    """the classes the programs of one history share (each built once)"""

    def __init__(self, case):
        from ebpfcat.ebpf import EBPF, LocalVar, SubProgram
        self.case, self.structs, self.built = case, {}, []
        self.subclasses = [type(f"S{si}", (SubProgram,), {f"s{k}": LocalVar(f) for k, f in enumerate(fmts)})
                           for si, fmts in enumerate(case["subclasses"])]
        self.base, self.base_names = EBPF, []
        if case["base"] is not None:
            self.base, self.base_names = self.level(EBPF, "B", "vb", case["base"])

    def level(self, parent, cname, prefix, ds):
        import random
        from ebpfcat.ebpf import LocalVar
        from ebpfcat.hashmap import Dict
        ns, names = {}, []
        for k, d in enumerate(ds):
            nm = f"{prefix}_{k}"
            if d[0] == "loc":
                ns[nm] = LocalVar(d[1])
            else:
                for sid in d[1:3]:
                    if sid not in self.structs:
                        self.structs[sid] = make_structure(random.Random(sid), f"S{len(self.structs)}")
                ns[nm] = Dict(self.structs[d[1]], self.structs[d[2]])
            names.append((0, nm, d[0]))
        return type(cname, (parent,), ns), names

    def add(self, i):
        """build main program number i: its class (unless it is a second instance) and the object with fresh subprograms"""
        m = self.case["mains"][i]
        if "same_as" in m:
            cls, names = self.built[m["same_as"]][0], self.built[m["same_as"]][2]
        else:
            from ebpfcat.ebpf import EBPF
            cls, names = (self.base, list(self.base_names)) if m["base"] else (EBPF, [])
            for li, ds in enumerate(m["levels"]):
                cls, ns = self.level(cls, f"M{i}L{li}", f"v{i}x{li}", ds)
                names = names + ns
        subs = [self.subclasses[k]() for k in m["subs"]]
        with fsim.fake_maps():
            e = cls(subprograms=subs)
        self.built.append((cls, e, names, subs))

    def look(self, i):
        return observe_built({"temps": self.case["mains"][i]["temps"]}, *self.built[i])


def hist_steps(case):
    """the real code: [(step, main looked at, observation)] - after every step every program built so far"""
    w = World(case)
    out = []
    for t in range(len(case["mains"])):
        w.add(t)
        for i in range(t + 1):
            out.append((t, i, w.look(i)))
    return out


def model_cases(o):
    """what the Lean model is asked about one observation, with the implementation's answers"""
    cases = [{"op": "alloc", "start": 0, "decls": o["decls"]}, {"op": "vars", "start": 0, "decls": o["vdecls"]}]
    impl = [" ".join(f"{a}:{n}" for a, n, _ in o["slots"]) + f" | {o['final']}",
            " ".join(f"{a}:{n}" for a, n, _ in o["members"]) + f" | {o['final']}"]
    if o["temps"]:
        cases.append({"op": "temps", "stack": o["final"], "sizes": [n for _, n in o["temps"]]})
        impl.append(" ".join(str(a) for a, _ in o["temps"]))
    for a, n, nm, rel in o["subslots"][:3]:
        cases.append({"op": "sub", "stack": o["final"], "rel": rel})
        impl.append(str(a))
    return cases, impl


def run_hist(ctx, case, cases, impl):
    try:
        steps = hist_steps(case)
    except Exception as ex:
        ctx.require(False, f"a program of the history could not be built: {type(ex).__name__}: {ex}", case, None, "build")
        return
    ctx.case(case, nontrivial=True, kind="hist")
    if any("same_as" in m for m in case["mains"]):
        ctx.stats["hist:second-instance-of-a-class"] += 1
    first = {}
    for t, i, o in steps:
        judge_layout(ctx, case, o, f" (program {i} after program {t} was built)")
        # a program's variables are where they were when it was built: nothing built later moves them
        key = [o["slots"], o["members"], o["subslots"], o["temps"], o["final"]]
        if i in first:
            ctx.require(key == first[i], f"the variables of program {i} moved when program {t} was built", case, str((first[i], key)), None)
        else:
            first[i] = key
        if cases is not None:
            c, m = model_cases(o)
            cases.extend(c)
            impl.extend(m)
    return steps


def run(ctx):
    rng = ctx.rng
    cases, impl = [], []
    for _ in range(ctx.n(400, 20000)):
        desc = gen_layout(rng)
        try:
            o = observe(desc)
        except Exception as ex:
            ctx.require(False, f"layout could not be built: {type(ex).__name__}: {ex}", desc, None, "build")
            continue
        ctx.case(desc, nontrivial=len(o["slots"]) >= 2, kind=f"subs{len(desc['subs'])}")
        ids = [x for ds in desc["levels"] for d in ds if d[0] == "dict" for x in d[1:3]]
        if len(ids) != len(set(ids)):
            ctx.stats["shared-structure-class"] += 1
        judge_layout(ctx, desc, o)
        # correspondence
        main, ss = o["slots"], o["subslots"]
        cases.append({"op": "alloc", "start": 0, "decls": o["decls"]})
        impl.append(" ".join(f"{a}:{n}" for a, n, _ in main) + f" | {o['final']}")
        cases.append({"op": "vars", "start": 0, "decls": o["vdecls"]})
        impl.append(" ".join(f"{a}:{n}" for a, n, _ in o["members"]) + f" | {o['final']}")
        if o["temps"]:
            cases.append({"op": "temps", "stack": o["final"], "sizes": [n for _, n in o["temps"]]})
            impl.append(" ".join(str(a) for a, _ in o["temps"]))
        for a, n, nm, rel in ss[:3]:
            cases.append({"op": "sub", "stack": o["final"], "rel": rel})
            impl.append(str(a))
    for _ in range(ctx.n(150, 5000)):
        shadow_run(ctx, rng, gen_layout(rng))
    for _ in range(ctx.n(250, 8000)):
        case = gen_exec(rng)
        res = run_exec(case)
        judge_exec(ctx, case, res)
        if res.get("final") is not None:
            cases.append(model_exec(case))
            impl.append(" ".join(str(v) for v in res["final"]))
    for _ in range(ctx.n(250, 6000)):
        run_hist(ctx, gen_hist(rng), cases, impl)
    for _ in range(ctx.n(60, 1500)):
        case = gen_exechist(rng)
        judge_exechist(ctx, case, run_exechist(case), cases, impl)
    model = ctx.drive(DRIVER, cases, "stack layout")
    if model is not None:
        for c, i, m in zip(cases, impl, model):
            ctx.agree(f"stack layout {c['op']}", c, i, m)


KNOWN_CLASSES = ("subprogram-locals",)


class _Collect:
    """stands in for ctx during a replay"""

    def __init__(self, ctx):
        import collections
        self.failures, self.stats, self.ctx = [], collections.Counter(), ctx

    def case(self, *a, **k):
        pass

    def require(self, cond, what, case, observed=None, cls=None):
        if not cond:
            self.failures.append((cls, what, case, observed))
        return cond


def replay(ctx, case):
    """re-run one stored case.  A case may also contain a constellation of the known finding (two subprogram instances):
    what is reported is what the case was stored for - the failures outside the known classes; for a single layout, if
    there are none, the known-class failures (this is how the stored witness of the known finding is replayed)"""
    col = _Collect(ctx)
    res = _replay(col, case)
    new = [f for f in col.failures if f[0] not in KNOWN_CLASSES]
    if case.get("op") in ("hist", "exechist"):      # never the stored witness of a known finding
        col.failures = new
    for cls, what, c, observed in new or col.failures:
        ctx.require(False, what, c, observed, cls)
    return res


def _replay(ctx, case):
    if case.get("op") == "shadow":
        return {"note": "shadow runs are regenerated from the seed; see the layout cases"}
    if case.get("op") == "exec":
        res = run_exec(case)
        judge_exec(ctx, case, res)
        return res
    if case.get("op") == "hist":
        steps = run_hist(ctx, case, None, None)
        return {"observations": [[t, i, o] for t, i, o in steps or []]}
    if case.get("op") == "exechist":
        results = run_exechist(case)
        judge_exechist(ctx, case, results)
        return {"runs": results}
    o = observe(case)
    judge_layout(ctx, case, o)
    return o


LEVEL_TEXT = ("Lean 4 proofs over the stack-layout model, for every declaration list: variables and Dict key/value images are pairwise disjoint, below the "
              "start and aligned; get_stack temporaries lie strictly below every declared variable and nested temporaries are disjoint; every two variables proper - locals and "
              "the members of any Dict's key or value, also when Dicts share a Structure class - have bytes of their own (varSlots_disjoint), and for every "
              "statement list (constants, copies, sums, calls; any temporaries) every variable ends with the value of the shadow store: a statement changes its "
              "target only (exec_shadow, noninterference; induction over the statement list). The subprogram "
              "rule is refuted (two subprogram instances' first locals share a slot; a main-program temporary overlaps a subprogram local) and recorded "
              "as a known finding. For any number of main programs sharing subprogram classes (World), the locals of a main program's subprogram instances "
              "lie below all of that main program's variables, whatever other programs exist (sub_below_main, world_sub_disjoint, world_sub_local): "
              "the address rule refers to the instance's own main program only. Tie: exact correspondence of the offsets computed by the real LocalVar/Dict/Member descriptors, get_stack and "
              "fmt_addr for random class hierarchies (addresses taken on the instance's access path, per member); plus shadow-store runs of real generated "
              "programs and exec runs (real programs over locals, Dict members, array-map and hash-map variables in the emulated kernel, final values "
              "compared with the model's execAll and judged against the shadow store); all of it also on histories of several programs built from "
              "shared classes in one process, every program re-examined after each later one.")
LEVEL_NOTE = ("trusted: Lean kernel + standard axioms; layout model validated by correspondence; store footprint of emitted assignments is C01's frame "
              "condition (exercised here only by execution); hash-map variables → C09; array-map layout → C08")
TECHNIQUE = "Lean 4 induction over declaration lists (disjointness invariant) + exact layout correspondence + shadow-store execution"
DESIGN_REF = "§4 C04"
