"""C17 — EEPROM contents and derived layouts are decoded exactly.

The real `Terminal._eeprom_read_one`, `read_eeprom`, `parse_sync_managers`, `parse_pdos`
(EEPROM and SDO sources) and `EBPFTerminal.apply_eeprom` run in-process against a scripted
EEPROM-interface device (register 0x502.. served through the real `EtherCat.roundtrip` codec),
are judged by an oracle computed from the structure the image / table was generated from, and
are compared line by line with the Lean model `Ebv.Eeprom` (Drivers/C17.lean).

Round 6: histories (`op: hist`).  1..3 real Terminal / EBPFTerminal objects on one bus object stay alive for a whole
case; their EEPROMs change under them (words rewritten by the real `eeprom_write_one` through the register protocol,
the device behind the address exchanged for one with another image / read size / busy profile / object dictionary),
a read is cut after n bus accesses (error or cancellation), and they read again through `read_eeprom`,
`initialize` -> `apply_eeprom` of their class, or `gentle_initialize`, and derive `parse_sync_managers` / `parse_pdos`
again — interleaved over the terminals.  After every step the oracle compares what the terminal holds with the
structure the device holds NOW (declared by the generator for every write and exchange); the Lean model
`Ebv.Eeprom.runObs` (Ebv/Model/EepromHist.lean) is compared step by step."""
import asyncio
import logging
import struct

ID = "C17"
LEAN_MODULES = ["Ebv.Props.C17", "Ebv.Props.C17Hist"]
MODEL_MODULES = ["Ebv.Model.Eeprom", "Ebv.Model.EepromHist"]
DRIVER = "Drivers/C17.lean"
THEOREMS = [
    "Ebv.C17.read_one_exact", "Ebv.C17.getData_spec", "Ebv.C17.read_identity_exact",
    "Ebv.C17.read_eeprom_exact", "Ebv.C17.read_eeprom_lookup", "Ebv.C17.read_eeprom_total",
    "Ebv.C17.sm_exact", "Ebv.C17.pdo_exact", "Ebv.C17.pdo_rejects", "Ebv.C17.aligned_iff",
    "Ebv.C17.pdo_eeprom_source_exact", "Ebv.C17.pdo_sdo_source_exact",
    "Ebv.C17.parse_pdos_eeprom_exact", "Ebv.C17.parse_pdos_sdo_exact",
    "Ebv.C17.apply_eeprom_exact", "Ebv.C17.dictGet_dictOfFrom",
    # histories on living terminals (round 6)
    "Ebv.C17.read_bus_indep", "Ebv.C17.write_one_exact", "Ebv.C17.runW_slot", "Ebv.C17.instances_independent",
    "Ebv.C17.hist_device_exact", "Ebv.C17.hist_read_present", "Ebv.C17.hist_read_wellformed",
    "Ebv.C17.write_seen_by_next_read", "Ebv.C17.swap_seen_by_next_read", "Ebv.C17.failed_read_then_read",
    "Ebv.C17.hist_derive_present", "Ebv.C17.hist_apply_present", "Ebv.C17.catTrace_spec", "Ebv.C17.runObs_get",
]
TRUSTED = ["hand-written model Ebv.Eeprom of _eeprom_read_one/read_eeprom/parse_sync_managers/parse_pdos/"
           "EBPFTerminal.apply_eeprom, tied by exact output + bus-trace correspondence",
           "harness/vh/props/c17.py scripted EEPROM-interface device (the Python twin of Ebv.Eeprom.Dev/Poll); "
           "EEPROM word addresses of the identity fields and SyncManager values regenerated into Ebv.Generated.Consts",
           "histories: hand-written model Ebv.Eeprom.act/runW (EepromHist.lean) of what a Terminal keeps between uses, of "
           "eeprom_write_one and of a read cut after n accesses, tied by exact per-step correspondence; HDevice (write "
           "command stores the word when it is issued, registers 4/0x130/0x800 for the initialisation paths)"]
ASSUMPTIONS = ["the EEPROM interface behaves like the device model: status 0x502 bit 0x8000 = busy, bit 0x40 = 8 valid data "
               "bytes, data register shows the bytes at 2*address once not busy and anything while busy (and anything in "
               "bytes 4..7 in 4-byte mode); bytes beyond the end of the image read 0xff",
               "ec.roundtrip is the only way the anchored methods touch the bus; sdo_read is replaced by an object-dictionary "
               "lookup (SDO transfer itself is C16); parse_sdos is stubbed in the apply_eeprom runs",
               "well-formed SII image: 0x80 fixed bytes, categories (type != 0xffff, 16-bit word count, payload of that many "
               "words), 0xffff marker; PDO tables are `Aligned` (byte entries have size 8/16/32/64 and start on a byte)",
               "histories: the EEPROM stores a word when the write command 0x201 is issued (cells beyond the image do not exist), "
               "error bits 0x7f00 of the status after it follow the script; a cut read = the bus stops answering accesses to 0x502 "
               "after n of them (error raised by roundtrip, or the caller cancelled); exchanging a device replaces image, read size, "
               "object dictionary and address register at once; concurrent EEPROM operations on one terminal are not considered "
               "(the register interface has no lock in the code)"]
RULE = ("read_one: random image x word address x 4/8-byte mode x busy script (random busy runs, status bits, junk data); "
        "eeprom: 0x80 random fixed bytes + 0..8 categories (typical and random 16-bit types, rarely duplicated, 0..20 words "
        "odd and even, sometimes up to 300) + marker + random tail, malformed variants (no marker, truncated); "
        "sm: 0..6 records of kinds 0x20/22/24/26 in random order, repeated, unknown kinds, truncated tables; "
        "pdos: PDO records for categories 50/51 or object dictionaries for 0x1c12/0x1c13 with bit, byte and padding "
        "entries, mostly aligned, some misaligned / odd sizes / truncated / missing objects; apply: whole images with "
        "categories 41, 50, 51 run through EBPFTerminal.apply_eeprom; non-trivial = at least one category / record / "
        "mapped entry; hist: 1..3 living Terminal/EBPFTerminal objects x 2..5 episodes of (1..3 words rewritten by "
        "eeprom_write_one: identity, payload, sync-manager field, PDO entry index/size, category type, early end marker, "
        "tail, beyond the image | device exchanged for a new or closely related one with other read size | read cut after "
        "n accesses by error or cancellation) -> read_eeprom / initialize / apply_eeprom / gentle_initialize -> "
        "parse_sync_managers, parse_pdos, other terminals in between; non-trivial = several terminals or a change")


# ---------------------------------------------------------------- the scripted device

class Blocked(Exception):
    pass


class Device:
    """EEPROM interface of one terminal, Python twin of Ebv.Eeprom.Dev / Poll / Bus"""
    def __init__(self, image, mode8, script):
        self.image = image
        self.mode8 = mode8
        self.script = [(b, e, bytes.fromhex(j)) for b, e, j in script]
        self.addr = 0
        self.log = []
        self.writes = []        # every other register write: (offset, bytes)

    def window(self, off, n):
        return bytes(self.image[i] if i < len(self.image) else 0xff for i in range(off, off + n))

    def handle(self, cmd, data, pos, offset):
        from ebpfcat.ethercat import ECCmd
        if cmd is ECCmd.FPRD and offset == 0x502:
            busy, extra, junk = self.script.pop(0) if self.script else (False, 0, b"")
            status = (extra & 0x7fbf) | (0x8000 if busy else 0) | (0x40 if self.mode8 else 0)
            junk8 = (junk + bytes(8))[:8]
            if busy:
                dreg = junk8
            elif self.mode8:
                dreg = self.window(2 * self.addr, 8)
            else:
                dreg = self.window(2 * self.addr, 4) + junk8[4:]
            regs = struct.pack("<HI", status, self.addr & 0xffffffff) + dreg
            assert len(data) in (2, 10, 14), len(data)
            self.log.append("p" if len(data) == 2 else f"p{len(data) - 6}")
            return regs[:len(data)]
        if cmd is ECCmd.FPWR and offset == 0x502:
            ctl, a = struct.unpack("<HI", data)
            assert ctl == 0x100, ctl
            self.addr = a
            self.log.append(f"w{a}")
            return data
        if cmd is ECCmd.FPWR:
            self.writes.append((offset, bytes(data)))
            return data
        raise AssertionError(f"unexpected bus access {cmd} {offset:x}")

    def show(self):
        return " ".join(self.log) + f" | rest={len(self.script)}"


def make_terminal(dev, cls=None):
    """a real Terminal on a bus whose `roundtrip` is the real EtherCat.roundtrip codec,
    answered synchronously by the device"""
    from ebpfcat.ethercat import EtherCat, Terminal

    class Queue:
        def put_nowait(self, item):
            cmd, out, idx, pos, offset, future = item
            future.set_result(dev.handle(cmd, out, pos, offset))

    class EC:
        roundtrip = EtherCat.roundtrip

        def __init__(self):
            self.send_queue = Queue()

    t = (cls or Terminal)(EC())
    t.position = 7
    return t


def exc_name(e):
    from ebpfcat.ethercat import EtherCatError
    for t, n in ((struct.error, "struct-error"), (EtherCatError, "ethercat-error"), (KeyError, "key-error"),
                 (RuntimeError, "runtime-error"), (AttributeError, "attribute-error"),
                 (AssertionError, "assertion-error")):
        if isinstance(e, t):
            return n
    return "other:" + type(e).__name__


# ---------------------------------------------------------------- canonical output

def show_cats(d):
    return "{" + ",".join(f"{k}:{bytes(v).hex()}" for k, v in sorted(d.items())) + "}"


def show_res(t):
    return f"id={t.vendorId},{t.productCode},{t.revisionNo},{t.serialNo} | " + show_cats(t.eeprom)


def show_area(off, sz):
    return "-" if off is None else f"{off}+{sz}"


def sm_snapshot(t):
    return (t.mbx_out_off, t.mbx_out_sz, t.mbx_in_off, t.mbx_in_sz, t.pdo_out_off, t.pdo_out_sz,
            t.pdo_in_off, t.pdo_in_sz, t.pdo_in_addr, t.pdo_out_addr)


def show_sm(ok, s):
    return (f"{ok} mo={show_area(s[0], s[1])} mi={show_area(s[2], s[3])} po={show_area(s[4], s[5])} "
            f"pi={show_area(s[6], s[7])} ia={s[8]} oa={s[9]}")


def show_pdos(p):
    def smv(x):
        return x.value if hasattr(x, "value") else x
    return "{" + ",".join(f"{i}.{s}:{smv(v[0])}/{v[1]}/{v[2]}" for (i, s), v in sorted(p.items())) + "}"


# ---------------------------------------------------------------- running the real code

def dev_of(case):
    return Device(bytes.fromhex(case["image"]), case["mode8"], case["script"])


def run_read_one(case):
    dev = dev_of(case)
    t = make_terminal(dev)
    data = asyncio.run(t._eeprom_read_one(case["start"]))
    return {"data": bytes(data), "out": bytes(data).hex() + " | " + dev.show()}


def run_eeprom(case):
    dev = dev_of(case)
    t = make_terminal(dev)
    asyncio.run(t.read_eeprom())
    return {"t": t, "out": show_res(t) + " | " + dev.show()}


def run_sm(case):
    t = make_terminal(Device(b"", True, []))
    try:
        t.parse_sync_managers(bytes.fromhex(case["data"]))
        ok = "ok"
    except Exception as e:
        ok = exc_name(e)
    s = sm_snapshot(t)
    return {"ok": ok, "sm": s, "out": show_sm(ok, s)}


def od_reader(od):
    from ebpfcat.ethercat import EtherCatError
    table = {(i, s): bytes.fromhex(d) for i, s, d in od}

    async def sdo_read(index, subindex=None):
        try:
            return table[index, subindex]
        except KeyError:
            raise EtherCatError(f"no object {index:x}:{subindex}")
    return sdo_read


def run_pdos(case):
    t = make_terminal(Device(b"", True, []))
    t.eeprom = {k: bytes.fromhex(v) for k, v in case["eeprom"]}
    t.mbx_out_off, t.mbx_in_off = (0x1000, 0x1080) if case["mbx"] else (None, None)
    t.sdo_read = od_reader(case["od"])
    try:
        ret = asyncio.run(t.parse_pdos())
        res = f"ok {ret[0]} {ret[1]}"
    except Exception as e:
        ret, res = None, exc_name(e)
    return {"ret": ret, "res": res, "pdos": dict(t.pdos), "out": res + " | " + show_pdos(t.pdos)}


def run_apply(case):
    from ebpfcat.ebpfcat import EBPFTerminal
    dev = dev_of(case)
    t = make_terminal(dev, EBPFTerminal)
    t.sdo_read = od_reader(case["od"])
    snap = {}
    real_psm = t.parse_sync_managers

    def psm(data):       # observe the state right after the real parse (apply_eeprom overwrites the sizes later)
        try:
            real_psm(data)
            snap["ok"] = "ok"
        except Exception as e:
            snap["ok"] = exc_name(e)
            raise
        finally:
            snap["sm"] = sm_snapshot(t)
    t.parse_sync_managers = psm

    async def parse_sdos():
        pass
    t.parse_sdos = parse_sdos
    try:
        asyncio.run(t.apply_eeprom())
        res = f"ok {t.pdo_out_sz} {t.pdo_in_sz}"
    except Exception as e:
        res = exc_name(e)
    w800 = [d for o, d in dev.writes if o == 0x800]
    out = (show_res(t) + " | " + (show_sm(snap["ok"], snap["sm"]) if snap else "no-sm") + " | "
           + (w800[-1].hex() if w800 else "-") + " | " + res + " | " + show_pdos(getattr(t, "pdos", {}))
           + " | " + dev.show())
    return {"t": t, "res": res, "snap": snap, "writes": dev.writes, "out": out}


# ---------------------------------------------------------------- histories on living Terminal objects

class Cut(Exception):
    pass


class HDevice(Device):
    """the device behind one terminal address in a history: EEPROM interface with read AND write command,
    object dictionary, the few other registers the initialisation paths touch.  Python twin of
    Ebv.Eeprom.Slot (dev, od, addr) / writeLoop / the cut of doRead"""
    def __init__(self, image, mode8, od):
        Device.__init__(self, bytearray(image), mode8, [])
        self.od = {(i, s): bytes.fromhex(d) for i, s, d in od}
        self.regs800 = bytes(0x80)
        self.fmmus = 2
        self.begin([])

    def begin(self, script, budget=None, how="error", regs=None):
        self.script = [(b, e, bytes.fromhex(j)) for b, e, j in script]
        self.log, self.writes = [], []
        self.budget, self.how, self.count, self.cut_hit = budget, how, 0, False
        if regs is not None:
            self.regs800 = regs

    def handle(self, cmd, data, pos, offset):
        from ebpfcat.ethercat import ECCmd
        if offset == 0x502 and cmd in (ECCmd.FPRD, ECCmd.FPWR):
            if self.budget is not None and self.count >= self.budget:
                self.cut_hit = True
                self.log.append("X")
                raise Cut()
            self.count += 1
        if cmd is ECCmd.FPWR and offset == 0x502 and len(data) == 8:
            ctl, a, v = struct.unpack("<HIH", data)
            assert ctl == 0x201, ctl
            self.addr = a
            if 2 * a + 2 <= len(self.image):
                self.image[2 * a:2 * a + 2] = struct.pack("<H", v)
            self.log.append(f"W{a}:{v}")
            return data
        if cmd is ECCmd.FPWR and offset == 0x502 and len(data) == 2:
            assert data == b"\0\0", data
            self.log.append("c")
            return data
        if cmd is ECCmd.FPRD and offset == 4:
            return bytes([self.fmmus]) + bytes(len(data) - 1)
        if cmd is ECCmd.FPRD and offset == 0x130:
            return struct.pack("<H2xH", 2, 0)[:len(data)]           # PRE_OPERATIONAL, no error
        if cmd is ECCmd.FPRD and offset == 0x800:
            return (self.regs800 + bytes(len(data)))[:len(data)]
        return Device.handle(self, cmd, data, pos, offset)


def make_world(case):
    """the real Terminal / EBPFTerminal objects of a history on ONE bus object; they live for the whole case"""
    from ebpfcat.ethercat import EtherCat, EtherCatError, Terminal
    from ebpfcat.ebpfcat import EBPFTerminal
    devs = {}

    class Queue:
        def put_nowait(self, item):
            cmd, out, idx, pos, offset, future = item
            dev = devs[pos]
            try:
                res = dev.handle(cmd, out, pos, offset)
            except Cut:
                if dev.how == "cancel":
                    asyncio.current_task().cancel()      # the answer never comes, the caller gives up
                else:
                    future.set_exception(EtherCatError("timeout"))
                return
            future.set_result(res)

    class EC:
        roundtrip = EtherCat.roundtrip
        get_mbx_lock = EtherCat.get_mbx_lock

        def __init__(self):
            self.send_queue = Queue()

    ec = EC()
    terms = []
    for k, (tm, d) in enumerate(zip(case["terms"], case["devs"])):
        pos = 7 + k
        devs[pos] = HDevice(bytes.fromhex(d["image"]), d["mode8"], d["od"])
        t = (EBPFTerminal if tm["cls"] == "E" else Terminal)(ec)
        t.position = pos
        t._snaps = snaps = []
        real_psm = t.parse_sync_managers

        def psm(data, t=t, real_psm=real_psm, snaps=snaps):      # observe the state right after the real parse
            ok = "ok"
            try:
                real_psm(data)
            except Exception as e:
                ok = exc_name(e)
                raise
            finally:
                snaps.append((ok, sm_snapshot(t)))
        t.parse_sync_managers = psm

        async def sdo_read(index, subindex=None, pos=pos):           # the object dictionary of the device present NOW
            try:
                return devs[pos].od[index, subindex]
            except KeyError:
                raise EtherCatError(f"no object {index:x}:{subindex}")
        t.sdo_read = sdo_read

        async def parse_sdos():
            pass
        t.parse_sdos = parse_sdos
        terms.append(t)
    return devs, terms


def tview(t):
    g = lambda n: getattr(t, n, "?")
    return " | ".join([
        f"id={g('vendorId')},{g('productCode')},{g('revisionNo')},{g('serialNo')}",
        show_cats(t.eeprom) if hasattr(t, "eeprom") else "no-eeprom",
        show_sm("", sm_snapshot(t))[1:] if hasattr(t, "mbx_out_off") else "no-sm",
        show_pdos(t.pdos) if hasattr(t, "pdos") else "no-pdos"])


def hist_step(loop, devs, terms, st, cls):
    """one step through the real code; returns what the step shows"""
    k, do = st["k"], st["do"]
    t, pos = terms[k], 7 + k
    if do == "swap":
        devs[pos] = HDevice(bytes.fromhex(st["image"]), st["mode8"], st["od"])
        return {"res": "ok", "snap": None, "writes": [], "dev": devs[pos]}
    dev = devs[pos]
    dev.begin(st.get("script", []), st.get("n") if do == "cut" else None, st.get("how", "error"),
              bytes.fromhex(st["regs"]) if do == "gentle" else None)
    del t._snaps[:]
    res = "ok"
    try:
        if do in ("read", "cut"):
            loop.run_until_complete(t.read_eeprom())
        elif do == "write":
            loop.run_until_complete(t.eeprom_write_one(st["start"], st["data"]))
        elif do == "sm":
            e = getattr(t, "eeprom", None)
            if e is None or 41 not in e:
                res = "skipped"
            else:
                t.parse_sync_managers(e[41])
        elif do == "pdos":
            ret = loop.run_until_complete(t.parse_pdos())
            res = f"ok {ret[0]} {ret[1]}"
        elif do == "apply":
            loop.run_until_complete(t.initialize(absolute=pos) if st["via"] == "init" else t.apply_eeprom())
            if cls == "E":
                res = f"ok {t.pdo_out_sz} {t.pdo_in_sz}"
        elif do == "gentle":
            loop.run_until_complete(t.gentle_initialize(absolute=pos))
    except (Exception, asyncio.CancelledError) as e:
        res = "failed" if dev.cut_hit else exc_name(e)
    return {"res": res, "snap": t._snaps[-1] if t._snaps else None, "writes": list(dev.writes), "dev": dev}


def run_hist(case):
    devs, terms = make_world(case)
    loop = asyncio.new_event_loop()
    outs, obs = [], []
    try:
        for st in case["steps"]:
            o = hist_step(loop, devs, terms, st, case["terms"][st["k"]]["cls"])
            t = terms[st["k"]]
            w800 = [d for off, d in o["writes"] if off == 0x800]
            o["line"] = " | ".join([f"{st['do']}:{o['res']}", tview(t), show_sm(*o["snap"]) if o["snap"] else "-",
                                   w800[-1].hex() if w800 else "-", o["dev"].show()])
            o["ids"] = tuple(getattr(t, n, None) for n in ("vendorId", "productCode", "revisionNo", "serialNo"))
            o["eeprom"] = {a: bytes(b) for a, b in t.eeprom.items()} if hasattr(t, "eeprom") else None
            o["pdos"] = dict(t.pdos) if hasattr(t, "pdos") else None
            o["image"] = bytes(o["dev"].image)
            o["cls"] = case["terms"][st["k"]]["cls"]
            outs.append(o["line"])
            obs.append(o)
        fin = [{"ids": tuple(getattr(t, n, None) for n in ("vendorId", "productCode", "revisionNo", "serialNo")),
                "eeprom": {a: bytes(b) for a, b in t.eeprom.items()} if hasattr(t, "eeprom") else None,
                "pdos": dict(t.pdos) if hasattr(t, "pdos") else None,
                "sm": sm_snapshot(t) if hasattr(t, "mbx_out_off") else None, "line": tview(t)} for t in terms]
    finally:
        loop.close()
    # all terminals once more at the end: what one of them holds must not have been touched through another one
    return {"obs": obs, "fin": fin, "out": " || ".join(outs) + " || final: " + " ## ".join(f["line"] for f in fin)}


RUN = {"read_one": run_read_one, "eeprom": run_eeprom, "sm": run_sm, "pdos": run_pdos, "apply": run_apply,
       "hist": run_hist}


def run_case(case):
    """the runners map the exceptions the anchored code is expected to raise; anything else that
    escapes (the device model never makes the unchanged code raise) becomes an observable outcome"""
    try:
        return RUN[case["op"]](case)
    except Exception as e:
        return {"exc": f"{exc_name(e)}: {str(e)[:120]}", "out": "raised " + exc_name(e)}


# ---------------------------------------------------------------- oracles (from the generating structure)

def le(b):
    return int.from_bytes(b, "little")


def oracle_read_one(ctx, case, r):
    img = bytes.fromhex(case["image"])
    off = 2 * case["start"]
    want = bytes(img[i] if i < len(img) else 0xff for i in range(off, off + 8))
    ctx.require(r["data"] == want, "_eeprom_read_one did not return the 8 image bytes at 2*start", case, r["out"], "read-one")


def oracle_eeprom(ctx, case, t, out):
    st = case.get("struct")
    if st is None:
        return          # malformed image: outside the property, correspondence only
    hdr = bytes.fromhex(st["hdr"])
    want_id = (le(hdr[16:20]), le(hdr[20:24]), le(hdr[24:28]), le(hdr[28:32]))
    ctx.require((t.vendorId, t.productCode, t.revisionNo, t.serialNo) == want_id,
                "identity fields differ from image words 8..15", case, out, "identity")
    want = {}
    for ty, payload in st["cats"]:
        want[ty] = bytes.fromhex(payload)
    ctx.require(dict(t.eeprom) == want, "categories differ from the image (type -> payload)", case, out, "categories")


def sm_expect(table):
    """areas and register addresses stored in a sync-manager table [(offset, size, ctrl, ...)]"""
    exp = {0: None, 2: None, 4: None, 6: None}
    for i, rec in enumerate(table):
        k = rec[2] & 0xf
        if k in exp:
            exp[k] = (rec[0], rec[1], 0x800 + 8 * i)
    area = lambda k: (None, None) if exp[k] is None else exp[k][:2]
    return (*area(6), *area(2), *area(4), *area(0),
            0x818 if exp[0] is None else exp[0][2], 0x810 if exp[4] is None else exp[4][2])


def oracle_sm(ctx, case, ok, sm, out):
    table = case.get("table")
    if table is None:
        return          # truncated table: correspondence only
    ctx.require(ok == "ok" and sm == sm_expect(table),
                "sync-manager areas differ from the records of the table", case, out, "sync-managers")


def pdo_expect(entries, sm, exp):
    """walk one entry list [(idx, subidx, bits)]; returns total bits or None when the table is not aligned"""
    pos = 0
    for idx, sub, bits in entries:
        if idx != 0:
            if bits < 8:
                exp[idx, sub] = (sm, pos // 8, pos % 8)
            elif pos % 8 == 0 and bits in (8, 16, 32, 64):
                exp[idx, sub] = (sm, pos // 8, {8: "B", 16: "H", 32: "I", 64: "Q"}[bits])
            else:
                return None
        pos += bits
    return pos


def norm_pdos(p):
    return {k: (v[0].value if hasattr(v[0], "value") else v[0], v[1], v[2]) for k, v in p.items()}


def oracle_pdos(ctx, case, entries_out, entries_in, res, pdos, out):
    """entries_*: None = source absent; the property: every mapped entry gets (sm, Σ previous bits / 8, bit | format)"""
    from ebpfcat.ethercat import SyncManager
    exp = {}
    ob = 0 if entries_out is None else pdo_expect(entries_out, SyncManager.OUT.value, exp)
    ib = None
    if ob is not None:
        ib = 0 if entries_in is None else pdo_expect(entries_in, SyncManager.IN.value, exp)
    if ob is None or ib is None:
        ctx.require(res in ("runtime-error", "key-error"),
                    "a PDO table that is not byte-aligned was accepted", case, out, "pdo-reject")
        return None
    ctx.require(res == f"ok {ob} {ib}" and norm_pdos(pdos) == exp,
                "pdos differ from (sm, sum of previous bits / 8, bit or format) of the stored entries", case, out, "pdos")
    return ob, ib


def oracle_apply(ctx, case, r):
    st = case["struct"]
    t = r["t"]
    oracle_eeprom(ctx, case, t, r["out"])
    cats = {}
    for ty, payload in st["cats"]:
        cats[ty] = bytes.fromhex(payload)
    if 41 not in cats:
        return          # no sync-manager category: nothing further to derive
    table = st["sm_table"]
    want_sm = sm_expect(table)
    ctx.require(r["snap"].get("ok") == "ok" and r["snap"].get("sm") == want_sm,
                "sync-manager areas differ from category 41 of the image", case, r["out"], "sync-managers")
    w800 = [d for o, d in r["writes"] if o == 0x800]
    ctx.require(w800 == [bytes(0x80), cats[41]], "sync-manager registers not cleared and loaded with category 41",
                case, r["out"], "sm-write")
    mbx = want_sm[0] is not None and want_sm[2] is not None
    if mbx:
        eo, ei = st["sdo_out"], st["sdo_in"]
    else:
        eo = st["pdo_out"] if 51 in cats else None
        ei = st["pdo_in"] if 50 in cats else None
    if (mbx and (eo is None or ei is None)):
        return          # object dictionary incomplete: outside the property
    exp = {}
    from ebpfcat.ethercat import SyncManager
    ob = 0 if eo is None else pdo_expect(eo, SyncManager.OUT.value, exp)
    ib = None if ob is None else (0 if ei is None else pdo_expect(ei, SyncManager.IN.value, exp))
    if ob is None or ib is None:
        ctx.require(r["res"] in ("runtime-error", "key-error"), "a PDO table that is not byte-aligned was accepted",
                    case, r["out"], "pdo-reject")
        return
    osz, isz = (ob + 7) // 8, (ib + 7) // 8
    if (osz and not want_sm[4]) or (isz and not want_sm[6]):
        ctx.require(r["res"] == "assertion-error", "process data without a sync-manager area was accepted", case, r["out"], "apply")
        return
    ctx.require(r["res"] == f"ok {osz} {isz}" and norm_pdos(t.pdos) == exp,
                "apply_eeprom: pdos / process-data sizes differ from the stored layout", case, r["out"], "apply")
    oa, ia = want_sm[9], want_sm[8]
    want_w = [(oa + 6, b"\0"), (oa + 2, struct.pack("<H", osz)), (oa + 6, bytes([osz > 0])),
              (ia + 6, b"\0"), (ia + 2, struct.pack("<H", isz)), (ia + 6, bytes([isz > 0]))]
    got_w = [(o, d) for o, d in r["writes"] if o not in (0x800, 0x120)]
    ctx.require(got_w == want_w, "sync-manager length registers not written with the decoded sizes / addresses",
                case, [(o, d.hex()) for o, d in got_w], "apply-write")


def want_cats(st):
    want = {}
    for ty, payload in st["cats"]:
        want[ty] = bytes.fromhex(payload)
    return want


def oracle_hist(ctx, case, r):
    """the property along a history, decided from declared facts only: `cur[k]` is the structure the device behind
    terminal k was built from / rewritten to (every write and exchange step declares it), `seen[k]` the structure
    at the terminal's last complete read, `tab[k]` the sync-manager table its last parse_sync_managers was given.
    A read returns what is stored in the device NOW; the layouts derived afterwards are those stored in what was read."""
    from ebpfcat.ethercat import SyncManager
    structs = case["structs"]
    nt = len(case["terms"])
    cur = [d["st"] for d in case["devs"]]
    seen, tab, lastp = [None] * nt, [None] * nt, [None] * nt
    for i, (st, o) in enumerate(zip(case["steps"], r["obs"])):
        k, do, res = st["k"], st["do"], o["res"]
        where = f"step {i} ({do} on terminal {k})"
        ebpf = o["cls"] == "E"
        if o["snap"] is not None:
            tab[k] = None               # parse_sync_managers ran: the table is known again once it is checked below
        if do == "pdos" or (do == "apply" and ebpf):
            lastp[k] = None
        if do in ("write", "swap"):
            cur[k] = st["st"]
            if do == "write":
                S = structs[cur[k]]
                ctx.require(res == "ok" and o["image"] == build_image(bytes.fromhex(S["hdr"]), S["cats"], bytes.fromhex(S["tail"])),
                            f"{where}: eeprom_write_one did not store the word in the device", case, o["line"], "write")
            continue
        S = structs[cur[k]]
        if do in ("read", "cut", "apply", "gentle"):
            if res == "failed":
                seen[k] = None          # a cut read: nothing is promised about the attributes, only about the next read
                continue
            hdr = bytes.fromhex(S["hdr"])
            want_id = (le(hdr[16:20]), le(hdr[20:24]), le(hdr[24:28]), le(hdr[28:32]))
            ctx.require(o["ids"] == want_id, f"{where}: identity fields differ from words 8..15 of the image stored in the "
                        "device now", case, o["line"], "identity")
            ctx.require(o["eeprom"] == want_cats(S), f"{where}: categories differ from the image stored in the device now "
                        "(type -> payload)", case, o["line"], "categories")
            seen[k] = cur[k]
        if do == "read" or do == "cut":
            continue
        if do == "gentle":
            ctx.require(o["snap"] == ("ok", sm_expect(st["table"])), f"{where}: sync-manager areas differ from the registers",
                        case, o["line"], "sync-managers")
            tab[k] = st["table"]
            continue
        if seen[k] is None:
            continue                    # derived from a partial / never read eeprom attribute: correspondence only
        R = structs[seen[k]]
        cats = want_cats(R)
        if do in ("sm", "apply"):
            if 41 not in cats:
                if do == "sm":
                    ctx.require(res == "skipped", f"{where}: no category 41", case, o["line"], "sync-managers")
                continue                # nothing stored to derive the sync managers from
            want_sm = sm_expect(R["sm_table"])
            ctx.require(o["snap"] == ("ok", want_sm), f"{where}: sync-manager areas differ from category 41 as read",
                        case, o["line"], "sync-managers")
            tab[k] = R["sm_table"]
            if do == "sm":
                continue
            w800 = [d for off, d in o["writes"] if off == 0x800]
            ctx.require(w800 == [bytes(0x80), cats[41]], f"{where}: sync-manager registers not cleared and loaded with "
                        "category 41", case, o["line"], "sm-write")
            if not ebpf:
                ctx.require(res == "ok", f"{where}: Terminal.apply_eeprom failed", case, o["line"], "apply")
                continue
        if tab[k] is None:
            continue
        want_sm = sm_expect(tab[k])
        mbx = want_sm[0] is not None and want_sm[2] is not None
        if mbx:
            eo, ei = S["sdo_out"], S["sdo_in"]          # the object dictionary of the device present now
            if eo is None or ei is None:
                continue
        else:
            eo = R["pdo_out"] if 51 in cats else None
            ei = R["pdo_in"] if 50 in cats else None
        exp = {}
        ob = 0 if eo is None else pdo_expect(eo, SyncManager.OUT.value, exp)
        ib = None if ob is None else (0 if ei is None else pdo_expect(ei, SyncManager.IN.value, exp))
        if ob is None or ib is None:
            ctx.require(res in ("runtime-error", "key-error"), f"{where}: a PDO table that is not byte-aligned was accepted",
                        case, o["line"], "pdo-reject")
            continue
        if do == "pdos":
            if ctx.require(res == f"ok {ob} {ib}" and norm_pdos(o["pdos"]) == exp, f"{where}: pdos differ from (sm, sum of "
                           "previous bits / 8, bit or format) of the stored entries", case, o["line"], "pdos"):
                lastp[k] = exp
            continue
        osz, isz = (ob + 7) // 8, (ib + 7) // 8
        if (osz and not want_sm[4]) or (isz and not want_sm[6]):
            ctx.require(res == "assertion-error", f"{where}: process data without a sync-manager area was accepted",
                        case, o["line"], "apply")
            continue
        if ctx.require(res == f"ok {osz} {isz}" and norm_pdos(o["pdos"]) == exp,
                       f"{where}: apply_eeprom: pdos / process-data sizes differ from the stored layout", case, o["line"], "apply"):
            lastp[k] = exp
        oa, ia = want_sm[9], want_sm[8]
        want_w = [(oa + 6, b"\0"), (oa + 2, struct.pack("<H", osz)), (oa + 6, bytes([osz > 0])),
                  (ia + 6, b"\0"), (ia + 2, struct.pack("<H", isz)), (ia + 6, bytes([isz > 0]))]
        got_w = [(a, d) for a, d in o["writes"] if a not in (0x800, 0x120, 0x60c, 0x61c)]
        ctx.require(got_w == want_w, f"{where}: sync-manager length registers not written with the decoded sizes / addresses",
                    case, [(a, d.hex()) for a, d in got_w], "apply-write")
    # at the end every terminal still holds what IT read and derived last (nothing came in through another instance)
    for k, f in enumerate(r["fin"]):
        where = f"end of the history, terminal {k}"
        if seen[k] is not None:
            S = structs[seen[k]]
            hdr = bytes.fromhex(S["hdr"])
            ctx.require(f["ids"] == (le(hdr[16:20]), le(hdr[20:24]), le(hdr[24:28]), le(hdr[28:32])) and f["eeprom"] == want_cats(S),
                        f"{where}: identity / categories are no longer those of its last read", case, f["line"], "kept")
        if lastp[k] is not None:
            ctx.require(f["pdos"] is not None and norm_pdos(f["pdos"]) == lastp[k],
                        f"{where}: pdos are no longer those of its last parse_pdos", case, f["line"], "kept")
        if tab[k] is not None and f["sm"] is not None:
            keep = (0, 1, 2, 3, 4, 6, 8, 9)         # the process-data sizes are replaced by apply_eeprom
            want = sm_expect(tab[k])
            ctx.require([f["sm"][i] for i in keep] == [want[i] for i in keep],
                        f"{where}: sync-manager areas are no longer those of its last parse_sync_managers", case, f["line"], "kept")


def judge(ctx, case, r):
    op = case["op"]
    if "exc" in r:
        ctx.require(False, f"{op}: the real code raised {r['exc']}", case, r["out"], "raised")
        return
    if op == "hist":
        oracle_hist(ctx, case, r)
        return
    if op == "read_one":
        oracle_read_one(ctx, case, r)
    elif op == "eeprom":
        oracle_eeprom(ctx, case, r["t"], r["out"])
    elif op == "sm":
        oracle_sm(ctx, case, r["ok"], r["sm"], r["out"])
    elif op == "pdos":
        st = case.get("struct")
        if st is not None:
            oracle_pdos(ctx, case, st["out"], st["in"], r["res"], r["pdos"], r["out"])
    elif op == "apply":
        oracle_apply(ctx, case, r)


# ---------------------------------------------------------------- generators

def rbytes(rng, n):
    return bytes(rng.randrange(256) for _ in range(n))


def gen_script(rng, n):
    p = rng.choice([0.0, 0.2, 0.5, 0.8])
    return [[rng.random() < p, rng.randrange(0x10000), rbytes(rng, rng.randrange(0, 9)).hex()]
            for _ in range(rng.randrange(0, n + 1))]


def gen_read_one(rng):
    img = rbytes(rng, rng.choice([0, 3, 8, 16, 40, 100, 300]))
    start = rng.randrange(0, len(img) // 2 + 6)
    return {"op": "read_one", "image": img.hex(), "mode8": rng.random() < 0.5, "start": start,
            "script": gen_script(rng, 12)}


TYPICAL = [10, 20, 30, 40, 41, 42, 50, 51, 60, 0x0800, 0x7fff, 0x8000, 0xfffe, 1, 0]


def gen_cats(rng, n=None):
    n = rng.randrange(0, 9) if n is None else n
    cats, used = [], set()
    for _ in range(n):
        ty = rng.choice(TYPICAL) if rng.random() < 0.6 else rng.randrange(0, 0xffff)
        if ty in used and rng.random() < 0.9:
            ty = next(x for x in range(rng.randrange(0, 0xff00), 0xffff) if x not in used)
        used.add(ty)
        words = rng.randrange(0, 21) if rng.random() < 0.93 else rng.randrange(21, 301)
        cats.append([ty, rbytes(rng, 2 * words).hex()])
    return cats


def build_image(hdr, cats, tail):
    img = bytearray(hdr)
    for ty, payload in cats:
        p = bytes.fromhex(payload)
        img += struct.pack("<HH", ty, len(p) // 2) + p
    return bytes(img) + b"\xff\xff" + tail


def script_for(rng, image):
    return gen_script(rng, rng.choice([0, 10, len(image) // 2 + 20]))


def gen_eeprom(rng, heavy=False):
    hdr = rbytes(rng, 128)
    cats = gen_cats(rng)
    tail = rbytes(rng, rng.choice([0, 0, 1, 2, 3, 6, 12]))
    img = build_image(hdr, cats, tail)
    case = {"op": "eeprom", "mode8": rng.random() < 0.5, "struct": {"hdr": hdr.hex(), "cats": cats, "tail": tail.hex()}}
    if heavy or rng.random() < 0.12:
        # malformed: the image ends early.  Cutting inside a header leaves a word count of 0xff.. (the device
        # pads with 0xff): ~16000 reads of padding, kept for a few `heavy` cases only.
        offs, o = [], 128
        for ty, payload in cats:
            offs.append((o, len(payload) // 2))
            o += 4 + len(payload) // 2
        with_payload = [(a, n) for a, n in offs if n]
        if heavy:
            a = rng.choice(offs)[0] if offs else o
            cut = a + rng.randrange(1, 4)
        elif with_payload and rng.random() < 0.6:
            a, n = rng.choice(with_payload)
            cut = a + 4 + rng.randrange(0, n)
        else:
            cut = o if rng.random() < 0.7 or not offs else rng.choice(offs)[0]      # marker (and more) lost
        img = img[:cut]
        del case["struct"]
    case["image"] = img.hex()
    case["script"] = script_for(rng, img)
    return case


KINDS = [0x26, 0x22, 0x24, 0x20]


def gen_sm_table(rng):
    shape = rng.random()
    if shape < 0.35:
        ctrls = list(KINDS)
    elif shape < 0.5:
        ctrls = [0x24, 0x20]
    elif shape < 0.6:
        ctrls = [0x64, 0x20] if rng.random() < 0.5 else [0x20]
    else:
        ctrls = [rng.choice(KINDS + KINDS + [0x06, 0x32, 0x74, 0xf0, 0x21, 0x23, 0x28, 0x2e, rng.randrange(256)])
                 for _ in range(rng.randrange(0, 7))]
    if rng.random() < 0.3:
        rng.shuffle(ctrls)
    return [[rng.choice([0, 0x1000, 0x1080, 0x1100, 0x1180, rng.randrange(0x10000)]),
             rng.choice([0, 1, 2, 0x80, 0x100, rng.randrange(0x10000)]), c,
             rng.randrange(256), rng.randrange(256), rng.randrange(256)] for c in ctrls]


def enc_sm(table):
    return b"".join(struct.pack("<HHBBBB", *rec) for rec in table)


def gen_sm(rng):
    table = gen_sm_table(rng)
    data = enc_sm(table)
    case = {"op": "sm", "table": table}
    if data and rng.random() < 0.15:
        data = data[:len(data) - rng.randrange(1, 8)]
        del case["table"]
    case["data"] = data.hex()
    return case


def gen_entries(rng, keys, good=True):
    """one PDO's entry list; aligned when `good` (bit runs padded to a byte, byte sizes 8/16/32/64)"""
    out, pos = [], 0

    def key():
        if rng.random() < 0.03 and keys:
            return rng.choice(sorted(keys))
        while True:
            k = (rng.choice([0x6000, 0x6010, 0x7000, 0x7010, 0x1800, 0xf600, rng.randrange(1, 0x10000)]),
                 rng.randrange(0, 256) if rng.random() < 0.2 else rng.randrange(0, 18))
            if k not in keys:
                keys.add(k)
                return k
    for _ in range(rng.randrange(0, 7)):
        r = rng.random()
        if r < 0.45:        # a run of bit entries, then padding up to the byte boundary
            for _ in range(rng.randrange(1, 9)):
                b = rng.choice([1, 1, 1, 2, 3, 4, 7, 0])
                out.append([*key(), b])
                pos += b
            if pos % 8 and (good or rng.random() < 0.7):
                pad = 8 - pos % 8
                out.append([0, 0, pad])
                pos += pad
        elif r < 0.9:
            b = rng.choice([8, 16, 16, 32, 64])
            if not good and rng.random() < 0.4:
                b = rng.choice([24, 12, 48, 128, 9, 255, 40])
            out.append([*key(), b])
            pos += b
        else:               # padding bytes
            b = rng.choice([8, 16, 24, 3])
            if good and pos % 8 == 0 and b == 3:
                b = 8
            out.append([0, rng.randrange(0, 4), b])
            pos += b
            if good and pos % 8:
                out.append([0, 0, 8 - pos % 8])
                pos += 8 - pos % 8
    return out


def gen_pdo_list(rng, keys, good):
    return [[rng.choice([0x1600, 0x1601, 0x1a00, 0x1a01, rng.randrange(1, 0x10000)]), gen_entries(rng, keys, good)]
            for _ in range(rng.randrange(0, 4))]


def flat(pdos):
    return [e for _, es in pdos for e in es]


def enc_pdo_cat(rng, pdos):
    out = bytearray()
    for pidx, es in pdos:
        out += struct.pack("<HBbBBH", pidx, len(es), rng.randrange(-128, 128), rng.randrange(256), rng.randrange(256),
                           rng.randrange(0x10000))
        for idx, sub, bits in es:
            out += struct.pack("<HBBBBBB", idx, sub, rng.randrange(256), rng.randrange(256), bits,
                               rng.randrange(256), rng.randrange(256))
    return bytes(out)


def enc_od(rng, index, pdos, od, zero_slots=True):
    """object dictionary entries of one assignment object; returns the entry list the source must yield"""
    slots = []
    for p in pdos:
        if zero_slots and rng.random() < 0.2:
            slots.append(None)
        slots.append(p)
    od[index, 0] = bytes([len(slots)])
    ents = []
    for i, p in enumerate(slots, 1):
        od[index, i] = struct.pack("<H", 0 if p is None else p[0])
        if p is not None:
            # a PDO assigned twice must describe the same entries: keep the first description
            if (p[0], 0) not in od:
                od[p[0], 0] = bytes([len(p[1])])
                for j, (idx, sub, bits) in enumerate(p[1], 1):
                    od[p[0], j] = struct.pack("<BBH", bits, sub, idx)
            n = od[p[0], 0][0]
            ents += [[*struct.unpack("<BBH", od[p[0], j])][::-1] for j in range(1, n + 1)]
    return ents


def distinct_pdo_indices(rng, *lists):
    """PDO object indices must not collide with the assignment objects; the same PDO may (rarely) be assigned twice"""
    seen = set()
    for l in lists:
        for p in l:
            while p[0] in (0x1c12, 0x1c13) or (p[0] in seen and rng.random() < 0.9):
                p[0] = rng.randrange(1, 0x10000)
            seen.add(p[0])


def gen_pdos(rng):
    good = rng.random() < 0.75
    keys = set()
    po, pi = gen_pdo_list(rng, keys, good), gen_pdo_list(rng, keys, good)
    mbx = rng.random() < 0.5
    case = {"op": "pdos", "mbx": mbx, "od": [], "eeprom": []}
    if mbx:
        distinct_pdo_indices(rng, po, pi)
        od = {}
        eo = enc_od(rng, 0x1c12, po, od)
        ei = enc_od(rng, 0x1c13, pi, od)
        st = {"out": eo, "in": ei}
        r = rng.random()
        if r < 0.08 and od:           # an object is missing
            del od[rng.choice(sorted(od))]
            st = None
        elif r < 0.14 and od:         # an object has the wrong size
            k = rng.choice(sorted(od))
            od[k] = od[k] + b"\0" if rng.random() < 0.5 else od[k][:-1]
            st = None
        case["od"] = [[i, s, d.hex()] for (i, s), d in sorted(od.items())]
        # categories may be present too: they must be ignored
        if rng.random() < 0.3:
            case["eeprom"] = [[50, enc_pdo_cat(rng, pi).hex()], [51, enc_pdo_cat(rng, po).hex()]]
    else:
        st = {"out": flat(po), "in": flat(pi)}
        co, ci = enc_pdo_cat(rng, po), enc_pdo_cat(rng, pi)
        r = rng.random()
        if r < 0.1 and (co or ci):     # truncated category
            if co and (not ci or rng.random() < 0.5):
                co = co[:len(co) - rng.randrange(1, 8)]
            else:
                ci = ci[:len(ci) - rng.randrange(1, 8)]
            st = None
        cats = []
        if rng.random() < 0.85:
            cats.append([51, co.hex()])
        elif st is not None:
            st["out"] = None
        if rng.random() < 0.85:
            cats.append([50, ci.hex()])
        elif st is not None:
            st["in"] = None
        cats.append([30, rbytes(rng, 4).hex()])
        rng.shuffle(cats)
        case["eeprom"] = cats
    if st is not None:
        case["struct"] = st
    return case


def gen_apply(rng):
    good = rng.random() < 0.85
    keys = set()
    po, pi = gen_pdo_list(rng, keys, good), gen_pdo_list(rng, keys, good)
    table = gen_sm_table(rng)
    if rng.random() < 0.5:                  # mostly all four kinds (mailbox terminal) or the two process-data kinds
        table = [r for r in table if r[2] & 0xf not in (0, 4)]
        table += [[0x1100, 0, 0x24, 0, 1, 0], [0x1180, 0, 0x20, 0, 1, 0]]
        if rng.random() < 0.3:
            rng.shuffle(table)
    for rec in table:                       # mostly usable process-data areas
        if rec[0] == 0 and rng.random() < 0.8:
            rec[0] = 0x1000 + 0x80 * rng.randrange(1, 8)
    hdr = rbytes(rng, 128)
    cats = gen_cats(rng, rng.randrange(0, 3))
    cats = [c for c in cats if c[0] not in (41, 50, 51)]
    st = {"hdr": hdr.hex(), "sm_table": table, "pdo_out": flat(po), "pdo_in": flat(pi)}
    extra = []
    if rng.random() < 0.93:
        extra.append([41, enc_sm(table).hex()])
    if rng.random() < 0.9:
        extra.append([51, enc_pdo_cat(rng, po).hex()])
    if rng.random() < 0.9:
        extra.append([50, enc_pdo_cat(rng, pi).hex()])
    cats += extra
    rng.shuffle(cats)
    distinct_pdo_indices(rng, po, pi)
    od = {}
    # the object dictionary may describe a different (re-ordered) assignment than the EEPROM does
    so, si = (po, pi) if rng.random() < 0.5 else (list(reversed(po)), list(reversed(pi)))
    st["sdo_out"] = enc_od(rng, 0x1c12, so, od)
    st["sdo_in"] = enc_od(rng, 0x1c13, si, od)
    if rng.random() < 0.05 and od:
        del od[rng.choice(sorted(od))]
        st["sdo_out"] = st["sdo_in"] = None
    tail = rbytes(rng, rng.choice([0, 2, 5]))
    st["cats"], st["tail"] = cats, tail.hex()
    img = build_image(hdr, cats, tail)
    return {"op": "apply", "mode8": rng.random() < 0.5, "image": img.hex(), "script": script_for(rng, img),
            "od": [[i, s, d.hex()] for (i, s), d in sorted(od.items())], "struct": st}


def gen_device(rng, like=None):
    """a device for a history: whole image with categories 41/50/51 + object dictionary + the structure it was built
    from (as gen_apply, the PDO lists are kept so that single words can be rewritten structurally)"""
    c = gen_apply(rng)
    st = c["struct"]
    if like is not None and rng.random() < 0.5:
        # a close relative of the device that was there: same types, other contents / one category gone
        cats = [[ty, p] for ty, p in like["cats"] if ty not in (41, 50, 51)]
        if cats and rng.random() < 0.6:
            del cats[rng.randrange(len(cats))]
        cats = [[ty, rbytes(rng, len(p) // 2).hex() if rng.random() < 0.5 else p] for ty, p in cats]
        cats += [x for x in st["cats"] if x[0] in (41, 50, 51)]
        rng.shuffle(cats)
        st["cats"] = cats
        if rng.random() < 0.5:
            st["hdr"] = like["hdr"]
        c["image"] = build_image(bytes.fromhex(st["hdr"]), cats, bytes.fromhex(st["tail"])).hex()
    return {"image": c["image"], "mode8": c["mode8"], "od": c["od"], "struct": st}


def cat_word(cats, i):
    """word address of the header of category i"""
    return 64 + sum(2 + len(p) // 4 for _, p in cats[:i])


def patch(payload_hex, word, val):
    b = bytearray(bytes.fromhex(payload_hex))
    b[2 * word:2 * word + 2] = struct.pack("<H", val)
    return bytes(b).hex()


def gen_write(rng, st):
    """one eeprom_write_one(start, data) and the structure of the image afterwards, updated field by field"""
    import copy
    st = copy.deepcopy(st)
    cats = st["cats"]
    val = rng.choice([0, 1, 0xffff, 0xfffe, 0x00ff, rng.randrange(0x10000), rng.randrange(0x10000)])
    generic = [i for i, (ty, p) in enumerate(cats) if ty not in (41, 50, 51)]
    filled = [i for i in generic if cats[i][1]]
    i41 = [i for i, (ty, p) in enumerate(cats) if ty == 41 and p]
    ipdo = [i for i, (ty, p) in enumerate(cats) if ty in (50, 51) and len(p) >= 32]
    kind = rng.choice(["id", "id", "payload", "payload", "payload", "sm", "sm", "pdo", "pdo", "type", "cut", "tail", "beyond"])
    if kind == "payload" and filled:
        i = rng.choice(filled)
        w = rng.randrange(len(cats[i][1]) // 4)
        cats[i][1] = patch(cats[i][1], w, val)
        return cat_word(cats, i) + 2 + w, val, st
    if kind == "sm" and i41 and st["sm_table"]:
        i = i41[0]
        table = st["sm_table"]
        rec, f = rng.randrange(len(table)), rng.randrange(4)
        if f == 2 and rng.random() < 0.7:       # the kind of the area changes
            val = rng.choice([0x20, 0x22, 0x24, 0x26, 0x64, 0x06]) | (val & 0xff00)
        if f < 2:
            table[rec][f] = val
        elif f == 2:
            table[rec][2], table[rec][3] = val & 0xff, val >> 8
        else:
            table[rec][4], table[rec][5] = val & 0xff, val >> 8
        cats[i][1] = enc_sm(table).hex()
        return cat_word(cats, i) + 2 + 4 * rec + f, val, st
    if kind == "pdo" and ipdo:
        i = rng.choice(ipdo)
        ty, payload = cats[i]
        raw = bytes.fromhex(payload)
        # walk the records the category was built from: 8-byte PDO header, 8 bytes per entry
        offs, o, flatpos = [], 0, 0
        while o < len(raw):
            n = raw[o + 2]
            offs += [(o + 8 + 8 * j, flatpos + j) for j in range(n)]
            o += 8 + 8 * n
            flatpos += n
        if offs:
            eo, j = rng.choice(offs)
            entries = st["pdo_out" if ty == 51 else "pdo_in"]
            if rng.random() < 0.5:              # the index of the entry (0 turns it into padding)
                val = rng.choice([0, 0x6000, 0x7000, rng.randrange(1, 0x10000)])
                used = {(e[0], e[1]) for l in (st["pdo_out"], st["pdo_in"]) for e in l}
                if val and (val, entries[j][1]) in used:
                    val = 0
                entries[j][0] = val
                w = eo // 2
            else:                               # its size in bits (keeps the reserved low byte)
                bits = rng.choice([1, 2, 7, 8, 16, 32, 64, 24, 0])
                val = raw[eo + 4] | bits << 8
                entries[j][2] = bits
                w = eo // 2 + 2
            cats[i][1] = patch(payload, w, val)
            return cat_word(cats, i) + 2 + w, val, st
    if kind == "type" and generic:
        i = rng.choice(generic)
        used = {ty for ty, _ in cats}
        val = next(x for x in range(rng.randrange(1, 0xff00), 0xffff) if x not in used and x not in (41, 50, 51))
        cats[i][0] = val
        return cat_word(cats, i), val, st
    if kind == "cut" and cats:
        i = rng.randrange(len(cats))
        start = cat_word(cats, i)
        img = build_image(bytes.fromhex(st["hdr"]), cats, bytes.fromhex(st["tail"]))
        st["tail"] = img[2 * start + 2:].hex()
        st["cats"] = cats[:i]
        return start, 0xffff, st
    if kind == "tail" and len(st["tail"]) >= 4:
        w = rng.randrange(len(st["tail"]) // 4)
        st["tail"] = patch(st["tail"], w, val)
        return cat_word(cats, len(cats)) + 1 + w, val, st
    if kind == "beyond":
        n = len(build_image(bytes.fromhex(st["hdr"]), cats, bytes.fromhex(st["tail"])))
        return (n + 1) // 2 + rng.randrange(0, 4), val, st      # a last odd byte is no whole word either
    w = rng.randrange(8, 16)
    st["hdr"] = patch(st["hdr"], w, val)
    return w, val, st


def gen_hist(rng):
    """a history on 1..3 living terminals: episodes of (the EEPROM changes: words rewritten / device exchanged |
    a read fails) -> read again through one of the real paths -> layouts derived again, interleaved over the terminals"""
    nt = rng.choice([1, 1, 2, 2, 3])
    structs, devs, cur = [], [], []
    terms = [{"cls": rng.choice("TE")} for _ in range(nt)]
    for k in range(nt):
        d = gen_device(rng)
        structs.append(d.pop("struct"))
        d["st"] = len(structs) - 1
        devs.append(d)
        cur.append(d["st"])
    images = [d["image"] for d in devs]
    steps = []

    def script(k):
        return script_for(rng, bytes.fromhex(images[k]))

    def reader(k):
        r = rng.random()
        if r < 0.55:
            return {"k": k, "do": "read", "script": script(k)}
        if r < 0.85:
            return {"k": k, "do": "apply", "via": rng.choice(["init", "apply"]), "script": script(k)}
        table = gen_sm_table(rng)
        table += [[0, 0, 0, 0, 0, 0] if rng.random() < 0.8 else [rng.randrange(0x10000), rng.randrange(0x10000),
                  rng.randrange(256), 0, 0, 0] for _ in range(16 - len(table))]
        return {"k": k, "do": "gentle", "regs": enc_sm(table).hex(), "table": table, "script": script(k)}

    for _ in range(rng.randrange(2, 6)):
        k = rng.randrange(nt)
        r = rng.random()
        if steps and r < 0.35:
            for _ in range(rng.choice([1, 1, 2, 3])):
                start, val, st = gen_write(rng, structs[cur[k]])
                structs.append(st)
                cur[k] = len(structs) - 1
                images[k] = build_image(bytes.fromhex(st["hdr"]), st["cats"], bytes.fromhex(st["tail"])).hex()
                steps.append({"k": k, "do": "write", "start": start, "data": val, "st": cur[k],
                              "script": gen_script(rng, rng.choice([0, 3, 8]))})
        elif steps and r < 0.6:
            d = gen_device(rng, like=structs[cur[k]])
            structs.append(d.pop("struct"))
            cur[k] = len(structs) - 1
            images[k] = d["image"]
            steps.append({"k": k, "do": "swap", "st": cur[k], **d})
        elif (r < 0.72) if steps else (r < 0.15):
            n = len(images[k]) // 2
            steps.append({"k": k, "do": "cut", "how": rng.choice(["error", "cancel"]), "script": script(k),
                          "n": rng.choice([0, 1, 2, 3, 5, 7, 8, 9, 11, rng.randrange(0, n // 2 + 12), rng.randrange(0, 2 * n + 12)])})
        if rng.random() < 0.92:
            steps.append(reader(k))
        r = rng.random()
        for do in (["sm", "pdos"] if r < 0.5 else ["pdos"] if r < 0.65 else ["sm"] if r < 0.75 else ["pdos", "sm", "pdos"] if r < 0.8 else []):
            steps.append({"k": k, "do": do})
        if nt > 1 and rng.random() < 0.5:           # another terminal in between
            steps.append(reader(rng.randrange(nt)))
    return {"op": "hist", "terms": terms, "devs": devs, "steps": steps, "structs": structs}


def fixed_cases():
    """small deterministic family: every payload size 0..9 words at every carry-over phase, both read modes"""
    out = []
    hdr = bytes(range(128))
    for lead in range(0, 5):
        for words in range(0, 10):
            cats = [[7, bytes(range(2 * lead)).hex()], [9, bytes(range(100, 100 + 2 * words)).hex()], [11, "aabb"]]
            img = build_image(hdr, cats, b"")
            for mode8 in (False, True):
                out.append({"op": "eeprom", "mode8": mode8, "image": img.hex(),
                            "script": [[True, 0xffff, "0102030405060708"], [False, 0x8040, ""]] * 3,
                            "struct": {"hdr": hdr.hex(), "cats": cats, "tail": ""}})
    return out


# ---------------------------------------------------------------- the check

def nontrivial(case):
    op = case["op"]
    if op == "read_one":
        return len(case["image"]) > 0
    if op == "eeprom":
        return "struct" in case and len(case["struct"]["cats"]) > 0
    if op == "sm":
        return len(case["data"]) >= 16
    if op == "pdos":
        st = case.get("struct")
        return st is not None and any(e[0] for l in (st["out"], st["in"]) if l for e in l)
    if op == "hist":
        return len(case["terms"]) > 1 or any(s["do"] in ("write", "swap", "cut") for s in case["steps"])
    return True


def kind(case, r):
    op = case["op"]
    if "exc" in r:
        return op + ":raised"
    if op == "read_one":
        return "read_one:" + ("8" if case["mode8"] else "4")
    if op == "eeprom":
        if "struct" not in case:
            return "eeprom:malformed"
        n = len(case["struct"]["cats"])
        return "eeprom:" + (f"{n}cats" if n < 4 else "4+cats") + (":8" if case["mode8"] else ":4")
    if op == "sm":
        return "sm:" + r["ok"]
    if op == "pdos":
        return f"pdos:{'sdo' if case['mbx'] else 'eeprom'}:{r['res'].split()[0]}"
    if op == "hist":
        does = {s["do"] for s in case["steps"]}
        return f"hist:{len(case['terms'])}t" + "".join(":" + d for d in ("write", "swap", "cut") if d in does)
    return "apply:" + r["res"].split()[0]


def run(ctx):
    assert __import__("sys").byteorder == "little"
    logging.disable(logging.CRITICAL)
    rng = ctx.rng
    cases = fixed_cases()
    cases += [gen_read_one(rng) for _ in range(ctx.n(2500, 30000))]
    cases += [gen_eeprom(rng) for _ in range(ctx.n(1000, 8000))]
    cases += [gen_eeprom(rng, heavy=True) for _ in range(ctx.n(0, 2))]
    cases += [gen_sm(rng) for _ in range(ctx.n(2500, 30000))]
    cases += [gen_pdos(rng) for _ in range(ctx.n(3000, 40000))]
    cases += [gen_apply(rng) for _ in range(ctx.n(800, 10000))]
    cases += [gen_hist(rng) for _ in range(ctx.n(700, 8000))]
    impl = []
    for c in cases:
        r = run_case(c)
        impl.append(r["out"])
        ctx.case(c, nontrivial=nontrivial(c), kind=kind(c, r))
        judge(ctx, c, r)
    slim = [{k: v for k, v in c.items() if k not in ("struct", "table", "structs")} for c in cases]
    model = ctx.drive(DRIVER, slim, "eeprom decoding")
    if model is not None:
        for c, i, m in zip(cases, impl, model):
            ctx.agree(c["op"], c, i, m)


def replay(ctx, case):
    logging.disable(logging.CRITICAL)
    r = run_case(case)
    judge(ctx, case, r)
    return {"out": r["out"]}


LEVEL_TEXT = ("Lean 4 proof over a hand-written model of the EEPROM access and layout decoding: for every image, word address, "
              "4/8-byte read mode and busy script _eeprom_read_one returns the 8 image bytes at 2*start; for every list of "
              "categories (any sizes, carry-over buffer as invariant) read_eeprom returns {type: payload} and the identity "
              "words, and terminates on every image; parse_sync_managers returns the last record of each kind with its "
              "register address; parse assigns every mapped entry (sm, sum of previous bits / 8, bit or format letter) for "
              "every aligned entry list, rejects every other list, for both the category 50/51 and the 0x1c12/0x1c13 source. "
              "Histories: for every world of terminals and every history of reads, cut reads, writes, exchanges and "
              "derivations, a read returns what a fresh terminal reads from the image present now (no influence of earlier "
              "reads, of the bus state, of other terminals), a written word / exchanged device is seen by the next read, "
              "a cut read is followed by a correct one, and sync managers / PDOs derived afterwards are those of the "
              "present image and object dictionary. "
              "Tied to /repo by exact output and bus-trace correspondence of the real methods (through the real roundtrip "
              "codec) on a scripted EEPROM-interface device, and by an oracle computed from the generating structure.")
LEVEL_NOTE = ("trusted: Lean kernel + propext/Classical.choice/Quot.sound; hand transcription Ebv.Eeprom validated (not verified) "
              "by differential runs; the device model (busy/0x40 semantics, 0xff beyond the image) is an assumption about the "
              "hardware; SDO transport is replaced by an object-dictionary lookup; terminals whose EEPROM has no category 41 "
              "make EBPFTerminal.apply_eeprom raise AttributeError (modelled, outside the property)")
TECHNIQUE = "Lean 4 induction over category / record / entry lists with the carry-over buffer as invariant + differential correspondence"
DESIGN_REF = "§4 C17"
