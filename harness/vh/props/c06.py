"""C06 — in-place addition on 4/8-byte variables never loses updates.
For every member of the statement family (formats i I q Q x; shared array-map variable, declared or raw
m?[...] access; amount = constant, register or expression over instance-private data; += and -=; the
statement in a plain EBPF program, in a SubProgram, and in XDP programs before / inside / after packet-size
guards and packet accesses; optionally another program generated before in the same process) the real
generator's code is (1) checked to have the shape the theorem needs — exactly one XADD on
the variable's address and no other access to it — and (2) executed by 2–3 instances of
the interpreter over shared map memory under many schedules (instruction granularity),
compared with the Lean schedule model `Ebv.Xadd.runSched` and with the property itself."""
import itertools
import struct

from .. import fsim, interp

ID = "C06"
LEAN_MODULES = ["Ebv.Props.C06", "Ebv.Props.C06TV"]
MODEL_MODULES = ["Ebv.Model.Xadd"]
DRIVER = "Drivers/C06.lean"
THEOREMS = ["Ebv.C06.invariant", "Ebv.C06.no_lost_update", "Ebv.C06.cell_in_range", "Ebv.C06.racy_loses",
            # translation validation: every member of the regenerated table of 420 real statements has the shape the schedule model assumes
            "Ebv.C06TV.table_shape", "Ebv.C06TV.table_syntax", "Ebv.C06TV.table_covers", "Ebv.C06TV.table_ok",
            "Ebv.C06TV.pre_private", "Ebv.C06TV.xadd_on_variable", "Ebv.C06TV.post_private", "Ebv.C06TV.stmt_run",
            "Ebv.C06TV.table_run", "Ebv.C06TV.stmt_is_step", "Ebv.C06TV.real_sum", "Ebv.C06TV.real_no_lost_update",
            "Ebv.C06TV.amountZ_oracle", "Ebv.C06TV.exLay", "Ebv.C06TV.exLayCom", "Ebv.C06TV.exLayLoc"]
REGEN_OBLIGATIONS = ["the 420 statements regenerated into Ebv.Generated.ProgramsXadd (formats x memory/address kinds x amount kinds x constants) are "
                     "'private computation; one XADD on the variable; no load anywhere' and one run is one Xadd.stepThread (re-proved against the code emitted now)"]
TRUSTED = ["translation validation by proof (Ebv.C06TV.table_shape/xadd_on_variable/stmt_is_step/real_no_lost_update): for the regenerated table "
           "the real bytecode is proved, under Ebv.Ebpf + Ebv.XdpRun.runXdp, to be pre ++ [XADD on the variable's address and width, source = amount] ++ "
           "post with no load instruction at all, pre/post not touching the variable, and one run = one step of the schedule model; non-interference "
           "is between runs (memories differing on the variable), the instruction-level part is the syntactic one (exactly one XADD, no LD/LDX)",
           "hand-written schedule model Ebv.Xadd; the tie is the shape check of the real emitted code (one XADD on the variable, no other access) "
           "re-done on every run for the whole family, plus interleaved execution of the real code in harness/vh/interp.py",
           "harness/vh/interp.py executes XADD as one atomic step"]
ASSUMPTIONS = ["the kernel/CPU executes BPF_XADD (atomic add) atomically", "each instance has private registers and stack; only map memory is shared",
               "local (stack) variables are per instance, so for them only the single-instance statement is checked"]
RULE = ("family = {i,I,q,Q,x} x {constant, register, expression} x {+=,-=} x {declared map variable, m?[base+const], m?[base+register]} on shared array-map memory (and a local variable, single instance) "
        "x program around the statement {EBPF, SubProgram, XDP, XDP with minimumPacketSize, inside / after a `with packetSize > n` block that reads and "
        "modifies the packet, after an in-place addition on a PacketVar} x {nothing / another XDP program with packet accesses generated before}; every "
        "program x address kind is shape-checked each run, a statement of the wrong shape is interleaved all the same (replay = lost update); "
        "2-3 instances, random initial values and amounts (boundary and random), schedules: random interleavings at instruction granularity plus every "
        "order of the XADD instructions; non-trivial = schedule in which another instance runs between an instance's amount computation and its XADD")

FAMILY = [(f, k, s) for f in "iIqQx" for k in ("const", "reg", "expr") for s in (1, -1)]
# how the shared variable is addressed: declared map variable, m?[base + const], m?[base + register] (computed address)
ADDR_KINDS = ("var", "sum", "computed")
# the program around the statement: a plain EBPF program; a SubProgram of one (variable declared in the sub-program); XDP programs
# without any packet access, with `minimumPacketSize`, with the statement inside / after a `with self.packetSize > n as p:` block that
# reads and modifies the packet, and with a declared PacketVar modified in place before the statement.  Packet memory is private to an
# instance (not in the family); the statement's variable is always shared map memory.
PROG_KINDS = ("ebpf", "sub", "xdp", "xdp-min", "xdp-guard", "xdp-after", "xdp-pvar")
# what was generated in the same process before the statement's program (class-level state must not leak from one program to the next)
PRIORS = (None, "packet")
PKT = bytes((7 * i + 3) & 0xff for i in range(64))
_cache = {}
_built_prior = []       # once another program has been generated in this process every later case says so (replays stay exact)


def _statement(e, holder, base, fmt, kind, sign, const, addr, legacy=False):
    """issue `v += amount` / `v -= amount` for the variable `v` declared on `holder` (the program or a sub-program)"""
    e.owners.add(8)
    amt = {"const": const, "reg": e.r8, "expr": e.r8 * 3 + const}[kind]
    if addr == "var":
        if sign > 0:
            holder.v += amt
        else:
            holder.v -= amt
        return
    arr = {"i": e.mi, "I": e.mI, "q": e.mq, "Q": e.mQ, "x": e.mx}[fmt]
    if addr == "sum":
        a = e.r[base] + holder.__dict__["v"]
    elif legacy:
        e.owners.add(6)                     # r6 holds the variable's offset (set by the environment)
        a = e.r[base] + e.r6
    else:
        e.r6 = holder.__dict__["v"]         # the variable's offset in a register: address = register + register
        a = e.r[base] + e.r6
    if sign > 0:
        arr[a] += amt
    else:
        arr[a] -= amt


def _prior(kind):
    """generate another program first, as a process which builds several programs does"""
    from ebpfcat.xdp import XDP, PacketVar
    from ebpfcat.arraymap import ArrayMap
    if kind is None:
        return
    _built_prior.append(kind)

    def program(self):
        with self.packetSize > 30 as p:
            p.pI[4] += 1
            p.pQ[8] -= self.r2
            self.r3 = p.pB[1] + p.pH[2]
        self.pv += 1
        self.pw -= 2
        self.cnt += 1
    m = ArrayMap()
    cls = type("Prior", (XDP,), {"program": program, "m": m, "cnt": m.globalVar("I"), "pv": PacketVar(12, "I"), "pw": PacketVar(16, "Q"),
                                  "minimumPacketSize": 40})
    with fsim.fake_maps():
        e = cls(license="GPL")
        e.owners |= {2, 3}
        e.assemble()


def build(fmt, kind, sign, const, local=False, addr="var", percpu=False, prog="ebpf", prior=None):
    key = (fmt, kind, sign, const, local, addr, percpu, prog, prior)
    if key in _cache:
        return _cache[key]
    from ebpfcat.ebpf import EBPF, LocalVar, SubProgram
    from ebpfcat.arraymap import ArrayMap, PerCPUArrayMap
    from ebpfcat.xdp import XDP, PacketVar
    _prior(prior)
    m = None if local else (PerCPUArrayMap() if percpu else ArrayMap())   # per-CPU: the instances of one CPU share the CPU's copy
    base = 10 if local else m.base_register
    if local:
        decl = {"v": LocalVar(fmt), "other": LocalVar("I")}
    elif prog == "ebpf":    # the statements of the regenerated translation-validation table (harness/vh/extract.py): kept as they are
        decl = {"v": m.globalVar(fmt), "other": m.globalVar("I")}
    else:   # `pad` first: the variable's offset in the map is not zero
        decl = {"pad": m.globalVar("Q"), "v": m.globalVar(fmt), "other": m.globalVar("I")}

    def stmt(self, holder=None):
        _statement(self, holder or self, base, fmt, kind, sign, const, addr, legacy=prog == "ebpf")

    def finish(self, holder=None):
        (holder or self).other = 1
        self.r0 = 0
        self.exit()

    def program(self):
        if prog == "sub":
            for s in self.subprograms:
                s.program()
            return
        if prog == "xdp-guard":
            with self.packetSize > 20 as p:
                self.r5 = p.pI[4]
                p.pI[8] += 1
                p.pQ[12] -= self.r5
                stmt(self)
        elif prog == "xdp-after":
            with self.packetSize > 20 as p:
                self.r5 = p.pH[2]
                p.pB[3] = 1
            stmt(self)
        elif prog == "xdp-pvar":
            self.pv += 2
            self.r5 = self.pI[4] + self.pw
            self.pQ[16] += 1
            stmt(self)
        else:
            stmt(self)
        finish(self)

    ns = {"program": program}
    holder_of = lambda e: e
    if prog == "sub":
        def sub_program(self):
            stmt(self.ebpf, self)
            finish(self.ebpf, self)
        sub = type("S", (SubProgram,), dict(decl, program=sub_program))()
        ns["m"] = m
        parent, kw = EBPF, {"subprograms": [sub]}
        holder_of = lambda e: sub
    else:
        ns.update(decl)
        if m is not None:
            ns["m"] = m
        parent, kw = (EBPF, {}) if prog == "ebpf" else (XDP, {"license": "GPL"})
        if prog in ("xdp-min", "xdp-pvar"):
            ns["minimumPacketSize"] = 30
        if prog == "xdp-pvar":
            ns["pv"] = PacketVar(12, "I")
            ns["pw"] = PacketVar(20, "Q")
    cls = type("P", (parent,), ns)
    with fsim.fake_maps() as created:
        e = cls(**kw)
        e.assemble()
    h = holder_of(e)
    info = {"insns": list(e.opcodes), "fd": created[0][0] if created else None,
            "size": created[0][1][2] if created else None, "xdp": prog.startswith("xdp"),
            "off": h.__dict__["v"] if not local else cls.__dict__["v"].relative_addr,
            "off_other": h.__dict__["other"] if not local else cls.__dict__["other"].relative_addr}
    _cache[key] = info
    return info


class LoggingMachine(interp.Machine):
    """records which instruction touches which bytes (and whether it writes them)"""
    def __init__(self, *a, **k):
        super().__init__(*a, **k)
        self.accesses = []

    def load(self, addr, size):
        self.accesses.append((self.pc, addr, size, False, len(self.trace) - 1))
        return super().load(addr, size)

    def store(self, addr, size, val):
        self.accesses.append((self.pc, addr, size, True, len(self.trace) - 1))
        return super().store(addr, size, val)


def machine(info, mp, r3, cls=interp.Machine):
    """one instance: private registers, stack, XDP context and packet; the map value is the shared object"""
    regions, helpers = [], {}
    if mp is not None:
        regions, helpers = [mp.value], interp.std_helpers({info["fd"]: mp})
    if info.get("xdp"):
        regs, _ = interp.xdp_regions(PKT)
        regions = regions + regs
    m = cls(info["insns"], regions, helpers)
    m.wr(1, interp.CTX_BASE if info.get("xdp") else 0)
    m.wr(8, r3)
    m.wr(6, info["off"])
    m.pc = 0
    m.exited = False
    return m


def solo(info, fmt, local, r3=5):
    """run one instance alone, every access logged; returns (machine, address of the variable) or a fault text"""
    mp = interp.ArrayMapModel(info["fd"], info["size"]) if info["fd"] is not None else None
    m = machine(info, mp, r3, LoggingMachine)
    try:
        m.run()
    except interp.Fault as e:
        return f"fault: {e}", None
    return m, (interp.STACK_TOP if local else mp.value.base) + info["off"]


def touching(m, cell, n):
    return [t for t in m.accesses if t[1] < cell + n and cell < t[1] + t[2]]


def shape(info, fmt, local, r3=5):
    """run one instance alone: exactly one XADD executes, it is on the variable, with the variable's width, and no other
    instruction touches the variable's bytes (so everything before it is private computation)"""
    n = 4 if fmt in "iI" else 8
    m, cell = solo(info, fmt, local, r3)
    if cell is None:
        return m
    xs = [pc for pc in m.trace if (m.insns[pc][0] & 0xe7) == 0xc3]
    if len(xs) != 1:
        return f"{len(xs)} XADD instructions executed"
    tch = touching(m, cell, n)
    if any(t[0] != xs[0] for t in tch):
        return f"instruction {[t[0] for t in tch if t[0] != xs[0]][0]} accesses the variable besides the XADD"
    if not tch or any((t[1], t[2]) != (cell, n) for t in tch):
        return f"XADD is not on the variable (accesses {[t[:3] for t in tch[:2]]}, variable at {cell:#x}+{n})"
    return None


def first_write(info, fmt, r3):
    """number of instructions an instance executes before the first one that writes the variable (None: it never does)"""
    m, cell = solo(info, fmt, False, r3)
    if cell is None:
        return None
    w = [t[4] for t in touching(m, cell, 4 if fmt in "iI" else 8) if t[3]]
    return w[0] if w else None


def make_threads(info, fmt, n, r3s):
    mp = interp.ArrayMapModel(info["fd"], info["size"])
    return mp, [machine(info, mp, r3) for r3 in r3s]


def run_sched(ms, sched):
    for i in sched:
        m = ms[i]
        if m.exited:
            continue
        if m.step() is not None:
            m.exited = True


def amount_of(fmt, kind, sign, const, r3, bits):
    a = {"const": const, "reg": r3, "expr": r3 * 3 + const}[kind]
    if fmt == "x":
        a *= 100000
    return (sign * a) % (1 << bits)


def execute(info, bits, r3s, pres, init, sched):
    """2-3 instances of the real code under one schedule -> (final value, all completed, canonical line)"""
    mp, ms = make_threads(info, None, len(r3s), r3s)
    struct.pack_into("<Q" if bits == 64 else "<I", mp.value.data, info["off"], init)
    try:
        run_sched(ms, sched)
    except interp.Fault as e:
        return None, False, f"fault:{e}"
    final, = struct.unpack_from("<Q" if bits == 64 else "<I", mp.value.data, info["off"])
    return final, all(m.exited for m in ms), f"{final} {' '.join('1' if m.steps > p else '0' for m, p in zip(ms, pres))}"


CONSTS = {"x": [0, 1, 5, 255, 1000, 0x7fffffff // 100000]}


def interleave(ctx, scase, info, cases, impl, quick_scheds=3):
    """2-3 instances of one statement under random and critical schedules, judged by the property"""
    rng = ctx.rng
    fmt, kind, sign, const = scase["fmt"], scase["amount"], scase["sign"], scase["const"]
    bits = 32 if fmt in "iI" else 64
    nthreads = rng.choice([2, 3])
    r3s = [rng.choice([0, 1, 2, 0xffff, 0x7fffffff, (1 << 32) - 1, (1 << 63), (1 << 64) - 1]) if rng.random() < 0.5
           else rng.getrandbits(rng.choice([8, 32, 64])) for _ in range(nthreads)]
    init = rng.choice([0, 1, (1 << bits) - 1, (1 << (bits - 1)), rng.getrandbits(bits)])
    # solo runs: number of instructions each instance executes before the one that first writes the variable
    pres = [first_write(info, fmt, r3) for r3 in r3s]
    if any(p is None for p in pres):
        ctx.require(False, "an instance of the statement never writes the variable", dict(scase, r3=r3s), str(pres), "shape")
        return
    total = max(len(info["insns"]) + 3, 30)
    scheds = []
    for _ in range(ctx.n(quick_scheds, 10)):
        s = [i for i in range(nthreads) for _ in range(total)]
        rng.shuffle(s)
        scheds.append(s)
    for perm in itertools.permutations(range(nthreads)):
        # all run up to their write of the variable, then the writing instructions in this order, then the rest
        scheds.append([i for i in range(nthreads) for _ in range(pres[i])] + list(perm) + [i for i in range(nthreads) for _ in range(total)])
    amounts = [amount_of(fmt, kind, sign, const, r3, bits) for r3 in r3s]
    for s in scheds:
        final, alldone, out = execute(info, bits, r3s, pres, init, s)
        case = {"bits": bits, "sched": s, "cell": init, "threads": [[p, a] for p, a in zip(pres, amounts)], "stmt": scase, "r3": r3s}
        ctx.case({k: case[k] for k in ("bits", "cell", "threads", "stmt")} | {"schedule_len": len(s)},
                 nontrivial=True, kind=f"{fmt}-{kind}-{scase['addr']}-{scase['prog']}")
        if alldone:
            ctx.require(final == (init + sum(amounts)) % (1 << bits), "an update was lost (final value is not initial + sum of all amounts)",
                        case, out, "lost")
        else:
            ctx.require(final is not None, "execution fault", case, out, "fault")
        cases.append(case); impl.append(out)


def run(ctx):
    rng = ctx.rng
    cases, impl = [], []
    consts = lambda fmt: CONSTS.get(fmt, [0, 1, 5, 255, 1000, 0x7fffffff])
    # every program kind x address kind, nothing else generated before: the emitted statement has the shape the theorem needs; where
    # it has not, instances are interleaved all the same so that the replay is a lost update
    for fmt, kind, sign in FAMILY:
        for prog in PROG_KINDS:
            for addr in ADDR_KINDS:
                scase = {"fmt": fmt, "amount": kind, "sign": sign, "const": rng.choice(consts(fmt)), "addr": addr, "prog": prog,
                         "prior": _built_prior[0] if _built_prior else None}
                info = build(fmt, kind, sign, scase["const"], addr=addr, prog=prog, prior=scase["prior"])
                bad = shape(info, fmt, False)
                ctx.case(scase, kind=f"shape-{prog}-{addr}")
                if bad is not None:     # first the property itself (a lost update), then the broken hypothesis of the theorem
                    interleave(ctx, scase, info, [], [], quick_scheds=1)
                ctx.require(bad is None, "emitted code is not 'private computation; one XADD on the variable'", scase, bad, "shape")
    for fmt, kind, sign in FAMILY:
        for _ in range(ctx.n(4, 60)):
            scase = {"fmt": fmt, "amount": kind, "sign": sign, "const": rng.choice(consts(fmt)), "addr": rng.choice(ADDR_KINDS),
                     "prog": rng.choice(PROG_KINDS), "prior": _built_prior[0] if _built_prior else rng.choice(PRIORS)}
            info = build(fmt, kind, sign, scase["const"], addr=scase["addr"], prog=scase["prog"], prior=scase["prior"])
            bad = shape(info, fmt, False)
            interleave(ctx, scase, info, *((cases, impl) if bad is None else ([], [])))
            ctx.require(bad is None, "emitted code is not 'private computation; one XADD on the variable'", scase, bad, "shape")
        # local variable of the same format: single-instance statement
        const = 7
        info = build(fmt, kind, sign, const, local=True)
        bad = shape(info, fmt, True)
        ctx.require(bad is None, "local variable: emitted code is not one XADD on the variable", {"fmt": fmt, "amount": kind, "sign": sign, "const": const, "local": True}, bad, "shape")
        # variable of a per-CPU array map (the instances running on one CPU share that CPU's copy): same statement shape
        for prog in ("ebpf", "xdp-guard"):
            info = build(fmt, kind, sign, const, percpu=True, prog=prog)
            bad = shape(info, fmt, False)
            pcase = {"fmt": fmt, "amount": kind, "sign": sign, "const": const, "percpu": True, "prog": prog}
            ctx.case(pcase, kind=f"{fmt}-{kind}-percpu")
            ctx.require(bad is None, "per-CPU map variable: emitted code is not 'private computation; one XADD on the variable'", pcase, bad, "shape")
    model = ctx.drive(DRIVER, [{k: c[k] for k in ("bits", "sched", "cell", "threads")} for c in cases], "xadd schedules")
    if model is not None:
        for c, i, m in zip(cases, impl, model):
            ctx.agree("interleaved in-place additions", c, i, m)


def replay(ctx, case):
    if "stmt" not in case:          # a shape case: re-generate the statement and look at it again
        local = bool(case.get("local"))
        info = build(case["fmt"], case["amount"], case.get("sign", 1), case.get("const", 7), local=local, addr=case.get("addr", "var"),
                     percpu=bool(case.get("percpu")), prog=case.get("prog", "ebpf"), prior=case.get("prior"))
        bad = shape(info, case["fmt"], local)
        ctx.require(bad is None, "emitted code is not 'private computation; one XADD on the variable'", case, bad, "shape")
        return {"shape": bad or "ok"}
    st = case["stmt"]
    info = build(st["fmt"], st["amount"], st["sign"], st["const"], addr=st.get("addr", "var"), prog=st.get("prog", "ebpf"), prior=st.get("prior"))
    bits = case["bits"]
    final, alldone, out = execute(info, bits, case["r3"], [p for p, _ in case["threads"]], case["cell"], case["sched"])
    amounts = [amount_of(st["fmt"], st["amount"], st["sign"], st["const"], r3, bits) for r3 in case["r3"]]   # from the statement, not the record
    if alldone:
        ctx.require(final == (case["cell"] + sum(amounts)) % (1 << bits), "an update was lost", case, out, "lost")
    else:
        ctx.require(final is not None, "execution fault", case, out, "fault")
    return {"final": final}

LEVEL_TEXT = ("Translation validation by proof of 420 regenerated statements (each is private computation + exactly one XADD on the variable + no load; "
              "one run = one step of the schedule model) + Lean 4 proof over a schedule model: for any number of instances and any interleaving at instruction granularity, code of the shape "
              "'private computation of the amount; one atomic XADD on the variable' keeps 'cell + amounts not yet added' invariant modulo 2^width, so "
              "once all instances completed the variable has changed by exactly the sum of all amounts. Tie: for every member of the statement family the "
              "real emitted code is re-generated each run and checked to have that shape (one XADD on the variable's address, no other access), and "
              "2-3 instances of the real code are executed under random and critical schedules and compared with the Lean schedule fold.")
LEVEL_NOTE = ("trusted: Lean kernel + standard axioms; atomicity of BPF_XADD in the kernel/CPU is assumed (cannot be exhibited by a model); shape check and "
              "interpreter in the trusted base; formats without XADD (byte-order prefixes, 1/2-byte) are outside the property's family (racy_loses shows why)")
TECHNIQUE = "Lean 4 invariant proof over schedules (unbounded instances/interleavings) + shape check and interleaved execution of the real code"
DESIGN_REF = "§4 C06"
