"""C06 — in-place addition on 4/8-byte variables never loses updates.
For every member of the statement family (formats i I q Q x; shared array-map variable;
amount = constant, register or expression over instance-private data; += and -=) the real
generator's code is (1) checked to have the shape the theorem needs — exactly one XADD on
the variable's address and no other access to it — and (2) executed by 2–3 instances of
the interpreter over shared map memory under many schedules (instruction granularity),
compared with the Lean schedule model `Ebv.Xadd.runSched` and with the property itself."""
import itertools
import struct

from .. import fsim, interp

ID = "C06"
LEAN_MODULES = ["Ebv.Props.C06", "Ebv.Props.C06TV"]
MODEL_MODULES = ["Ebv.Model.Xadd"]
DRIVER = "Drivers/C06.lean"
THEOREMS = ["Ebv.C06.invariant", "Ebv.C06.no_lost_update", "Ebv.C06.cell_in_range", "Ebv.C06.racy_loses",
            # translation validation: every member of the regenerated table of 420 real statements has the shape the schedule model assumes
            "Ebv.C06TV.table_shape", "Ebv.C06TV.table_syntax", "Ebv.C06TV.table_covers", "Ebv.C06TV.table_ok",
            "Ebv.C06TV.pre_private", "Ebv.C06TV.xadd_on_variable", "Ebv.C06TV.post_private", "Ebv.C06TV.stmt_run",
            "Ebv.C06TV.table_run", "Ebv.C06TV.stmt_is_step", "Ebv.C06TV.real_sum", "Ebv.C06TV.real_no_lost_update",
            "Ebv.C06TV.amountZ_oracle", "Ebv.C06TV.exLay", "Ebv.C06TV.exLayCom", "Ebv.C06TV.exLayLoc"]
REGEN_OBLIGATIONS = ["the 420 statements regenerated into Ebv.Generated.ProgramsXadd (formats x memory/address kinds x amount kinds x constants) are "
                     "'private computation; one XADD on the variable; no load anywhere' and one run is one Xadd.stepThread (re-proved against the code emitted now)"]
TRUSTED = ["translation validation by proof (Ebv.C06TV.table_shape/xadd_on_variable/stmt_is_step/real_no_lost_update): for the regenerated table "
           "the real bytecode is proved, under Ebv.Ebpf + Ebv.XdpRun.runXdp, to be pre ++ [XADD on the variable's address and width, source = amount] ++ "
           "post with no load instruction at all, pre/post not touching the variable, and one run = one step of the schedule model; non-interference "
           "is between runs (memories differing on the variable), the instruction-level part is the syntactic one (exactly one XADD, no LD/LDX)",
           "hand-written schedule model Ebv.Xadd; the tie is the shape check of the real emitted code (one XADD on the variable, no other access) "
           "re-done on every run for the whole family, plus interleaved execution of the real code in harness/vh/interp.py",
           "harness/vh/interp.py executes XADD as one atomic step"]
ASSUMPTIONS = ["the kernel/CPU executes BPF_XADD (atomic add) atomically", "each instance has private registers and stack; only map memory is shared",
               "local (stack) variables are per instance, so for them only the single-instance statement is checked"]
RULE = ("family = {i,I,q,Q,x} x {constant, register, expression} x {+=,-=} x {declared map variable, m?[base+const], m?[base+register]} on shared array-map memory (and a local variable, single instance); "
        "2-3 instances, random initial values and amounts (boundary and random), schedules: random interleavings at instruction granularity plus every "
        "order of the XADD instructions; non-trivial = schedule in which another instance runs between an instance's amount computation and its XADD")

FAMILY = [(f, k, s) for f in "iIqQx" for k in ("const", "reg", "expr") for s in (1, -1)]
# how the shared variable is addressed: declared map variable, m?[base + const], m?[base + register] (computed address)
ADDR_KINDS = ("var", "sum", "computed")
_cache = {}


def build(fmt, kind, sign, const, local=False, addr="var", percpu=False):
    key = (fmt, kind, sign, const, local, addr, percpu)
    if key in _cache:
        return _cache[key]
    from ebpfcat.ebpf import EBPF, LocalVar
    from ebpfcat.arraymap import ArrayMap, PerCPUArrayMap

    def program(self):
        self.owners.add(8)
        amt = {"const": const, "reg": self.r8, "expr": self.r8 * 3 + const}[kind]
        if addr == "var":
            if sign > 0:
                self.v += amt
            else:
                self.v -= amt
        else:
            arr = {"i": self.mi, "I": self.mI, "q": self.mq, "Q": self.mQ, "x": self.mx}[fmt]
            if addr == "sum":
                a = self.r7 + self.__dict__["v"]
            else:
                self.owners.add(6)          # r6 holds the variable's offset (set by the environment)
                a = self.r7 + self.r6
            if sign > 0:
                arr[a] += amt
            else:
                arr[a] -= amt
        self.other = 1
        self.r0 = 0
        self.exit()

    ns = {"program": program}
    if local:
        ns["v"] = LocalVar(fmt)
        ns["other"] = LocalVar("I")
    else:
        m = PerCPUArrayMap() if percpu else ArrayMap()     # per-CPU: the instances of one CPU share the CPU's copy
        ns["m"] = m
        ns["v"] = m.globalVar(fmt)
        ns["other"] = m.globalVar("I")
    cls = type("P", (EBPF,), ns)
    with fsim.fake_maps() as created:
        e = cls()
        e.assemble()
    info = {"insns": list(e.opcodes), "fd": created[0][0] if created else None,
            "size": created[0][1][2] if created else None,
            "off": e.__dict__["v"] if not local else cls.__dict__["v"].relative_addr,
            "off_other": e.__dict__["other"] if not local else cls.__dict__["other"].relative_addr}
    _cache[key] = info
    return info


class LoggingMachine(interp.Machine):
    """records which instruction touches which bytes"""
    def __init__(self, *a, **k):
        super().__init__(*a, **k)
        self.accesses = []

    def load(self, addr, size):
        self.accesses.append((self.pc, addr, size))
        return super().load(addr, size)

    def store(self, addr, size, val):
        self.accesses.append((self.pc, addr, size))
        return super().store(addr, size, val)


def shape(info, fmt, local, r3=5):
    """run one instance alone: exactly one XADD executes, it is on the variable, with the variable's width, and no other
    instruction touches the variable's bytes (so everything before it is private computation)"""
    n = 4 if fmt in "iI" else 8
    regions, helpers, mp = [], {}, None
    if info["fd"] is not None:
        mp = interp.ArrayMapModel(info["fd"], info["size"])
        regions, helpers = [mp.value], interp.std_helpers({info["fd"]: mp})
    m = LoggingMachine(info["insns"], regions, helpers)
    m.wr(1, 0)
    m.wr(8, r3)
    m.wr(6, info["off"])
    try:
        m.run()
    except interp.Fault as e:
        return f"fault: {e}"
    cell = (interp.STACK_TOP if local else mp.value.base) + info["off"]
    xs = [pc for pc in m.trace if (m.insns[pc][0] & 0xe7) == 0xc3]
    if len(xs) != 1:
        return f"{len(xs)} XADD instructions executed"
    touching = [(pc, a, sz) for pc, a, sz in m.accesses if a < cell + n and cell < a + sz]
    if any(pc != xs[0] for pc, _, _ in touching):
        return f"instruction {[pc for pc, _, _ in touching if pc != xs[0]][0]} accesses the variable besides the XADD"
    if not touching or any((a, sz) != (cell, n) for _, a, sz in touching):
        return f"XADD is not on the variable (accesses {touching[:2]}, variable at {cell:#x}+{n})"
    return None


def make_threads(info, fmt, n, r3s):
    mp = interp.ArrayMapModel(info["fd"], info["size"])
    ms = []
    for r3 in r3s:
        m = interp.Machine(info["insns"], [mp.value], interp.std_helpers({info["fd"]: mp}))
        m.wr(1, 0)
        m.wr(8, r3)
        m.wr(6, info["off"])
        m.pc = 0
        m.exited = False
        ms.append(m)
    return mp, ms


def run_sched(ms, sched):
    for i in sched:
        m = ms[i]
        if m.exited:
            continue
        if m.step() is not None:
            m.exited = True


def amount_of(fmt, kind, sign, const, r3, bits):
    a = {"const": const, "reg": r3, "expr": r3 * 3 + const}[kind]
    if fmt == "x":
        a *= 100000
    return (sign * a) % (1 << bits)


def run(ctx):
    rng = ctx.rng
    cases, impl = [], []
    for fmt, kind, sign in FAMILY:
        bits = 32 if fmt in "iI" else 64
        for _ in range(ctx.n(4, 60)):
            const = rng.choice([0, 1, 5, 255, 1000, 0x7fffffff // 100000 if fmt == "x" else 0x7fffffff])
            addr = rng.choice(ADDR_KINDS)
            info = build(fmt, kind, sign, const, addr=addr)
            bad = shape(info, fmt, False)
            scase = {"fmt": fmt, "amount": kind, "sign": sign, "const": const, "addr": addr}
            ctx.require(bad is None, "emitted code is not 'private computation; one XADD on the variable'", scase, bad, "shape")
            if bad is not None:
                continue
            nthreads = rng.choice([2, 3])
            r3s = [rng.choice([0, 1, 2, 0xffff, 0x7fffffff, (1 << 32) - 1, (1 << 63), (1 << 64) - 1]) if rng.random() < 0.5
                   else rng.getrandbits(rng.choice([8, 32, 64])) for _ in range(nthreads)]
            init = rng.choice([0, 1, (1 << bits) - 1, (1 << (bits - 1)), rng.getrandbits(bits)])
            # solo runs: number of instructions before the XADD on each instance's path
            pres = []
            for r3 in r3s:
                mp, (m,) = make_threads(info, fmt, 1, [r3])
                m.run()
                xi = [i for i, ins in enumerate(info["insns"]) if (ins.opcode.value & 0xe7) == 0xc3][0]
                pres.append(m.trace.index(xi))
            total = max(len(info["insns"]) + 3, 30)
            scheds = []
            for _ in range(ctx.n(3, 10)):
                s = [i for i in range(nthreads) for _ in range(total)]
                rng.shuffle(s)
                scheds.append(s)
            for perm in itertools.permutations(range(nthreads)):
                # all run up to their XADD, then the XADDs in this order, then the rest
                s = [i for i in range(nthreads) for _ in range(pres[i])] + list(perm) + [i for i in range(nthreads) for _ in range(total)]
                scheds.append(s)
            amounts = [amount_of(fmt, kind, sign, const, r3, bits) for r3 in r3s]
            for s in scheds:
                mp, ms = make_threads(info, fmt, nthreads, r3s)
                struct.pack_into("<Q" if bits == 64 else "<I", mp.value.data, info["off"], init)
                try:
                    run_sched(ms, s)
                    final, = struct.unpack_from("<Q" if bits == 64 else "<I", mp.value.data, info["off"])
                    alldone = all(m.exited for m in ms)
                    out = f"{final} {' '.join('1' if (m.exited or m.pc > [i for i, ins in enumerate(info['insns']) if (ins.opcode.value & 0xe7) == 0xc3][0]) else '0' for m in ms)}"
                except interp.Fault as e:
                    final, alldone, out = None, False, f"fault:{e}"
                case = {"bits": bits, "sched": s, "cell": init, "threads": [[p, a] for p, a in zip(pres, amounts)],
                        "stmt": scase, "r3": r3s}
                ctx.case({k: case[k] for k in ("bits", "cell", "threads", "stmt")} | {"schedule_len": len(s)},
                         nontrivial=True, kind=f"{fmt}-{kind}-{addr}")
                if alldone:
                    ctx.require(final == (init + sum(amounts)) % (1 << bits), "an update was lost (final value is not initial + sum of all amounts)",
                                case, out, "lost")
                else:
                    ctx.require(final is not None, "execution fault", case, out, "fault")
                cases.append(case); impl.append(out)
        # local variable of the same format: single-instance statement
        const = 7
        info = build(fmt, kind, sign, const, local=True)
        bad = shape(info, fmt, True)
        ctx.require(bad is None, "local variable: emitted code is not one XADD on the variable", {"fmt": fmt, "amount": kind, "sign": sign, "const": const, "local": True}, bad, "shape")
        # variable of a per-CPU array map (the instances running on one CPU share that CPU's copy): same statement shape
        info = build(fmt, kind, sign, const, percpu=True)
        bad = shape(info, fmt, False)
        ctx.case({"fmt": fmt, "amount": kind, "sign": sign, "percpu": True}, kind=f"{fmt}-{kind}-percpu")
        ctx.require(bad is None, "per-CPU map variable: emitted code is not 'private computation; one XADD on the variable'",
                    {"fmt": fmt, "amount": kind, "sign": sign, "const": const, "percpu": True}, bad, "shape")
    model = ctx.drive(DRIVER, [{k: c[k] for k in ("bits", "sched", "cell", "threads")} for c in cases], "xadd schedules")
    if model is not None:
        for c, i, m in zip(cases, impl, model):
            ctx.agree("interleaved in-place additions", c, i, m)


def replay(ctx, case):
    if "stmt" not in case:          # a shape case: re-generate the statement and look at it again
        local = bool(case.get("local"))
        info = build(case["fmt"], case["amount"], case.get("sign", 1), case.get("const", 7), local=local, addr=case.get("addr", "var"),
                     percpu=bool(case.get("percpu")))
        bad = shape(info, case["fmt"], local)
        ctx.require(bad is None, "emitted code is not 'private computation; one XADD on the variable'", case, bad, "shape")
        return {"shape": bad or "ok"}
    st = case["stmt"]
    info = build(st["fmt"], st["amount"], st["sign"], st["const"], addr=st.get("addr", "var"))
    bits = case["bits"]
    mp, ms = make_threads(info, st["fmt"], len(case["r3"]), case["r3"])
    struct.pack_into("<Q" if bits == 64 else "<I", mp.value.data, info["off"], case["cell"])
    run_sched(ms, case["sched"])
    final, = struct.unpack_from("<Q" if bits == 64 else "<I", mp.value.data, info["off"])
    amounts = [a for _, a in case["threads"]]
    if all(m.exited for m in ms):
        ctx.require(final == (case["cell"] + sum(amounts)) % (1 << bits), "an update was lost", case, str(final), "lost")
    return {"final": final}


LEVEL_TEXT = ("Translation validation by proof of 420 regenerated statements (each is private computation + exactly one XADD on the variable + no load; "
              "one run = one step of the schedule model) + Lean 4 proof over a schedule model: for any number of instances and any interleaving at instruction granularity, code of the shape "
              "'private computation of the amount; one atomic XADD on the variable' keeps 'cell + amounts not yet added' invariant modulo 2^width, so "
              "once all instances completed the variable has changed by exactly the sum of all amounts. Tie: for every member of the statement family the "
              "real emitted code is re-generated each run and checked to have that shape (one XADD on the variable's address, no other access), and "
              "2-3 instances of the real code are executed under random and critical schedules and compared with the Lean schedule fold.")
LEVEL_NOTE = ("trusted: Lean kernel + standard axioms; atomicity of BPF_XADD in the kernel/CPU is assumed (cannot be exhibited by a model); shape check and "
              "interpreter in the trusted base; formats without XADD (byte-order prefixes, 1/2-byte) are outside the property's family (racy_loses shows why)")
TECHNIQUE = "Lean 4 invariant proof over schedules (unbounded instances/interleavings) + shape check and interleaved execution of the real code"
DESIGN_REF = "§4 C06"
