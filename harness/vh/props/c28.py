"""C28 — serial channels transfer bytes exactly once, in order.
A real `Serial` device object runs unmodified: its pipes are the real non-blocking pipes it creates
itself, its TerminalVars are the real `PacketVar`s of a real `EL6002.Channel` over a bytearray owned
by a minimal stand-in sync group.  The other end of the process image is a Python EL6002 channel
simulator driven by oracle lists (init delay, accept delays, receive plan); the harness plays the
application (writes into the transmit pipe, drains the receive pipe every cycle).  Per cycle the
toggle bits, out_string, bytes delivered, bytes taken from the transmit pipe and the chunks the
terminal accepted/announced are compared with the Lean model `Ebv.Serial` under the same oracles; the
property text is evaluated on those observations.  Every case ends with a drain phase (no writes,
terminal without delays, enough cycles for everything outstanding) after which every byte the
application wrote must have been accepted (a stalled handshake is a failure, not just a shorter run)."""
import fcntl
import os
import random
import struct
import termios

ID = "C28"
LEAN_MODULES = ["Ebv.Props.C28"]
MODEL_MODULES = ["Ebv.Model.Serial"]
DRIVER = "Drivers/C28.lean"
THEOREMS = [
    "Ebv.C28.tx_exactly_once_in_order", "Ebv.C28.tx_held_until_accepted", "Ebv.C28.rx_exactly_once_in_order",
    "Ebv.C28.rx_each_cycle", "Ebv.C28.one_toggle_each", "Ebv.C28.one_toggle_each_count", "Ebv.C28.both_directions",
    "Ebv.C28.unpack_pack", "Ebv.C28.readMax_le_cap", "Ebv.C28.inv_final",
    "Ebv.C28.drain_empties", "Ebv.C28.drain_transfers_everything",
]
TRUSTED = ["hand-written model Ebv.Serial of Serial.update and of one EL6002 channel, tied by exact per-cycle correspondence "
           "(toggle bits, out_string, delivered bytes, chunk read, chunks accepted/announced, current_transmit, unread pipe bytes)",
           "harness/vh/props/c28.py: stand-in sync group (current_data + pdo_assign only), Python EL6002 channel simulator following "
           "the same oracle lists and working on the raw process-image bytes (hardware layout: length byte + 22 data bytes, HW_DATA); real PacketVar/TerminalVar/EL6002.Channel descriptors, real os.pipe2 pipes, FIONREAD for the pipe level",
           "23p size, os.read chunk size and init marker regenerated into Ebv.Generated.Consts by probing the real classes"]
ASSUMPTIONS = ["the output image of the channel is zero when the device starts (a freshly assembled packet) and outputs persist from "
               "cycle to cycle (the slow group copies the returned frame over current_data)",
               "the terminal follows the EL6002 handshake: init_accept after init_request, data exchange only after init_request was cleared; "
               "it toggles transmit_accept once per noticed toggle of transmit_request after 0..k cycles, and announces a chunk "
               "(in_string, then one toggle of receive_request) only after the previous one was acknowledged",
               "pipe atomicity: a non-blocking read of at most 22 bytes returns the first min(22, available) bytes; the application keeps "
               "reading its receive pipe and never fills the transmit pipe (64 KiB)",
               "one cycle = terminal processes the previous outputs, then update() runs once on the inputs it presents"]
RULE = ("cases = channel (1|2) x initial status bits/in_string x init delay 0..5 x accept delays 0..5 (rarely 6..12) x receive plan "
        "(idle 0..5 cycles, chunk of 0..22 bytes incl. empty and full, rarely longer so that 23p truncates) x per-cycle application "
        "writes of 1..100 bytes (split across 22-byte reads) x 20..140 cycles, followed by a drain phase (no writes, terminal without "
        "delays, one cycle per possible chunk + slack) after which everything written must have been accepted; "
        "non-trivial = chunks accepted and chunks delivered in the same run")

# The EL6002 hardware (not /repo): per channel one status/control byte, then one length byte and 22 data bytes.
# The simulator and the oracle use these raw bytes, never the struct format of the descriptors under test.
HW_DATA = 22
HW_STR = 1 + HW_DATA


def hw_encode(chunk):
    """what the terminal puts on the bus for a chunk: length byte, data, zero padding"""
    chunk = bytes(chunk[:HW_DATA])
    return bytes([len(chunk)]) + chunk + bytes(HW_DATA - len(chunk))


def hw_decode(raw):
    """what the terminal takes out of the 23 raw bytes the master sent"""
    return bytes(raw[1:1 + min(raw[0], HW_DATA)])


BITS_IN = ("transmit_accept", "receive_request", "init_accept")
BITS_OUT = ("transmit_request", "receive_accept", "init_request")


class Group:
    """what PacketVar/TerminalVar need from a slow sync group"""
    def __init__(self, terminal, data, in_base, out_base):
        from ebpfcat.ethercat import SyncManager
        self.current_data = data
        self.pdo_assign = {terminal: {SyncManager.IN: in_base, SyncManager.OUT: out_base}}


class Image:
    """the terminal's view of the process image: positions come from the real EL6002.Channel descriptors"""
    def __init__(self, data, chan, in_base, out_base):
        from ebpfcat.terminals import EL6002
        from ebpfcat.ethercat import SyncManager
        self.data = data
        sd = EL6002.__dict__[f"channel{chan}"]
        cls = sd.struct
        base = {SyncManager.IN: in_base + sd.position_offset[SyncManager.IN],
                SyncManager.OUT: out_base + sd.position_offset[SyncManager.OUT]}
        self.pos = {}
        for nm in BITS_IN + BITS_OUT + ("in_string", "out_string"):
            d = cls.__dict__[nm]
            self.pos[nm] = (base[d.sm] + d.position, d.size)
        self.strsize = HW_STR      # raw bytes of the hardware, whatever format the descriptors declare

    def bit(self, nm):
        p, b = self.pos[nm]
        return bool(self.data[p] >> b & 1)

    def setbit(self, nm, v):
        p, b = self.pos[nm]
        if v:
            self.data[p] |= 1 << b
        else:
            self.data[p] &= ~(1 << b) & 0xff

    def raw(self, nm):
        p, _ = self.pos[nm]
        return bytes(self.data[p:p + self.strsize])

    def setraw(self, nm, raw):
        p, _ = self.pos[nm]
        assert len(raw) == self.strsize
        self.data[p:p + self.strsize] = raw

    def outside(self):
        """the whole image with this channel's three control bits and its out_string blanked"""
        d = bytearray(self.data)
        for nm in BITS_OUT:
            q, b = self.pos[nm]
            d[q] &= ~(1 << b) & 0xff
        q, _ = self.pos["out_string"]
        d[q:q + self.strsize] = bytes(self.strsize)
        return bytes(d)


class Sim:
    """EL6002 channel, same rules as Ebv.Serial.Term.step"""
    def __init__(self, case):
        self.phase = "idle"
        self.init_wait = case["initWait"]
        self.ta, self.seen_tr, self.wait, self.delays = case["ta0"], False, None, list(case["txDelays"])
        self.rr, self.in_str, self.seen_ra, self.outstanding = case["rr0"], bytes.fromhex(case["in0"]), False, False
        self.plan = [[d, bytes.fromhex(c)] for d, c in case["rxPlan"]]

    def drain(self):
        """same as Ebv.Serial.Term.drain: from now on no delays"""
        self.init_wait = 0
        self.delays = []
        if self.wait is not None:
            self.wait = 0
        for e in self.plan:
            e[0] = 0

    def step(self, tr, ra, ir, out_str):
        accepted = announced = None
        if self.phase == "idle":
            if ir:
                if self.init_wait == 0:
                    self.phase = "acking"
                else:
                    self.init_wait -= 1
        elif self.phase == "acking":
            if not ir:
                self.phase = "ready"
                self.seen_tr, self.wait = tr, None
                self.seen_ra, self.outstanding = ra, False
        else:
            # transmit direction
            if self.wait is None and tr != self.seen_tr:
                self.wait = self.delays.pop(0) if self.delays else 0
            if self.wait is not None:
                if self.wait == 0:
                    self.ta = not self.ta
                    self.seen_tr = tr
                    self.wait = None
                    accepted = hw_decode(out_str)
                else:
                    self.wait -= 1
            # receive direction
            if self.outstanding and ra != self.seen_ra:
                self.seen_ra, self.outstanding = ra, False
            if not self.outstanding and self.plan:
                if self.plan[0][0] == 0:
                    chunk = self.plan.pop(0)[1]
                    self.in_str = hw_encode(chunk)
                    self.rr = not self.rr
                    self.outstanding = True
                    announced = hw_decode(self.in_str)
                else:
                    self.plan[0][0] -= 1
        return accepted, announced


def unread(fd):
    buf = bytearray(4)
    fcntl.ioctl(fd, termios.FIONREAD, buf)
    return struct.unpack("i", buf)[0]


def drain(fd):
    got = b""
    while True:
        try:
            part = os.read(fd, 65536)
        except BlockingIOError:
            return got
        if not part:
            return got
        got += part


def run_impl(case):
    """list of per-cycle observations (dicts); the last one carries "exc" if update() raised"""
    from ebpfcat.serial import Serial
    from ebpfcat.terminals import EL6002
    rnd = random.Random(case["fill"])
    in_base, out_base = case["layout"]
    data = bytearray(rnd.randrange(256) for _ in range(case["size"]))
    term = EL6002.__new__(EL6002)
    chan = getattr(term, f"channel{case['chan']}")
    img = Image(data, case["chan"], in_base, out_base)
    # this channel's outputs start at zero (freshly assembled packet)
    for nm in BITS_OUT:
        img.setbit(nm, False)
    img.setraw("out_string", bytes(img.strsize))
    sim = Sim(case)
    dev = Serial(chan)
    fds = [dev.in_read, dev.in_write, dev.out_read, dev.out_write]
    obs = []
    try:
        dev.sync_group = Group(term, data, in_base, out_base)
        nmain = len(case["writes"])
        for k, w in enumerate(case["writes"] + [""] * case["drain"]):
            w = bytes.fromhex(w)
            if k == nmain:
                sim.drain()
            accepted, announced = sim.step(img.bit("transmit_request"), img.bit("receive_accept"),
                                           img.bit("init_request"), img.raw("out_string"))
            for nm, v in zip(BITS_IN, (sim.ta, sim.rr, sim.phase == "acking")):
                img.setbit(nm, v)
            img.setraw("in_string", sim.in_str)
            before = unread(dev.out_read)
            if w:
                assert os.write(dev.out_write, w) == len(w)
            keep = img.outside()
            o = {"w": w, "accepted": accepted, "announced": announced, "drain": k >= nmain, "plan_left": len(sim.plan),
                 "inp": (sim.ta, sim.rr, sim.phase == "acking")}
            try:
                dev.update()
            except Exception as e:     # noqa: the property says nothing raises; reported by the oracle
                o["exc"] = type(e).__name__
                obs.append(o)
                break
            after = unread(dev.out_read)
            o.update(out=(img.bit("transmit_request"), img.bit("receive_accept"), img.bit("init_request")),
                     out_str=img.raw("out_string"), delivered=drain(dev.in_read),
                     consumed=before + len(w) - after, unread=after,
                     pending=dev.current_transmit, kept=keep == img.outside())
            obs.append(o)
    finally:
        for fd in fds:
            try:
                os.close(fd)
            except OSError:
                pass
    return obs


def b01(b):
    return "1" if b else "0"


def opt(c):
    return "-" if c is None else "x" + bytes(c).hex()


def show(case, obs):
    stream = b"".join(bytes.fromhex(w) for w in case["writes"])
    pos = 0
    out = []
    for o in obs:
        if "exc" in o:
            out.append("exception:" + o["exc"])
            break
        rd = None
        if o["consumed"] > 0:
            rd = stream[pos:pos + o["consumed"]]
            pos += o["consumed"]
        out.append(" ".join(["".join(b01(x) for x in o["out"] + o["inp"]), o["out_str"].hex(), "d" + o["delivered"].hex(),
                             "r" + opt(rd), "a" + opt(o["accepted"]), "n" + opt(o["announced"]),
                             "p" + opt(o["pending"]), str(o["unread"])]))
    return " | ".join(out)


# ---------------------------------------------------------------- property oracle
def oracle(ctx, case, obs):
    """the property text on what terminal and application see; nothing here comes from the model"""
    view = show(case, obs)
    cap = HW_DATA
    written = b""          # everything the application wrote so far
    taken = 0              # bytes the device took out of the transmit pipe
    acc = []               # chunks the terminal accepted
    ann = []               # chunks the terminal announced
    tr_toggles = ra_toggles = 0
    prev_tr = prev_ra = False
    got = b""              # everything the application read from its receive pipe
    marker_seen = False
    held = None            # out_string as it was when the pending request was made
    prev_out_str = bytes(cap + 1)
    connected = False

    def req(cond, what, cls):
        return ctx.require(cond, what, case, view, cls)

    for k, o in enumerate(obs):
        if "exc" in o:
            req(False, f"update() raised {o['exc']} in cycle {k}", "exception")
            return
        written += o["w"]
        ok = True
        # ---- transmit direction: the terminal acts on the image of the previous cycle
        if o["accepted"] is not None:
            if held is not None:
                ok &= req(prev_out_str == held, "out_string changed while the request was waiting for transmit_accept", "tx-held")
            acc.append(o["accepted"])
            held = None
        elif held is not None:
            ok &= req(prev_out_str == held, "out_string changed while the request was waiting for transmit_accept", "tx-held")
        tr, ra, ir = o["out"]
        taken += o["consumed"]
        if tr != prev_tr:
            tr_toggles += 1
            ok &= req(0 < o["consumed"] <= cap, "transmit_request toggled without a chunk of 1..22 bytes read from the pipe", "tx-toggle")
            held = o["out_str"]
        else:
            ok &= req(o["consumed"] == 0, "bytes were taken from the transmit pipe without a toggle of transmit_request", "tx-toggle")
        joined = b"".join(acc)
        ok &= req(joined == written[:len(joined)], "bytes accepted by the terminal are not the bytes the application wrote, "
                  "once each and in order", "tx-stream")
        ok &= req(len(acc) <= tr_toggles <= len(acc) + 1, "not exactly one toggle of transmit_request per chunk", "tx-toggle")
        in_flight = hw_decode(o["out_str"]) if tr_toggles == len(acc) + 1 else b""
        ok &= req(written[:taken] == joined + in_flight, "bytes taken from the transmit pipe are neither accepted nor held in out_string",
                  "tx-lost")
        # ---- receive direction
        if o["announced"] is not None:
            ann.append(o["announced"])
        if ra != prev_ra:
            ra_toggles += 1
        d = o["delivered"]
        if o["inp"][2] and not connected:
            connected = True
            ok &= req(d[:1] == b"A" and not marker_seen, "no init marker when the terminal accepted the initialisation", "init")
            marker_seen = True
            d = d[1:]
        got += d
        ok &= req(len(ann) - 1 <= ra_toggles <= len(ann), "not exactly one toggle of receive_accept per announced chunk", "rx-toggle")
        ok &= req(got == b"".join(ann[:ra_toggles]), "bytes delivered to the application are not the acknowledged chunks, once each "
                  "and in order", "rx-stream")
        if not connected:
            ok &= req(not tr and not ra and o["consumed"] == 0 and not d, "data exchange before initialisation finished", "init")
        else:
            ok &= req(not ir, "init_request set after the initialisation", "init")
        ok &= req(o["kept"], "update() changed process data outside its channel", "other-bytes")
        prev_tr, prev_ra, prev_out_str = tr, ra, o["out_str"]
        if not ok:
            return
    # ---- after the drain phase (no further writes, terminal without delays, enough cycles for everything
    # outstanding) every chunk read from the application pipe has been announced and transferred
    if obs and len(obs) == len(case["writes"]) + case["drain"]:
        o = obs[-1]
        req(b"".join(acc) == written and o["pending"] is None and o["unread"] == 0,
            "transmit direction stalled: bytes the application wrote were never accepted by the terminal "
            f"({len(written) - len(b''.join(acc))} missing, {o['unread']} unread in the pipe, "
            f"current_transmit {'set' if o['pending'] is not None else 'empty'})", "tx-stall")
        req(o["plan_left"] == 0 and ra_toggles == len(ann),
            "receive direction stalled: announced chunks were never acknowledged", "rx-stall")


# ---------------------------------------------------------------- generators
def drain_len(writes, plan, init_wait):
    """cycles that suffice without delays: connect, one cycle per chunk (a chunk ends at 22 bytes or where the
    pipe ran empty, i.e. at most once per write), one per planned receive chunk, and some slack"""
    total = sum(len(w) // 2 for w in writes)
    return init_wait + 6 + (total + 21) // 22 + sum(1 for w in writes if w) + len(plan)


def gen(rng, maxcycles):
    kind = rng.choices(["both", "both-busy", "tx", "rx", "idle"], [50, 25, 10, 10, 5])[0]
    n = rng.randrange(20, maxcycles + 1)
    chan = rng.choice([1, 2])
    big = rng.random() < 0.1
    txd = [rng.randrange(6, 13) if big and rng.random() < 0.3 else rng.randrange(0, 6) for _ in range(rng.randrange(0, 2 * n))]
    if rng.random() < 0.15:
        txd = [0] * len(txd)
    plan = []
    if kind in ("both", "both-busy", "rx"):
        for _ in range(rng.randrange(1, n // 2 + 2)):
            r = rng.random()
            ln = 0 if r < 0.12 else 22 if r < 0.3 else rng.randrange(23, 31) if r < 0.33 else 21 if r < 0.4 else rng.randrange(1, 23)
            d = 0 if kind == "both-busy" and rng.random() < 0.7 else rng.randrange(0, 6)
            plan.append([d, bytes(rng.randrange(1, 256) for _ in range(ln)).hex()])
    writes = []
    p = {"both": 0.25, "both-busy": 0.6, "tx": 0.3, "rx": 0.0, "idle": 0.0}[kind]
    total = 0
    for _ in range(n):
        if rng.random() < p and total < 30000:
            r = rng.random()
            ln = (1 if r < 0.07 else 21 if r < 0.12 else 22 if r < 0.2 else 23 if r < 0.25 else 44 if r < 0.3 else 100 if r < 0.35
                  else rng.randrange(1, 22) if r < 0.65 else rng.randrange(1, 101))
            total += ln
            writes.append(bytes(rng.randrange(1, 256) for _ in range(ln)).hex())
        else:
            writes.append("")
    in0 = bytes([rng.choice([0, 3, 22, 23, 255, rng.randrange(256)])] + [rng.randrange(256) for _ in range(22)])
    size = 160
    lay = rng.choice([(2, 60), (70, 3), (10, 110), (100, 20)])
    drain = drain_len(writes, plan, 5)
    return {"kind": kind, "drain": drain, "chan": chan, "ta0": rng.random() < 0.5, "rr0": rng.random() < 0.5, "in0": in0.hex(),
            "initWait": rng.randrange(0, 6), "txDelays": txd, "rxPlan": plan, "writes": writes,
            "fill": rng.randrange(1 << 30), "size": size, "layout": list(lay)}


def handmade():
    """full and empty chunks back to back, zero delays, both directions at once from the first ready cycle"""
    full = bytes(range(1, 23)).hex()
    base = {"kind": "hand", "chan": 1, "ta0": False, "rr0": False, "in0": bytes(23).hex(), "initWait": 0,
            "fill": 1, "size": 160, "layout": [2, 60]}
    for c in (
        dict(base, txDelays=[], rxPlan=[[0, full], [0, ""], [0, full], [0, "00"]], writes=[""] * 2 + [bytes(range(100)).hex()] + [""] * 12),
        dict(base, chan=2, ta0=True, rr0=True, txDelays=[5, 0, 5, 0, 3], rxPlan=[[5, ""], [0, full], [5, "ff"]],
             writes=[bytes(range(50)).hex()] + [""] * 6 + ["aa"] * 30),
        dict(base, txDelays=[0, 1, 2, 3, 4, 5], rxPlan=[[0, bytes(range(30)).hex()]] * 3, writes=["ab" * 23] * 40),
        dict(base, initWait=5, txDelays=[2] * 10, rxPlan=[[1, full]] * 10, writes=["01" * 7] * 60),
        dict(base, txDelays=[9] * 3, rxPlan=[[3, full]] * 20, writes=["5a" * 90] * 4),      # ends mid-transfer: drain does the rest
    ):
        yield dict(c, drain=drain_len(c["writes"], c["rxPlan"], c["initWait"]))


def classify(obs):
    na = sum(1 for o in obs if o.get("accepted") is not None)
    nd = sum(1 for o in obs if o.get("announced") is not None)
    return na, nd


def run(ctx):
    maxc = ctx.n(100, 140)
    cases = list(handmade()) + [gen(ctx.rng, maxc) for _ in range(ctx.n(800, 20000))]
    impl = []
    for c in cases:
        obs = run_impl(c)
        impl.append(show(c, obs))
        na, nd = classify(obs)
        ctx.stats["cycles"] += len(obs)
        ctx.stats["chunks-accepted"] += na
        ctx.stats["chunks-announced"] += nd
        for o in obs:
            a = o.get("announced")
            if a is not None:
                ctx.stats["rx-chunk-" + ("empty" if len(a) == 0 else "full" if len(a) == 22 else "partial")] += 1
            a = o.get("accepted")
            if a is not None:
                ctx.stats["tx-chunk-" + ("full" if len(a) == 22 else "partial")] += 1
        ctx.case(c, nontrivial=na > 0 and nd > 0, kind=c["kind"])
        oracle(ctx, c, obs)
    model = ctx.drive(DRIVER, cases, "serial")
    if model is not None:
        for c, i, m in zip(cases, impl, model):
            ctx.agree("serial per-cycle observations", c, i, m)


def replay(ctx, case):
    obs = run_impl(case)
    oracle(ctx, case, obs)
    return {"trace": show(case, obs)}


LEVEL_TEXT = ("Lean 4 proof over a hand-written model of Serial.update composed with an EL6002 channel model: for every init delay, "
              "every list of accept delays, every receive plan, every sequence of application writes and every number of cycles, the "
              "chunks the terminal accepts are exactly the chunks update() read from the transmit pipe, in order, minus at most the one "
              "still held in out_string (and those chunks concatenated with the unread pipe content are the bytes the application wrote); "
              "a pending chunk stays in out_string unchanged until it is accepted; in every cycle the bytes written to the application "
              "pipe are exactly the chunk the terminal announced in that cycle (plus the init marker in the connecting cycle); "
              "transmit_request toggles exactly in the cycles a chunk is read and receive_accept exactly in the cycles a chunk is "
              "announced; progress: once initialisation is over and the terminal answers without delay, n+1 further cycles (22n >= "
              "unread bytes) leave nothing pending and the pipe empty, and the chunks accepted over the whole run are exactly the bytes "
              "written. Tied to /repo by exact per-cycle correspondence of the real Serial object (real pipes, real PacketVars) "
              "against the model under the same oracle lists, and by regenerating 23p size / read size / init marker into the proofs.")
LEVEL_NOTE = ("trusted: Lean kernel + propext/Classical.choice/Quot.sound; hand transcription Ebv.Serial validated (not verified) by "
              "differential runs; EL6002 behaviour is modelled from the handshake description (terminal conformance is assumed, not "
              "checked against hardware); zeroed output image at start; application drains its receive pipe; one update per terminal cycle")
TECHNIQUE = "Lean 4 invariant induction over cycles of the composed master/terminal system + differential per-cycle correspondence"
DESIGN_REF = "§4 C28"
