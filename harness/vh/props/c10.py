"""C10 — user-space map calls never overrun Python buffers.

The library's syscall wrapper `ebpfcat.bpf.bpf` is replaced by an *emulated kernel*
(`EmuKernel`, also used by C09): it decodes the attr struct by the kernel's own layout,
finds the Python object behind every address (the wrappers of `addrof`/`addressof`
register them), measures its length against the geometry the map was created with,
implements array / per-CPU / hash / prog-array map semantics with a configurable number
of possible CPUs, and records a violation on the first call whose buffer is too short.
The real API entry points are then driven on randomly declared maps; command, buffer
lengths and geometry of every call are compared with the Lean model `Ebv.MapCalls`.

Family cases: a map descriptor is a class-level object shared by all instances of a class, of
its subclasses and of the same class given other sub-programs, while each instance creates a
map of its own geometry.  Base/derived classes (adding variables, overriding the Dict) and
sub-program classes are built around one descriptor, 2..5 instances are created in any order,
all kept alive and used afterwards; every command of every instance must go to that instance's
own map and pass buffers sized for the geometry its own declaration implies."""
import asyncio
import contextlib
import ctypes
import errno
import io
import os
import struct

from .. import interp

ID = "C10"
LEAN_MODULES = ["Ebv.Props.C10"]
MODEL_MODULES = ["Ebv.Model.MapCalls"]
DRIVER = "Drivers/C10.lean"
THEOREMS = [
    "Ebv.C10.C10", "Ebv.C10.C10_exact", "Ebv.C10.geometry_positive", "Ebv.C10.percpu_read_exact",
    "Ebv.C10.hashvar_get_needs_eight", "Ebv.C10.mmap_within_value", "Ebv.C10.no_map_no_calls", "Ebv.C10.percpu_online_too_short",
    "Ebv.C10.C10_instances", "Ebv.C10.runHist_eq_spec", "Ebv.C10.use_calls_own", "Ebv.C10.percpu_shared_size_too_short",
    "Ebv.C10.percpu_shared_size_refuted",
]
TRUSTED = ["hand-written model Ebv.MapCalls of the buffer lengths and create_map geometry of every user-space map entry point, tied by exact "
           "correspondence (command, key length, value length, geometry, mmap length) with the real API driven under an emulated kernel",
           "harness/vh/props/c10.py EmuKernel: attr decoding by the kernel's union bpf_attr layout, address registry, map semantics; "
           "command numbers, hash-variable geometry and read length, Dict default size regenerated into Ebv.Generated.Consts"]
ASSUMPTIONS = ["the kernel reads/writes exactly key_size / value_size bytes (per-CPU: roundup8(value_size) x possible CPUs) behind the pointers of "
               "BPF_MAP_LOOKUP/UPDATE/DELETE/GET_NEXT_KEY (uapi contract); a NULL key is allowed for GET_NEXT_KEY only",
               "Structure.data keeps the length the constructor / the library gave it (users do not assign shorter buffers)",
               "register_sync_group is driven on the program array FastEtherCat.connect creates (bus and XDP attach stubbed), randrange scripted",
               "families: derived classes do not declare further variables on an inherited HashMap (HashMap.init then fails for the base class with "
               "AttributeError before any map command: reported, not a buffer question); a sub-program object belongs to one program"]
RULE = ("declarations: array / per-CPU maps with 1..8 variables of any format (possible CPUs 1..130 independent of os.cpu_count(), online <= possible), "
        "hash-variable sets (1..8 variables, all formats incl. x; one 257-variable set), Dicts with 1..6 packed members per structure, sizes 1..40, "
        "lru or not, the program array; call sequences of 1..14 API calls (set/get, read, load/get/set, setitem/getitem/pop/del/iter, register with "
        "0..3 occupied slots); non-trivial = at least one bpf() map command issued; families: one shared array / per-CPU / hash-variable / Dict "
        "descriptor, base class with 0..3 variables, 0..2 derived classes adding 1..4 variables (Dict: overriding key/value/size/lru), 0..2 "
        "sub-program classes with 1..3 variables, 2..5 live instances (class x sub-program multiset) in any creation order, 1..14 calls on any of "
        "them, plus all ordered pairs of five shapes; per-CPU contents distinct per CPU")

CMD = {0: "create", 1: "lookup", 2: "update", 3: "delete", 4: "next", 5: "prog_load", 21: "lookup_delete"}
T_HASH, T_ARRAY, T_PROG_ARRAY, T_PERCPU_ARRAY, T_LRU_HASH = 1, 2, 3, 6, 9
F_MMAPABLE = 1 << 10
FMTS = "bBhHiIqQ"


class Overrun(Exception):
    """a buffer handed to the kernel is shorter than what the kernel accesses"""


class EmuMap:
    def __init__(self, fd, mtype, ks, vs, maxe, flags, ncpu, slot):
        self.fd, self.type, self.ks, self.vs, self.max, self.flags, self.ncpu = fd, mtype, ks, vs, maxe, flags, ncpu
        self.slot = slot
        self.regions = 0
        if mtype == T_ARRAY:
            self.array = [bytearray(vs) for _ in range(maxe)]
        elif mtype == T_PERCPU_ARRAY:
            self.percpu = [[bytearray(vs) for _ in range(maxe)] for _ in range(ncpu)]
        elif mtype in (T_HASH, T_LRU_HASH):
            self.entries = {}          # key bytes -> bytearray(value), insertion ordered
        elif mtype == T_PROG_ARRAY:
            self.progs = {}
        self.bases = {}                # id(bytearray) -> (base, bytearray): program-visible addresses

    @property
    def value_bytes(self):
        """what one user-space lookup/update transfers"""
        if self.type == T_PERCPU_ARRAY:
            return (self.vs + 7) // 8 * 8 * self.ncpu
        return self.vs

    def region(self, data):
        ent = self.bases.get(id(data))
        if ent is None:
            base = interp.MAP_BASE + self.slot * 0x100_0000 + self.regions * 0x2000
            self.regions += 1
            ent = self.bases[id(data)] = (interp.Region(base, data, f"map{self.fd}"), data)
        return ent[0]


class EmuKernel:
    """bpf(2) for maps and program loading, without a kernel"""

    def __init__(self, possible=4, online=None):
        self.possible = possible
        self.online = possible if online is None else online
        self.maps, self.progs = {}, {}
        self.objects = {}              # address -> python object (kept alive: addresses stay unique)
        self.log = []                  # (cmd, fd, keyLen or None, valueLen or None, errno or 0)
        self.created = []              # (fd, type, key_size, value_size, max_entries, flags)
        self.mmaps = []                # (fd, length)
        self.violation = None
        self.next_fd = 40

    # ---- what the wrappers of addrof/addressof feed ------------------------
    def note(self, addr, obj):
        self.objects[addr] = obj
        return addr

    def buffer(self, addr, what):
        if addr not in self.objects:
            raise AssertionError(f"{what}: address {addr:#x} was never passed through addrof/addressof")
        return self.objects[addr]

    @staticmethod
    def length(obj):
        if isinstance(obj, (bytes, bytearray, memoryview)):
            return len(obj)
        return ctypes.sizeof(obj)

    def need(self, obj, n, what, cmd, m):
        have = self.length(obj)
        if have < n:
            msg = (f"{CMD.get(cmd, cmd)} on map fd {m.fd} (type {m.type}, key_size {m.ks}, value_size {m.vs}, possible CPUs {m.ncpu}): "
                   f"{what} buffer is {have} bytes, the kernel accesses {n}")
            if self.violation is None:
                self.violation = msg
            raise Overrun(msg)

    @staticmethod
    def write(obj, data):
        if isinstance(obj, bytearray):
            obj[:len(data)] = data
        else:
            ctypes.memmove(obj, bytes(data), len(data))

    @staticmethod
    def read(obj, n):
        if isinstance(obj, (bytes, bytearray, memoryview)):
            return bytes(obj[:n])
        return ctypes.string_at(obj, n)

    # ---- the system call ------------------------------------------------------
    def bpf(self, cmd, fmt, *args):
        attr = struct.pack(fmt, *args)
        ret = self.syscall(cmd, attr)
        return ret, struct.unpack(fmt, attr)

    def fail(self, cmd, fd, kl, vl, err):
        self.log.append((cmd, fd, kl, vl, err))
        raise OSError(err, os.strerror(err))

    def syscall(self, cmd, attr):
        attr = attr + bytes(128)
        if cmd == 0:
            mtype, ks, vs, maxe, flags = struct.unpack_from("<IIIII", attr, 0)
            bad = maxe == 0 or (mtype in (T_HASH, T_LRU_HASH) and (ks == 0 or vs == 0)) \
                or (mtype in (T_ARRAY, T_PERCPU_ARRAY, T_PROG_ARRAY) and (ks != 4 or vs == 0)) \
                or (mtype == T_PROG_ARRAY and vs != 4) \
                or mtype not in (T_HASH, T_LRU_HASH, T_ARRAY, T_PERCPU_ARRAY, T_PROG_ARRAY) \
                or (flags & F_MMAPABLE and mtype != T_ARRAY)
            self.created.append((None if bad else self.next_fd, mtype, ks, vs, maxe, flags))
            if bad:
                raise OSError(errno.EINVAL, os.strerror(errno.EINVAL))
            fd = self.next_fd
            self.next_fd += 1
            self.maps[fd] = EmuMap(fd, mtype, ks, vs, maxe, flags, self.possible, len(self.maps))
            return fd
        if cmd == 5:
            ptype, cnt, insns, lic = struct.unpack_from("<IIQQ", attr, 0)
            code = self.buffer(insns, "prog_load insns")
            if self.length(code) < 8 * cnt:
                raise Overrun(f"prog_load: {cnt} instructions announced, buffer has {self.length(code)} bytes")
            fd = self.next_fd
            self.next_fd += 1
            self.progs[fd] = [(op, regs & 15, regs >> 4, off, imm)
                              for op, regs, off, imm in struct.iter_unpack("<BBhi", self.read(code, 8 * cnt))]
            return fd
        if cmd in (1, 2, 3, 4, 21):
            fd, = struct.unpack_from("<I", attr, 0)
            kaddr, vaddr, flags = struct.unpack_from("<QQQ", attr, 8)
            m = self.maps.get(fd)
            if m is None:
                raise OSError(errno.EBADF, os.strerror(errno.EBADF))
            return self.map_cmd(cmd, m, kaddr, vaddr, flags)
        raise OSError(errno.EINVAL, f"emulated kernel: command {cmd} not supported")

    def map_cmd(self, cmd, m, kaddr, vaddr, flags):
        kobj = None if kaddr == 0 else self.buffer(kaddr, "key")
        kl = None if kobj is None else self.length(kobj)
        if cmd == 4:
            nobj = self.buffer(vaddr, "next_key")
            nl = self.length(nobj)
            if kobj is not None:
                self.need(kobj, m.ks, "key", cmd, m)
            self.need(nobj, m.ks, "next_key", cmd, m)
            keys = self.keys(m)
            key = None if kobj is None else self.read(kobj, m.ks)
            if key in keys:
                i = keys.index(key) + 1
            else:
                i = 0
            if i >= len(keys):
                self.fail(cmd, m.fd, kl, nl, errno.ENOENT)
            self.write(nobj, keys[i])
            self.log.append((cmd, m.fd, kl, nl, 0))
            return 0
        if kobj is None:
            self.fail(cmd, m.fd, kl, None, errno.EFAULT)
        self.need(kobj, m.ks, "key", cmd, m)
        key = self.read(kobj, m.ks)
        if cmd == 3:
            if m.type in (T_HASH, T_LRU_HASH):
                if key not in m.entries:
                    self.fail(cmd, m.fd, kl, None, errno.ENOENT)
                del m.entries[key]
            elif m.type == T_PROG_ARRAY:
                if key not in m.progs:
                    self.fail(cmd, m.fd, kl, None, errno.ENOENT)
                del m.progs[key]
            else:
                self.fail(cmd, m.fd, kl, None, errno.EINVAL)
            self.log.append((cmd, m.fd, kl, None, 0))
            return 0
        vobj = self.buffer(vaddr, "value")
        vl = self.length(vobj)
        self.need(vobj, m.value_bytes, "value", cmd, m)
        if cmd in (1, 21):
            data = self.lookup(m, key)
            if data is None:
                self.fail(cmd, m.fd, kl, vl, errno.ENOENT)
            if cmd == 21:
                if m.type not in (T_HASH, T_LRU_HASH):
                    self.fail(cmd, m.fd, kl, vl, errno.ENOTSUPP if hasattr(errno, "ENOTSUPP") else 524)
                del m.entries[key]
            self.write(vobj, data)
            self.log.append((cmd, m.fd, kl, vl, 0))
            return 0
        # cmd == 2
        err = self.update(m, key, self.read(vobj, m.value_bytes), flags)
        if err:
            self.fail(cmd, m.fd, kl, vl, err)
        self.log.append((cmd, m.fd, kl, vl, 0))
        return 0

    # ---- map semantics (shared with the program side) -----------------------
    def keys(self, m):
        if m.type in (T_HASH, T_LRU_HASH):
            return list(m.entries)
        if m.type == T_PROG_ARRAY:
            return [struct.pack("<I", i) for i in range(m.max)]
        return [struct.pack("<I", i) for i in range(m.max)]

    def lookup(self, m, key):
        if m.type in (T_HASH, T_LRU_HASH):
            v = m.entries.get(key)
            return None if v is None else bytes(v)
        idx, = struct.unpack("<I", key)
        if m.type == T_PROG_ARRAY:
            fd = m.progs.get(key)
            return None if fd is None else struct.pack("<I", fd)
        if idx >= m.max:
            return None
        if m.type == T_ARRAY:
            return bytes(m.array[idx])
        step = (m.vs + 7) // 8 * 8
        return b"".join(bytes(m.percpu[c][idx]).ljust(step, b"\0") for c in range(m.ncpu))

    def update(self, m, key, value, flags):
        """0 or an errno"""
        if flags > 2:
            return errno.EINVAL
        if m.type in (T_HASH, T_LRU_HASH):
            old = m.entries.get(key)
            if old is not None and flags == 1:
                return errno.EEXIST
            if old is None and flags == 2:
                return errno.ENOENT
            if old is not None:
                old[:] = value
                return 0
            if len(m.entries) >= m.max:
                if m.type == T_HASH:
                    return errno.E2BIG
                del m.entries[next(iter(m.entries))]
            m.entries[key] = bytearray(value)
            return 0
        idx, = struct.unpack("<I", key)
        if idx >= m.max:
            return errno.E2BIG
        if flags == 1:
            return errno.EEXIST
        if m.type == T_PROG_ARRAY:
            m.progs[key] = struct.unpack("<I", value)[0]
        elif m.type == T_ARRAY:
            m.array[idx][:] = value
        else:
            step = (m.vs + 7) // 8 * 8
            for c in range(m.ncpu):
                m.percpu[c][idx][:] = value[c * step:c * step + m.vs]
        return 0

    def mmap(self, fd, length, *a, **k):
        m = self.maps[fd]
        self.mmaps.append((fd, length))
        if m.type != T_ARRAY or not m.flags & F_MMAPABLE:
            raise OSError(errno.ENODEV, "map cannot be mapped")
        if length > (m.vs * m.max + 4095) // 4096 * 4096 or length <= 0:
            raise OSError(errno.EINVAL, "mmap length beyond the map")
        if m.max != 1 or length > m.vs:
            raise Overrun(f"mmap of {length} bytes on an array map with value_size {m.vs}")
        return m.array[0]

    # ---- the program side: helpers over the same maps ------------------------
    def run_prog(self, fd, cpu=0, max_steps=200000):
        """execute a loaded program in the independent interpreter; returns (r0 or fault text, machine)"""
        k = self

        def themap(mc):
            p = mc.rd(1)
            m = k.maps.get(p - interp.MAPPTR)
            if m is None:
                raise interp.Fault("r1 is not a map")
            return m

        def attach(mc, m, data):
            r = m.region(data)
            if r not in mc.regions:
                mc.regions.append(r)
            return r.base

        def rdbytes(mc, addr, n):
            r = mc.region(addr, n)
            return bytes(r.data[addr - r.base:addr - r.base + n])

        def h_lookup(mc):
            m = themap(mc)
            key = rdbytes(mc, mc.rd(2), m.ks)
            if m.type in (T_HASH, T_LRU_HASH):
                v = m.entries.get(key)
                return 0 if v is None else attach(mc, m, v)
            idx, = struct.unpack("<I", key)
            if m.type == T_ARRAY:
                return attach(mc, m, m.array[idx]) if idx < m.max else 0
            if m.type == T_PERCPU_ARRAY:
                return attach(mc, m, m.percpu[cpu][idx]) if idx < m.max else 0
            return 0

        def h_update(mc):
            m = themap(mc)
            key = rdbytes(mc, mc.rd(2), m.ks)
            if m.type == T_PERCPU_ARRAY:
                idx, = struct.unpack("<I", key)
                if idx >= m.max:
                    return (-errno.E2BIG) & interp.M64
                m.percpu[cpu][idx][:] = rdbytes(mc, mc.rd(3), m.vs)
                return 0
            val = rdbytes(mc, mc.rd(3), m.vs)
            return (-k.update(m, key, val, mc.rd(4))) & interp.M64

        def h_delete(mc):
            m = themap(mc)
            key = rdbytes(mc, mc.rd(2), m.ks)
            if m.type in (T_HASH, T_LRU_HASH) and key in m.entries:
                del m.entries[key]
                return 0
            return (-errno.ENOENT) & interp.M64

        ctx = interp.Region(interp.CTX_BASE, bytearray(64), "ctx")
        mc = interp.Machine(self.progs[fd], [ctx], {1: h_lookup, 2: h_update, 3: h_delete})
        mc.wr(1, interp.CTX_BASE)
        try:
            return mc.run(max_steps), mc
        except interp.Fault as e:
            return f"FAULT:{e}", mc


@contextlib.contextmanager
def emulated(kernel):
    """install the emulated kernel behind the library's syscall wrapper (no source change)"""
    import ebpfcat.bpf as B
    import ebpfcat.arraymap as A
    real_addrof, real_addressof = B.addrof, B.addressof

    def addrof(ptr):
        return kernel.note(real_addrof(ptr), ptr)

    def addressof(obj):
        a = real_addressof(obj)
        src = getattr(obj, "_objects", None)
        if isinstance(src, memoryview):
            src = src.obj
        return kernel.note(a, src if isinstance(src, (bytearray, memoryview)) else obj)

    def fake_open(path, *a, **k):
        if path == "/sys/devices/system/cpu/possible":
            n = kernel.possible
            txt = "0\n" if n == 1 else (f"0-{n - 1}\n" if n % 3 else f"0,1-{n - 1}\n" if n > 2 else "0-1\n")
            return io.StringIO(txt)
        return open(path, *a, **k)

    saved = [(B, "bpf", B.bpf), (B, "addrof", B.addrof), (B, "addressof", B.addressof), (A, "mmap", A.mmap),
             (os, "cpu_count", os.cpu_count)]
    missing = object()
    saved.append((A, "open", A.__dict__.get("open", missing)))
    saved.append((A, "cpu_count", A.__dict__.get("cpu_count", missing)))
    B.bpf, B.addrof, B.addressof = kernel.bpf, addrof, addressof
    A.mmap = kernel.mmap
    A.open = fake_open
    os.cpu_count = lambda: kernel.online
    if "cpu_count" in A.__dict__:
        A.cpu_count = lambda: kernel.online
    try:
        yield kernel
    finally:
        for mod, name, val in saved:
            if val is missing:
                if name in mod.__dict__:
                    delattr(mod, name)
            else:
                setattr(mod, name, val)


# ---- declarations -> real classes ----------------------------------------------
def make_structure(name, fmts):
    from ebpfcat.ebpf import Structure, Member
    return type(name, (Structure,), {f"m{j}": Member(f) for j, f in enumerate(fmts)})


def build(decl):
    """the EBPF subclass a declaration stands for (class creation may raise)"""
    from ebpfcat.ebpf import EBPF
    from ebpfcat.arraymap import ArrayMap, PerCPUArrayMap
    from ebpfcat.hashmap import HashMap, Dict
    ns = {}
    kind = decl["kind"]
    if kind in ("array", "percpu"):
        mp = ArrayMap() if kind == "array" else PerCPUArrayMap()
        ns["amap"] = mp
        for i, f in enumerate(decl["fmts"]):
            ns[f"v{i}"] = mp.globalVar(f)
    elif kind == "hashvars":
        hm = HashMap()
        ns["hmap"] = hm
        for i, (f, d) in enumerate(decl["vars"]):
            ns[f"hv{i}"] = hm.globalVar(f, d)
    elif kind == "dict":
        ns["tbl"] = Dict(make_structure("Key", decl["key"]), make_structure("Value", decl["value"]),
                         size=decl["size"], lru=decl["lru"])

    def program(self):
        self.r0 = 2
        self.exit()
    ns["program"] = program
    return type("Decl", (EBPF,), ns)


def fmt_values(rng, f):
    n = struct.calcsize(f)
    if f == "x":
        return 0
    lo, hi = (-(1 << (8 * n - 1)), (1 << (8 * n - 1)) - 1) if f.islower() else (0, (1 << (8 * n)) - 1)
    return rng.choice([lo, hi, 0, 1, rng.randint(lo, hi)])


def gen_fmts(rng, lo=1, hi=8, multi=True):
    out = []
    for _ in range(rng.randint(lo, hi)):
        r = rng.random()
        if multi and r < 0.12:
            out.append(rng.choice(["3B", "5H", "17I", "2Q", "7s", "64I"]))
        elif multi and r < 0.2:
            out.append("x")
        else:
            out.append(rng.choice(FMTS))
    return out


def gen_packed(rng, lo=1, hi=6):
    """member formats accepted by Member.__set_name__ (offset multiple of size)"""
    out, pos = [], 0
    for _ in range(rng.randint(lo, hi)):
        ok = [f for f in FMTS if pos % struct.calcsize(f) == 0]
        f = rng.choice(ok)
        out.append(f)
        pos += struct.calcsize(f)
    return out


def gen(rng):
    kind = rng.choice(["array", "percpu", "percpu", "hashvars", "hashvars", "dict", "dict", "dict", "progarray"])
    possible = rng.choice([1, 2, 3, 4, 5, 8, 12, 16, 17, 24, 32, 64, 130])
    online = rng.choice([possible, possible, max(1, possible // 2), 1])
    case = {"possible": possible, "online": online}
    ncalls = rng.randint(1, 14)
    if kind in ("array", "percpu"):
        fmts = gen_fmts(rng)
        if rng.random() < 0.05:
            fmts = []
        case["decl"] = {"kind": kind, "fmts": fmts}
        calls = []
        for _ in range(ncalls):
            if not fmts:
                break
            i = rng.randrange(len(fmts))
            if kind == "array":
                calls.append(["set", i] if rng.random() < 0.5 else ["get", i])
            else:
                calls.append(["read"] if rng.random() < 0.5 else ["item", i, rng.randrange(possible)])
        case["calls"] = calls
    elif kind == "hashvars":
        vs = [[f, fmt_values(rng, f)] for f in gen_fmts(rng, 1, 8, multi=False) ]
        if rng.random() < 0.25:
            vs[rng.randrange(len(vs))] = ["x", 0]
        case["decl"] = {"kind": kind, "vars": vs}
        calls = [["load"]]
        for _ in range(ncalls):
            i = rng.randrange(len(vs))
            calls.append(["get", i] if rng.random() < 0.5 else ["set", i, fmt_values(rng, vs[i][0])])
        case["calls"] = calls
    elif kind == "dict":
        key, value = gen_packed(rng), gen_packed(rng)
        case["decl"] = {"kind": kind, "key": key, "value": value, "size": rng.choice([1, 2, 3, 5, 31, 40]), "lru": rng.random() < 0.2}
        pool = [[fmt_values(rng, f) for f in key] for _ in range(rng.randint(1, 4))]
        calls = []
        for _ in range(ncalls):
            k = rng.choice(pool)
            op = rng.choice(["setitem", "setitem", "getitem", "pop", "popd", "del", "iter"])
            if op == "setitem":
                calls.append([op, k, [fmt_values(rng, f) for f in value]])
            elif op == "iter":
                calls.append([op])
            else:
                calls.append([op, k])
        case["calls"] = calls
    else:
        case["decl"] = {"kind": kind}
        case["calls"] = [["register", rng.randint(0, 3)] for _ in range(rng.randint(1, 3))]
    return case


# ---- the real API under the emulated kernel ---------------------------------------
def fill(obj, vals):
    for j, v in enumerate(vals):
        setattr(obj, f"m{j}", v)
    return obj


def exc_name(e):
    return {"KeyError": "key-error", "IndexError": "index-error", "error": "struct-error", "RuntimeError": "runtime-error",
            "AssembleError": "asm-error", "OSError": "os-error", "StopIteration": "stop-iteration"}.get(type(e).__name__, "other:" + type(e).__name__)


def show_calls(entries):
    return ",".join(f"{c}:{'null' if k is None else k}:{'-' if v is None else v}" for c, fd, k, v, err in entries)


def geo_text(K, only=None):
    return " ".join(f"{t}/{ks}/{vs}/{mx}/{fl}" + ("" if fd is not None else "!") for fd, t, ks, vs, mx, fl in K.created
                    if only is None or t == only) + " mmap=" + ",".join(str(n) for _, n in K.mmaps)


def run_real(case):
    """thorough-tier validation only: the same API calls against the real kernel; returns the outcomes"""
    from ebpfcat.bpf import ProgType
    decl = case["decl"]
    e = build(decl)(ProgType.XDP, "GPL")
    res = []

    for f in [lambda: e.load() and "ok" or "ok"] + [(lambda c=c: do_call(None, e, decl, c)) for c in case["calls"]]:
        try:
            res.append(f())
        except OSError as ex:
            if ex.errno in (errno.EPERM, errno.ENOSYS, errno.EACCES):
                raise
            res.append(exc_name(ex))
        except Exception as ex:
            res.append(exc_name(ex))
    with contextlib.suppress(Exception):
        e.close()
    return res


def kernel_validation(ctx, cases):
    done = same = 0
    for c in cases:
        if c["decl"]["kind"] not in ("dict", "hashvars") or c["decl"].get("lru") or len(c["decl"].get("vars", [])) > 255:
            continue
        c = {**c, "calls": [list(x) for x in c["calls"]]}
        try:
            real = run_real(c)
        except OSError:
            return
        _, _, _, emu = run_impl(c)
        done += 1
        if real == emu:
            same += 1
        else:
            ctx.notes.append(f"kernel validation: emulated and real kernel differ: {c} emu={emu} real={real}"[:1200])
            ctx.broken.append("emulated kernel disagrees with the real kernel")
    ctx.extra["kernel_validation"] = {"sequences_on_real_kernel": done, "agree_with_emulation": same}


def run_impl(case):
    """drive the real entry points; returns (kernel, geometry text, [per call: issued commands], [per call: outcome])"""
    from ebpfcat.bpf import ProgType
    decl = case["decl"]
    K = EmuKernel(case["possible"], case["online"])
    outs, res = [], []

    def attempt(f):
        mark = len(K.log)
        try:
            r = f()
        except Overrun:
            outs.append(show_calls(K.log[mark:]) + "OVERRUN")
            res.append("overrun")
            return False
        except Exception as ex:
            r = exc_name(ex)
        outs.append(show_calls(K.log[mark:]) + (r if r.startswith("=") else ""))
        res.append(r)
        return True

    with emulated(K):
        if decl["kind"] == "progarray":
            try:
                run_progarray(K, case, attempt)
            except Overrun:
                outs.append("OVERRUN")
            return K, geo_text(K, T_PROG_ARRAY).split(" mmap=")[0] + " mmap=", outs, res
        try:
            cls = build(decl)
            e = cls(ProgType.XDP, "GPL")
        except Overrun:
            outs.append("OVERRUN")
            return K, geo_text(K), outs, res
        except Exception as ex:
            outs.append("setup:" + exc_name(ex))
            return K, geo_text(K), outs, res
        if attempt(lambda: e.load() and "ok" or "ok"):
            for c in case["calls"]:
                if not attempt(lambda: do_call(K, e, decl, c)):
                    break
    return K, geo_text(K), outs, res


def sample(f):
    """a value the array-map descriptor accepts for format f"""
    if f == "x":
        return 1
    vals = struct.unpack(f, bytes(struct.calcsize(f)))
    return vals[0] if len(vals) == 1 else vals


def do_call(K, e, decl, c):
    kind = decl["kind"]
    if kind == "array":
        if c[0] == "set":
            setattr(e, f"v{c[1]}", sample(decl["fmts"][c[1]]))
        else:
            getattr(e, f"v{c[1]}")
        return "ok"
    if kind == "percpu":
        if c[0] == "read":
            e.amap.read()
            return f"={len(e.amap.data)}"
        if e.amap.data is None:
            e.amap.read()
        getattr(e, f"v{c[1]}")[c[2]]
        return "ok"
    if kind == "hashvars":
        if c[0] == "load":
            type(e).__dict__["hmap"].load(e)
        elif c[0] == "get":
            getattr(e, f"hv{c[1]}")
        else:
            setattr(e, f"hv{c[1]}", c[2])
        return "ok"
    Key, Value = type(e.tbl.key), type(e.tbl.value)
    op = c[0]
    if op == "setitem":
        e.tbl[fill(Key(), c[1])] = fill(Value(), c[2])
        return "ok"
    if op == "getitem":
        return f"found vlen {len(e.tbl[fill(Key(), c[1])].data)}"
    if op == "pop":
        return f"found vlen {len(e.tbl.pop(fill(Key(), c[1])).data)}"
    if op == "popd":
        r = e.tbl.pop(fill(Key(), c[1]), None)
        return "default" if r is None else f"found vlen {len(r.data)}"
    if op == "del":
        del e.tbl[fill(Key(), c[1])]
        return "ok"
    if op == "iter":
        if K is not None:
            c[1:] = [len(K.maps[e.tbl.fd].entries)]     # environment: entries present when the iteration starts
        return "keys " + str(len([k for k in e.tbl]))
    raise AssertionError(op)


def run_progarray(K, case, attempt):
    """FastEtherCat.connect (bus and attach stubbed) creates the program array; register_sync_group on it"""
    import ebpfcat.ebpfcat as E

    async def nothing(self, *a, **k):
        return None
    missing = object()
    saved = E.EtherCat.connect, E.EtherXDP.__dict__.get("attach", missing), E.lookup_elem, E.randrange
    E.EtherCat.connect = nothing
    E.EtherXDP.attach = nothing
    try:
        ec = E.FastEtherCat.__new__(E.FastEtherCat)
        ec.sync_groups = {}
        ec.addr = ("emu0",)
        asyncio.run(ec.connect())
        class SG:
            file_descriptor = 9

            def load(self):
                pass

            def close(self):
                pass

        def register():
            with ec.register_sync_group(SG()):
                pass
            return "ok"
        for _, occupied, *_ in case["calls"]:
            # occupy slots 0..occupied-1 through the real update_elem, then let randrange walk over them
            for i in range(occupied):
                E.update_elem(ec.programs, struct.pack("<I", i), struct.pack("<I", 7))
            seq = iter(list(range(occupied)) + [occupied + 5] * 3)
            E.randrange = lambda n: next(seq)
            ok = attempt(register)
            for i in range(occupied):
                with contextlib.suppress(Exception):
                    E.delete_elem(ec.programs, struct.pack("<I", i))
            if not ok:
                break
    finally:
        E.EtherCat.connect, E.lookup_elem, E.randrange = saved[0], saved[2], saved[3]
        if saved[1] is missing:
            del E.EtherXDP.attach
        else:
            E.EtherXDP.attach = saved[1]


# ---- several live instances around one shared map descriptor ------------------------
# A map is declared once per class: the descriptor object is shared by all instances of the
# class, of its subclasses and of the same class given other sub-programs, while every
# instance creates a map of its own geometry.  A family case builds the classes, creates the
# listed instances in the listed order, keeps all of them alive and then uses them.

def inst_fmts(fam, inst):
    """declared fact: the variables instance `inst` owns on the shared array map"""
    out = [("e", f"v{j}", f) for j, f in enumerate(fam["base"])]
    k = inst["cls"]
    if k:
        out += [("e", f"d{k - 1}_{j}", f) for j, f in enumerate(fam["derived"][k - 1])]
    for pos, m in enumerate(inst["subs"]):
        out += [(pos, f"s{m}_{j}", f) for j, f in enumerate(fam["subs"][m])]
    return out


def inst_dict(fam, inst):
    k = inst["cls"]
    d = fam["derived"][k - 1] if k else None
    return d or fam["base"]


def build_family(fam):
    """[Base, Derived0, ...], [Sub0, ...], shared descriptor (class creation may raise)"""
    from ebpfcat.ebpf import EBPF, SubProgram
    from ebpfcat.arraymap import ArrayMap, PerCPUArrayMap
    from ebpfcat.hashmap import HashMap, Dict
    kind = fam["map"]

    def program(self):
        self.r0 = 2
        self.exit()
    ns, subs, mp = {"program": program}, [], None
    if kind in ("array", "percpu"):
        mp = ArrayMap() if kind == "array" else PerCPUArrayMap()
        ns["amap"] = mp
        for j, f in enumerate(fam["base"]):
            ns[f"v{j}"] = mp.globalVar(f)
    elif kind == "hashvars":
        mp = HashMap()
        ns["hmap"] = mp
        for j, (f, d) in enumerate(fam["base"]):
            ns[f"hv{j}"] = mp.globalVar(f, d)
    else:
        b = fam["base"]
        ns["tbl"] = Dict(make_structure("Key", b["key"]), make_structure("Value", b["value"]), size=b["size"], lru=b["lru"])
    classes = [type("Base", (EBPF,), ns)]
    for k, d in enumerate(fam.get("derived", [])):
        dns = {}
        if kind in ("array", "percpu"):
            for j, f in enumerate(d):
                dns[f"d{k}_{j}"] = mp.globalVar(f)
        elif kind == "dict" and d is not None:
            dns["tbl"] = Dict(make_structure(f"Key{k}", d["key"]), make_structure(f"Value{k}", d["value"]),
                              size=d["size"], lru=d["lru"])
        classes.append(type(f"Derived{k}", (classes[0],), dns))
    for m, fm in enumerate(fam.get("subs", [])):
        sns = {f"s{m}_{j}": mp.globalVar(f) for j, f in enumerate(fm)}
        sns["program"] = lambda self: None
        subs.append(type(f"Sub{m}", (SubProgram,), sns))
    return classes, subs, mp


def percpu_expect(f, cpu):
    """what a variable of format f reads on a CPU whose bytes are all cpu + 1 (wherever it lies in the value)"""
    if f == "x":
        return struct.unpack("q", bytes([cpu + 1]) * 8)[0] / 100000
    r = struct.unpack(f, bytes([cpu + 1]) * struct.calcsize(f))
    return r[0] if len(r) == 1 else r


def do_fcall(K, fam, L, c):
    """one call `[instance, op, ...]` on a live instance L = {e, subs, inst, fds}"""
    kind, e, op = fam["map"], L["e"], c[1]
    if kind in ("array", "percpu"):
        vs = inst_fmts(fam, L["inst"])
        if kind == "percpu" and op == "read":
            e.amap.read()
            return f"={len(e.amap.data)}"
        holder, name, f = vs[c[2]]
        holder = e if holder == "e" else L["subs"][holder]
        if kind == "array":
            if op == "set":
                setattr(holder, name, sample(f))
            else:
                getattr(holder, name)
            return "ok"
        if e.amap.data is None:
            e.amap.read()
        got = getattr(holder, name)[c[3]]
        return "ok" if got == percpu_expect(f, c[3]) else f"wrong-cpu-data {got!r}"
    if kind == "hashvars":
        if op == "load":
            type(e).hmap.load(e)
        elif op == "get":
            getattr(e, f"hv{c[2]}")
        else:
            setattr(e, f"hv{c[2]}", c[3])
        return "ok"
    return do_call(K, e, {"kind": "dict"}, c[1:]) if op != "iter" else do_iter(K, e, c)


def do_iter(K, e, c):
    c[2:] = [len(K.maps[e.tbl.fd].entries)]
    return "keys " + str(len([k for k in e.tbl]))


def run_family(case):
    """create the instances in the listed order, keep them alive, use them; per call the fds it touched"""
    from ebpfcat.bpf import ProgType
    fam = case["family"]
    K = EmuKernel(case["possible"], case["online"])
    outs, res, live, uses = [], [], [], []       # uses: (instance, first log entry, one past the last)

    def attempt(f, owner):
        mark = len(K.log)
        try:
            r = f()
        except Overrun:
            outs.append(show_calls(K.log[mark:]) + "OVERRUN")
            res.append("overrun")
            uses.append((owner, mark, len(K.log)))
            return False
        except Exception as ex:
            r = exc_name(ex)
        outs.append(show_calls(K.log[mark:]) + (r if r.startswith("=") else ""))
        res.append(r)
        uses.append((owner, mark, len(K.log)))
        return True

    def create(inst):
        mark = len(K.created)
        ss = [subs[m]() for m in inst["subs"]]
        e = classes[inst["cls"]](ProgType.XDP, "GPL", subprograms=ss)
        fds = [fd for fd, *_ in K.created[mark:] if fd is not None]
        live.append({"e": e, "subs": ss, "inst": inst, "fds": fds})
        for fd in fds:                      # environment: every CPU has written its own number everywhere
            m = K.maps[fd]
            if m.type == T_PERCPU_ARRAY:
                for cpu in range(m.ncpu):
                    m.percpu[cpu][0][:] = bytes([cpu + 1]) * m.vs

    def load(i):
        return attempt(lambda: live[i]["e"].load() and "ok" or "ok", i)

    with emulated(K):
        try:
            classes, subs, mp = build_family(fam)
            for inst in case["instances"]:
                create(inst)
        except Overrun:
            outs.append("OVERRUN")
            return K, geo_text(K), outs, res, live, uses
        except Exception as ex:
            outs.append("setup:" + exc_name(ex))
            return K, geo_text(K), outs, res, live, uses
        for i in range(len(live)):
            if not load(i):
                return K, geo_text(K), outs, res, live, uses
        for c in case["calls"]:
            if c[0] == "new":               # a further instance while the earlier ones are in use
                try:
                    create(c[1])
                except Overrun:
                    outs.append("OVERRUN")
                    break
                except Exception as ex:
                    outs.append("setup:" + exc_name(ex))
                    break
                if not load(len(live) - 1):
                    break
            elif not attempt(lambda: do_fcall(K, fam, live[c[0]], c), c[0]):
                break
    return K, geo_text(K), outs, res, live, uses


def declared_geometry(fam, inst, possible):
    """(type, key_size, value_size, bytes one lookup/update transfers) of the map instance `inst` owns, from the
    declaration alone (struct sizes; 'x' is 8 bytes); None: nothing declared, no map"""
    kind = fam["map"]
    size = lambda f: 8 if f == "x" else struct.calcsize(f)
    if kind in ("array", "percpu"):
        n = sum(size(f) for _, _, f in inst_fmts(fam, inst))
        vs = (n + 7) // 8 * 8
        if not vs:
            return None
        return (T_ARRAY, 4, vs, vs) if kind == "array" else (T_PERCPU_ARRAY, 4, vs, vs * possible)
    if kind == "hashvars":
        return (T_HASH, 1, 8, 8)
    d = inst_dict(fam, inst)
    ks, vs = sum(size(f) for f in d["key"]), sum(size(f) for f in d["value"])
    return (T_LRU_HASH if d["lru"] else T_HASH, ks, vs, vs)


def family_oracle(ctx, case, K, res, live, uses):
    fam = case["family"]
    for i, L in enumerate(live):
        want = declared_geometry(fam, L["inst"], case["possible"])
        got = [(K.maps[fd].type, K.maps[fd].ks, K.maps[fd].vs, K.maps[fd].value_bytes) for fd in L["fds"]]
        ctx.require(got == ([] if want is None else [want]), "an instance's map does not have the geometry of its own declaration",
                    case, f"instance {i}: created {got}, declared {want}", "instance-geometry")
    for owner, a, b in uses:
        want = declared_geometry(fam, live[owner]["inst"], case["possible"])
        for cmd, fd, kl, vl, err in K.log[a:b]:
            ctx.require(fd in live[owner]["fds"], "a call on one instance went to the map of another instance", case,
                        f"instance {owner} owns fds {live[owner]['fds']}, cmd {cmd} used fd {fd}", "foreign-map")
            if want is None:
                continue
            t, ks, vs, transfer = want
            okk = kl is None and cmd == 4 or (kl is not None and kl >= ks)
            okv = True if cmd == 3 else vl >= (ks if cmd == 4 else transfer)
            ctx.require(okk and okv, "buffer shorter than the declared geometry of the instance's own map", case,
                        f"instance {owner}: cmd {cmd} key {kl} value {vl}, declared key {ks} transfer {transfer}", "overrun")
    bad = [r for r in res if r.startswith("wrong-cpu-data")]
    ctx.require(not bad, "a per-CPU variable read for CPU c did not return CPU c's bytes (stride of another instance's map)", case,
                bad[:2], "percpu-stride")


def gen_dictgeo(rng):
    return {"key": gen_packed(rng, 1, 4), "value": gen_packed(rng, 1, 5), "size": rng.choice([1, 2, 3, 5, 31]), "lru": rng.random() < 0.2}


def gen_family(rng):
    kind = rng.choice(["array", "percpu", "percpu", "percpu", "hashvars", "dict", "dict"])
    possible = rng.choice([1, 2, 3, 4, 5, 8, 16, 17, 64, 130])
    case = {"possible": possible, "online": rng.choice([possible, possible, max(1, possible // 2), 1])}
    ninst = rng.randint(2, 5)
    if kind in ("array", "percpu"):
        fam = {"map": kind, "base": gen_fmts(rng, 0, 3), "derived": [gen_fmts(rng, 1, 4) for _ in range(rng.randint(0, 2))],
               "subs": [gen_fmts(rng, 1, 3) for _ in range(rng.randint(0, 2))]}
        if not fam["derived"] and not fam["subs"] and rng.random() < 0.8:
            fam[rng.choice(["derived", "subs"])].append(gen_fmts(rng, 1, 4))
        insts = [{"cls": rng.randint(0, len(fam["derived"])),
                  "subs": [rng.randrange(len(fam["subs"])) for _ in range(rng.randint(0, 2))] if fam["subs"] else []}
                 for _ in range(ninst)]
    elif kind == "hashvars":
        vs = [[f, fmt_values(rng, f)] for f in gen_fmts(rng, 1, 6, multi=False)]
        fam = {"map": kind, "base": vs, "derived": [None] * rng.randint(0, 2)}
        insts = [{"cls": rng.randint(0, len(fam["derived"])), "subs": []} for _ in range(ninst)]
    else:
        fam = {"map": kind, "base": gen_dictgeo(rng),
               "derived": [gen_dictgeo(rng) if rng.random() < 0.7 else None for _ in range(rng.randint(0, 2))]}
        insts = [{"cls": rng.randint(0, len(fam["derived"])), "subs": []} for _ in range(ninst)]
    n0 = ninst if rng.random() < 0.5 else rng.randint(1, ninst - 1)
    alive, pending = insts[:n0], insts[n0:]
    case["family"], case["instances"] = fam, list(alive)
    calls, pools = [], {}
    for _ in range(rng.randint(1, 14)):
        if pending and rng.random() < 0.3:
            alive.append(pending.pop(0))
            calls.append(["new", alive[-1]])
        else:
            c = gen_fcall(rng, fam, alive, possible, pools)
            if c:
                calls.append(c)
    for inst in pending:
        alive.append(inst)
        calls.append(["new", inst])
        for _ in range(2):
            c = gen_fcall(rng, fam, alive, possible, pools)
            if c:
                calls.append(c)
    case["calls"] = calls
    return case


def gen_fcall(rng, fam, insts, possible, pools):
    kind, i = fam["map"], rng.randrange(len(insts))
    if kind in ("array", "percpu"):
        vs = inst_fmts(fam, insts[i])
        if kind == "percpu" and (not vs or rng.random() < 0.5):
            return [i, "read"]
        if vs and kind == "array":
            return [i, rng.choice(["set", "get"]), rng.randrange(len(vs))]
        return [i, "item", rng.randrange(len(vs)), rng.randrange(possible)] if vs else None
    if kind == "hashvars":
        j = rng.randrange(len(fam["base"]))
        return ([i, "get", j] if rng.random() < 0.5 else
                [i, "load"] if rng.random() < 0.1 else [i, "set", j, fmt_values(rng, fam["base"][j][0])])
    d = inst_dict(fam, insts[i])
    pool = pools.setdefault(i, [[fmt_values(rng, f) for f in d["key"]] for _ in range(rng.randint(1, 3))])
    op = rng.choice(["setitem", "setitem", "getitem", "pop", "popd", "del", "iter"])
    if op == "setitem":
        return [i, op, rng.choice(pool), [fmt_values(rng, f) for f in d["value"]]]
    return [i, op] if op == "iter" else [i, op, rng.choice(pool)]


def scripted_families():
    """the orders of creation around one per-CPU / array descriptor, each instance read afterwards"""
    out = []
    for kind in ("percpu", "array"):
        fam = {"map": kind, "base": ["Q"], "derived": [["Q", "Q"]], "subs": [["H"], ["64I"]]}
        shapes = [{"cls": 1, "subs": []}, {"cls": 0, "subs": []}, {"cls": 0, "subs": [0]}, {"cls": 0, "subs": [1, 0]}, {"cls": 1, "subs": [1]}]
        for a in range(len(shapes)):
            for b in range(len(shapes)):
                insts = [shapes[a], shapes[b]]
                if kind == "percpu":
                    calls = [[0, "read"], [1, "read"], [0, "item", 0, 3], [1, "item", 0, 2], [0, "read"]]
                else:
                    calls = [[0, "set", 0], [1, "set", 0], [0, "get", 0], [1, "get", 0]]
                out.append({"possible": 4, "online": 4, "family": fam, "instances": insts, "calls": calls})
    fam = {"map": "percpu", "base": ["I"], "derived": [["Q", "5H"]], "subs": [["B"]]}
    out.append({"possible": 3, "online": 3, "family": fam, "instances": [{"cls": 1, "subs": [0]}],
                "calls": [[0, "read"], ["new", {"cls": 0, "subs": []}], [0, "read"], [0, "item", 2, 2], [1, "read"],
                          ["new", {"cls": 1, "subs": [0, 0]}], [1, "read"], [1, "item", 0, 1], [2, "read"], [0, "read"]]})
    fam = {"map": "percpu", "base": [], "derived": [["I"]], "subs": []}        # the instance created last declares nothing
    out.append({"possible": 2, "online": 2, "family": fam, "instances": [{"cls": 1, "subs": []}, {"cls": 0, "subs": []}],
                "calls": [[0, "read"], [1, "read"], [0, "item", 0, 1]]})
    return out


# ---- the property, evaluated by the emulated kernel (independent of the model) -----
def oracle(ctx, case, K, outs):
    ctx.require(K.violation is None, "a bpf() map command was handed a buffer shorter than the kernel accesses", case,
                K.violation, "overrun")
    # re-state the bound on the recorded lengths, from the geometry the kernel was given at create_map
    for cmd, fd, kl, vl, err in K.log:
        m = K.maps[fd]
        okk = kl is None and cmd == 4 or (kl is not None and kl >= m.ks)
        okv = True if cmd == 3 else vl >= (m.ks if cmd == 4 else m.value_bytes)
        ctx.require(okk and okv, "recorded buffer length below the map's geometry", case,
                    f"cmd {cmd} key {kl} value {vl} map {m.ks}/{m.vs} x{m.ncpu}", "overrun")


def run(ctx):
    cases = [gen(ctx.rng) for _ in range(ctx.n(4000, 60000))]
    cases.append({"possible": 4, "online": 4, "decl": {"kind": "hashvars", "vars": [["B", 1]] * 257},
                  "calls": [["load"], ["get", 0], ["get", 254], ["get", 255], ["set", 256, 1], ["set", 3, 9]]})
    cases += scripted_families() + [gen_family(ctx.rng) for _ in range(ctx.n(2500, 40000))]
    impl = []
    for c in cases:
        if "family" in c:
            K, geo, outs, res, live, uses = run_family(c)
            ctx.case(c, nontrivial=bool(K.log) and len(live) > 1, kind="family-" + c["family"]["map"])
            shapes = {(L["inst"]["cls"], tuple(L["inst"]["subs"])) for L in live}
            ctx.stats["family-distinct-shapes-%d" % min(len(shapes), 3)] += 1
        else:
            K, geo, outs, res = run_impl(c)
            ctx.case(c, nontrivial=bool(K.log), kind=c["decl"]["kind"])
        for r in res:
            ctx.stats["outcome-" + ("read" if r.startswith("=") else r.split(" ")[0])] += 1
        for cmd, *_ in K.log:
            ctx.stats["cmd-" + CMD.get(cmd, str(cmd))] += 1
        oracle(ctx, c, K, outs)
        if "family" in c:
            family_oracle(ctx, c, K, res, live, uses)
        impl.append(geo + " | " + " ; ".join(outs))
    model = ctx.drive(DRIVER, cases, "map calls")
    if model is not None:
        for c, i, m in zip(cases, impl, model):
            ctx.agree("commands, buffer lengths and geometry of " + (c["decl"]["kind"] if "decl" in c else "family " + c["family"]["map"]),
                      c, i, m)
    if not ctx.quick:
        kernel_validation(ctx, [c for c in cases if "decl" in c][:400])


def replay(ctx, case):
    if "family" in case:
        K, geo, outs, res, live, uses = run_family(case)
        oracle(ctx, case, K, outs)
        family_oracle(ctx, case, K, res, live, uses)
        return {"geometry": geo, "calls": outs, "outcomes": res, "violation": K.violation}
    K, geo, outs, res = run_impl(case)
    oracle(ctx, case, K, outs)
    return {"geometry": geo, "calls": outs, "outcomes": res, "violation": K.violation}


LEVEL_TEXT = ("Lean 4 proof over a hand-written model of every user-space map entry point (array-map mmap set/get, PerCPUReader.read, hash-variable "
              "get/set/load, Dict setitem/getitem/pop/delitem/iteration, register_sync_group lookup/update/delete): for all declarations (any formats, "
              "structure sizes, possible-CPU counts) and all API call sequences every issued bpf() map command passes key and value buffers at least as "
              "long as the geometry given to create_map (per-CPU: roundup8(value_size) x possible CPUs). Tied to /repo by exact correspondence of command, "
              "buffer lengths, geometry and mmap length with the real API driven under an emulated kernel that measures the Python buffer behind every "
              "address, and by regenerating command numbers and the hash-variable geometry/read length into the proofs. Several live instances around one "
              "shared (class-level) map descriptor: the model keeps the descriptor's size and what each instance stores for itself; for every family, creation "
              "order and interleaving of uses the issued commands equal a stateless specification (runHist_eq_spec), so every command of an instance is "
              "within and exactly of that instance's own geometry (C10_instances, use_calls_own); a read sized by the descriptor is refuted.")
LEVEL_NOTE = ("trusted: Lean kernel + standard axioms; hand model validated by differential runs; the emulated kernel's reading of the uapi contract "
              "(which bytes a command accesses); a violation is shown under the emulated kernel because the real kernel silently overruns")
TECHNIQUE = "Lean 4 case analysis per entry point, universally over formats and sizes + differential correspondence under an interposed bpf()"
DESIGN_REF = "§4 C10"
