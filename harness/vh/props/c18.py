"""C18 — sync groups give each terminal disjoint, exactly-sized process data.
Real `SyncGroupBase.allocate()` on real SyncGroup / FastSyncGroup objects with real EBPFTerminal /
AerotechBase terminals, several groups on one real master object (`EtherCat.get_fmmu_addr`, or
`ParallelEtherCat.get_fmmu_addr` over a real `FMMULock` without its file), compared exactly with the
Lean model `Ebv.Alloc.allocGroups`; the property's own text is evaluated on the real assembled
frame, parsed here independently of both."""
import struct

from .. import fsim

ID = "C18"
LEAN_MODULES = ["Ebv.Props.C18"]
MODEL_MODULES = ["Ebv.Model.Alloc"]
DRIVER = "Drivers/C18.lean"
THEOREMS = [
    "Ebv.C18.allocate_eq", "Ebv.C18.regions_sized_disjoint", "Ebv.C18.region_inside_datagram",
    "Ebv.C18.logical_consistent", "Ebv.C18.fmmu_sizes_le_inc", "Ebv.C18.window_contains",
    "Ebv.C18.allocGroups_windows", "Ebv.C18.windows_disjoint", "Ebv.C18.windows_disjoint_parallel",
    "Ebv.C18.oversize_rejected", "Ebv.C18.accepted_size",
]
TRUSTED = ["hand-written model Ebv.Alloc of SyncGroupBase.allocate / EBPFTerminal.allocate / AerotechBase.allocate / "
           "SterilePacket.append, append_writer, append_fmmu / get_fmmu_addr, tied by exact correspondence of pdo_assign, fmmu_maps, "
           "packet.data, on_the_fly, counters and sizes on generated terminal sets",
           "harness/vh/props/c18.py independent frame parser; Packet sizes, datagram count limit, logical_addr_inc and the window "
           "steps of EtherCat.get_fmmu_addr / FMMULock.get_next_addr regenerated into Ebv.Generated.Consts (the proofs evaluate them)"]
ASSUMPTIONS = ["terminals reach allocate() with pdo_in_sz/pdo_out_sz/offsets/position already set (apply_eeprom is C17's subject)",
               "Aerotech-style terminals declare integer in_size/out_size; their region size is that declared packet size",
               "logical addresses stay below 2^31 (the signed 32-bit field of the datagram header); a master serves fewer groups than "
               "its address space has windows (FMMULock.get_next_addr has no upper bound: C23)",
               "byte layout of the assembled frame beyond sizes/positions is C11's subject; the oracle parses the real frame itself"]
RULE = ("one case = one master (EtherCat with random next_logical_addr, or ParallelEtherCat over an FMMULock with random base) and 1..20 "
        "sync groups (SyncGroup / FastSyncGroup) of 0..17 terminals: pdo sizes 0..1480, rw flags OR-ed over 1..3 devices sharing terminals, "
        "FMMU / direct / Aerotech-style (declared sizes 0..600), random positions and offsets; families tuned to need exactly "
        "MAXSIZE-1..MAXSIZE+2 bytes and 14..17 datagrams; non-trivial = at least one group accepted with two or more regions")

MAXSIZE, PH, DH, DT, MAXDG = 1500, 16, 10, 2, 15   # only used to *tune* generated cases; the oracle reads the real class


# ---------------------------------------------------------------- generators

SIZES = [0, 0, 0, 1, 1, 2, 2, 3, 4, 6, 8, 9, 16, 40, 100, 255, 256, 257, 300, 700]


def gen_term(rng, pos, big=False):
    r = rng.random()
    kind = "fmmu" if r < 0.5 else "direct" if r < 0.85 else "aero"
    t = {"pos": pos, "in": rng.choice(SIZES), "out": rng.choice(SIZES), "inoff": rng.choice([0x1100, 0x1180, 0x1400, rng.randrange(0x1000, 0x2000)]),
         "outoff": rng.choice([0x1000, 0x1080, rng.randrange(0x1000, 0x2000)]), "rw": rng.random() < 0.6, "kind": kind}
    if big and rng.random() < 0.3:
        t[rng.choice(["in", "out"])] = rng.choice([1000, 1200, 1471, 1472, 1473, 1480])
    if kind == "aero":
        t["isz"] = rng.choice([0, 1, 2, 20, 50, 200, 600])
        t["osz"] = rng.choice([0, 1, 2, 30, 64, 200, 600])
        if t["in"] == 0 and rng.random() < 0.5:
            t["in"] = rng.choice([1, 100, 5000])       # the sync manager itself may be far larger than the declared packet
        if t["out"] == 0 and rng.random() < 0.5:
            t["out"] = rng.choice([1, 100, 5000])
    return t


def lens_of(t):
    """data lengths of the datagrams a terminal appends itself, and its FMMU needs (for tuning only)"""
    win = t["in"] != 0
    wout = t["rw"] and t["out"] != 0
    if t["kind"] == "fmmu":
        return [], t["in"] if win else 0, t["out"] if wout else 0
    if t["kind"] == "direct":
        return ([t["in"]] if win else []) + ([t["out"]] if wout else []), 0, 0
    return ([1] if win else []) + ([t["osz"], 1] if wout else []), (t["isz"] if win else 0), 0


def need_of(terms):
    ls, fi, fo = [], 0, 0
    for t in terms:
        a, b, c = lens_of(t)
        ls += a
        fi += b
        fo += c
    ls += ([fi] if fi else []) + ([fo] if fo else [])
    return PH + sum(x + DH + DT for x in ls), len(ls)


def gen_group(rng, positions):
    mode = rng.random()
    if mode < 0.62:
        n = rng.choice([0, 1, 1, 2, 2, 3, 3, 4, 5, 6, 8])
        terms = [gen_term(rng, positions.pop(), big=rng.random() < 0.1) for _ in range(n)]
    elif mode < 0.85:      # tuned to the size limit: needs MAXSIZE-1 .. MAXSIZE+2 bytes
        n = rng.randrange(1, 7)
        terms = [gen_term(rng, positions.pop()) for _ in range(n)]
        for t in terms:
            t["in"], t["out"] = min(t["in"], 300), min(t["out"], 300)
        k = rng.randrange(n)
        t = terms[k]
        t.update(kind=rng.choice(["fmmu", "direct"]), rw=True)
        t.pop("isz", None), t.pop("osz", None)
        field = rng.choice(["in", "out"])
        t[field] = 1
        need, _ = need_of(terms)
        target = MAXSIZE + rng.choice([-1, 0, 0, 1, 1, 2])
        if need <= target:
            t[field] = 1 + target - need
    else:                  # tuned to the datagram count limit: 14..17 datagrams
        target = rng.choice([14, 15, 15, 16, 16, 17])
        terms = []
        while need_of(terms)[1] < target and len(terms) < 40:
            t = gen_term(rng, positions.pop())
            t["in"], t["out"] = min(t["in"], 9), min(t["out"], 9)
            if t["kind"] == "aero":
                t["isz"], t["osz"] = min(t["isz"], 20), min(t["osz"], 30)
            terms.append(t)
    terms.sort(key=lambda t: t["pos"])
    # devices: every terminal used by 1..2 of 1..3 devices; the group's rw flag is the OR over its devices
    ndev = rng.randrange(1, 4)
    devs = [[] for _ in range(ndev)]
    order = list(range(len(terms)))
    rng.shuffle(order)
    for i in order:
        t = terms[i]
        users = rng.sample(range(ndev), rng.randrange(1, min(2, ndev) + 1))
        flags = [rng.random() < 0.5 for _ in users]
        if t["rw"]:
            flags[rng.randrange(len(flags))] = True
        else:
            flags = [False] * len(flags)
        for u, fl in zip(users, flags):
            devs[u].append([i, fl])
    return {"terms": terms, "devs": devs, "cls": "fast" if rng.random() < 0.25 else "slow"}


def gen_case(rng):
    master = "simple" if rng.random() < 0.7 else "parallel"
    if master == "simple":
        nxt = rng.choice([0, 0, 0, 0x1000, 0x5000, rng.randrange(0, 1 << 20)])
    else:
        nxt = rng.randrange(1, 1 << 9) << 22
    ngroups = rng.choice([1, 1, 2, 2, 3, 4]) if rng.random() < 0.9 else rng.randrange(8, 21)
    positions = rng.sample(range(1, 30000), 40 * ngroups + 5)
    return {"master": master, "next": nxt, "groups": [gen_group(rng, positions) for _ in range(ngroups)]}


# ---------------------------------------------------------------- the real code

def make_master(kind, nxt):
    from ebpfcat import ebpfcat as eb
    if kind == "simple":
        ec = eb.FastEtherCat("c18")
        ec.next_logical_addr = nxt
        return ec
    from ebpfcat import lock as lk
    ec = eb.ParallelEtherCat.__new__(eb.ParallelEtherCat)    # run() (lock files, XDP attach) is the environment
    ec.ethertype = 0x88A4
    L = lk.FMMULock.__new__(lk.FMMULock)                     # the lock file is the environment; base_addr is its state
    L.base_addr = nxt
    ec.fmmu_lock_file = L
    return ec


_aero_classes = {}


def aero_class(isz, osz):
    from ebpfcat.terminals import AerotechBase
    key = (isz, osz)
    if key not in _aero_classes:
        _aero_classes[key] = type(f"Aero_{isz}_{osz}", (AerotechBase,), {"in_size": isz, "out_size": osz})
    return _aero_classes[key]


def make_terminal(ec, t):
    from ebpfcat.ebpfcat import EBPFTerminal
    cls = aero_class(t["isz"], t["osz"]) if t["kind"] == "aero" else EBPFTerminal
    o = cls(ec)
    o.position = t["pos"]
    o.pdo_in_sz, o.pdo_out_sz, o.pdo_in_off, o.pdo_out_off = t["in"], t["out"], t["inoff"], t["outoff"]
    if t["kind"] != "aero":
        o.use_fmmu = t["kind"] == "fmmu"
    return o


def run_impl(case):
    """-> list per group of None (OverflowError) or the real sync group, plus the terminal objects"""
    from ebpfcat import ebpfcat as eb

    class Dev(eb.Device):
        def __init__(self, d):
            self.d = d

        def get_terminals(self):
            return self.d

    ec = make_master(case["master"], case["next"])
    out = []
    for g in case["groups"]:
        objs = [make_terminal(ec, t) for t in g["terms"]]
        devs = [Dev({objs[i]: fl for i, fl in d}) for d in g["devs"]]
        if g["cls"] == "fast":
            with fsim.fake_maps():
                sg = eb.FastSyncGroup(ec, devs)
        else:
            sg = eb.SyncGroup(ec, devs)
        try:
            sg.allocate()
        except OverflowError:
            out.append((None, objs))
            continue
        out.append((sg, objs))
    return out


def show_group(sg, objs):
    if sg is None:
        return "overflow"
    p = sg.packet
    assert list(sg.terminals) == objs, "terminal order differs from position order"
    pa = ";".join(",".join(f"{sm.value}:{v}" for sm, v in sg.pdo_assign[t].items()) for t in objs)
    fm = ";".join(",".join(f"{sm.value}:{v}" for sm, v in sg.fmmu_maps[t].items()) for t in objs)

    def dg(e):
        cmd, data, wkc, idx, *addr = e
        fill = 0 if not data else data[0] if data == bytes([data[0]]) * len(data) else "mixed"
        return ":".join(str(x) for x in [cmd.value, len(data), fill, wkc, idx, *addr])
    data = ";".join(dg(e) for e in p.data)
    otf = ",".join(f"{a}:{b}:{c.value}" for a, b, c in p.on_the_fly)
    cnt = ",".join(f"{a}:{b}" for a, b in p.counters.items())
    return (f"pa={pa} fm={fm} data={data} otf={otf} cnt={cnt} size={p.size} "
            f"fmmu={p.fmmu_in_size}:{p.fmmu_out_size}:{p.fmmu_in_count}:{p.fmmu_out_count} log={p.next_logical_addr}")


def show(res):
    return " || ".join(show_group(sg, objs) for sg, objs in res)


# ---------------------------------------------------------------- the property, on the real frame

def parse_frame(frame, ndgrams):
    """independent parser: data areas (start, stop, cmd, address bytes) of the datagrams after the identifier datagram"""
    from ebpfcat.ethercat import Packet
    areas = []
    pos = 2
    first = True
    while True:
        cmd, idx, addr, lf, irq = struct.unpack_from("<BB4sHH", frame, pos)
        n = lf & 0x7FF
        if not first:
            areas.append((pos + 10, pos + 10 + n, cmd, addr))
        pos += 10 + n + 2
        more = lf >> 15
        if first and ndgrams == 0:
            break              # the identifier datagram always announces a successor (C11)
        first = False
        if not more:
            break
    return areas, pos


def oracle(ctx, case, res):
    from ebpfcat.ethercat import Packet, ECCmd, SyncManager
    from ebpfcat.ebpfcat import SterilePacket
    IN, OUT = SyncManager.IN, SyncManager.OUT
    wire = []       # logical byte ranges on the wire and in the FMMUs, over all groups of this master
    for gi, (g, (sg, objs)) in enumerate(zip(case["groups"], res)):
        # what the terminals' sizes demand, computed from the case alone
        demand = []
        dlens, fi, fo = [], 0, 0
        for t in g["terms"]:
            aero = t["kind"] == "aero"
            d = {}
            if t["in"] != 0:
                d[IN] = (t["isz"] if aero else t["in"], "log" if t["kind"] in ("fmmu", "aero") else "dir")
            if t["rw"] and t["out"] != 0:
                d[OUT] = (t["osz"] if aero else t["out"], "log" if t["kind"] == "fmmu" else "dir")
            demand.append(d)
            for sm, (sz, how) in d.items():
                if how == "log" and sm is IN:
                    fi += sz
                elif how == "log":
                    fo += sz
                else:
                    dlens.append(sz)
                if aero:
                    dlens.append(1)
        dlens += ([fi] if fi else []) + ([fo] if fo else [])
        need = Packet.PACKET_HEADER + sum(x + Packet.DATAGRAM_HEADER + Packet.DATAGRAM_TAIL for x in dlens)
        toobig = need > Packet.MAXSIZE or len(dlens) > 15
        obs = f"group {gi}: needs {need} bytes in {len(dlens)} datagrams, " + ("rejected" if sg is None else "accepted")
        ctx.require((sg is None) == toobig, "a group too large for one frame is accepted, or a fitting one rejected", case, obs, "oversize")
        if sg is None:
            continue
        p = sg.packet
        frame = bytes(p.assemble(gi + 5, 0x88A4))
        ctx.require(p.size <= Packet.MAXSIZE and len(frame) == max(p.size, 46), "frame longer than the packet size / MAXSIZE", case, obs, "oversize")
        areas, end = parse_frame(frame, len(p.data))
        ctx.require(end == p.size or not p.data, "datagrams do not fill the frame", case, f"{obs}: parsed to {end}, size {p.size}", "inside")
        regions = []
        lbase = p.next_logical_addr
        for t, obj, d in zip(g["terms"], objs, demand):
            pa, fm = sg.pdo_assign[obj], sg.fmmu_maps[obj]
            o2 = f"{obs}; terminal at {t['pos']} {t['kind']}: pdo_assign {dict((k.name, v) for k, v in pa.items())} fmmu_maps {dict((k.name, v) for k, v in fm.items())}"
            ctx.require(set(pa) == set(d), "a non-empty (written) sync manager got no region, or an empty / unwritten one got one", case, o2, "sized")
            ctx.require(set(fm) == {sm for sm, (_, how) in d.items() if how == "log"}, "FMMU map for the wrong sync managers", case, o2, "logical")
            for sm, (sz, how) in d.items():
                if sm not in pa:
                    continue
                st = pa[sm]
                regions.append((st, st + sz, t["pos"], sm.name))
                if sz == 0:
                    continue
                if how == "dir":
                    cmd = ECCmd.FPRD if sm is IN else ECCmd.FPWR
                    addr = struct.pack("<hH", t["pos"], t["inoff"] if sm is IN else t["outoff"])
                    ok = [a for a in areas if a[0] == st and a[1] == st + sz and a[2] == cmd.value and a[3] == addr]
                    ctx.require(len(ok) == 1, "region is not exactly the data area of the terminal's own FPRD/FPWR datagram", case,
                                f"{o2}; {sm.name} [{st},{st + sz}) areas {[(a[0], a[1], a[2]) for a in areas]}", "inside")
                else:
                    cmd = ECCmd.LRD if sm is IN else ECCmd.LWR
                    ok = [a for a in areas if a[0] <= st and st + sz <= a[1] and a[2] == cmd.value]
                    ctx.require(len(ok) == 1, "region not inside the data area of the group's LRD/LWR datagram", case,
                                f"{o2}; {sm.name} [{st},{st + sz}) areas {[(a[0], a[1], a[2]) for a in areas]}", "inside")
                    if ok and sm in fm:
                        a = ok[0]
                        la, = struct.unpack("<i", a[3])
                        ctx.require(fm[sm] - la == st - a[0] and fm[sm] >= la, "logical address does not map to the region", case,
                                    f"{o2}; {sm.name} logical {fm[sm]} datagram at {la}, region {st} data {a[0]}", "logical")
                        wire.append((fm[sm], fm[sm] + sz, gi, f"fmmu {t['pos']} {sm.name}"))
        regions.sort()
        for a, b in zip(regions, regions[1:]):
            ctx.require(a[1] <= b[0], "process-data regions overlap", case, f"{obs}: {a} {b}", "overlap")
        for a in areas:
            if a[2] in (ECCmd.LRD.value, ECCmd.LWR.value):
                la, = struct.unpack("<i", a[3])
                wire.append((la, la + a[1] - a[0], gi, "LRD" if a[2] == ECCmd.LRD.value else "LWR"))
                ctx.require(a[1] - a[0] <= SterilePacket.logical_addr_inc, "FMMU datagram longer than half a window", case, f"{obs}: {a[:3]}", "window")
    # logical ranges: the LRD/LWR ranges on the wire never overlap (other groups, or the other direction of the
    # same group); neither do the ranges configured in the terminals' FMMUs
    for what in ("L", "fmmu"):
        rs = sorted(r for r in wire if r[3].startswith(what) and r[0] != r[1])
        for a, b in zip(rs, rs[1:]):
            if not ctx.require(a[1] <= b[0], "logical address ranges overlap", case, f"{a} {b}", "window"):
                return


def nontrivial(res):
    return any(sg is not None and sum(len(v) for v in sg.pdo_assign.values()) >= 2 for sg, _ in res)


def strip(case):
    """what the model sees"""
    return {"master": case["master"], "next": case["next"], "groups": [{"terms": g["terms"]} for g in case["groups"]]}


def fixed_cases():
    def T(pos, i, o, rw, kind, **kw):
        return dict({"pos": pos, "in": i, "out": o, "inoff": 0x1100, "outoff": 0x1000, "rw": rw, "kind": kind}, **kw)

    def G(*terms):
        return {"terms": list(terms), "devs": [[[i, t["rw"]] for i, t in enumerate(terms)]], "cls": "slow"}
    ex = G(T(1, 4, 2, True, "direct"), T(2, 100, 200, True, "aero", isz=20, osz=30), T(3, 4, 2, True, "fmmu"))
    return [
        {"master": "simple", "next": 0, "groups": [ex, G(T(9, 1473, 0, False, "fmmu")), ex]},
        {"master": "simple", "next": 0, "groups": [G(T(1, 1472, 0, False, "fmmu")), G(T(1, 0, 1472, True, "fmmu")), G(T(1, 1472, 0, False, "direct")),
                                                    G(T(1, 730, 730, True, "fmmu")), G(T(1, 730, 731, True, "fmmu"))]},
        {"master": "parallel", "next": 3 << 22, "groups": [G(*[T(i, 1, 0, False, "direct") for i in range(1, 16)]),
                                                           G(*[T(i, 1, 0, False, "direct") for i in range(1, 17)]), G()]},
        {"master": "simple", "next": 0, "groups": [G(T(i, 300, 300, True, "fmmu"), T(i + 1, 300, 300, True, "fmmu")) for i in range(10, 50, 2)]},
    ]


def run(ctx):
    cases = fixed_cases() + [gen_case(ctx.rng) for _ in range(ctx.n(1500, 100000))]
    impl = []
    for c in cases:
        res = run_impl(c)
        impl.append(show(res))
        kinds = "+".join(sorted({t["kind"] for g in c["groups"] for t in g["terms"]})) or "empty"
        ctx.case(strip(c), nontrivial=nontrivial(res), kind=f"{c['master']}:{kinds}")
        for sg, _ in res:
            ctx.stats["group-rejected" if sg is None else "group-accepted"] += 1
        oracle(ctx, c, res)
    model = ctx.drive(DRIVER, [strip(c) for c in cases], "allocate")
    if model is not None:
        for c, i, m in zip(cases, impl, model):
            ctx.agree("allocate: pdo_assign, fmmu_maps, packet.data, on_the_fly, counters, sizes, window", c, i, m)


def replay(ctx, case):
    res = run_impl(case)
    oracle(ctx, case, res)
    return {"groups": [show_group(sg, objs) for sg, objs in res]}


LEVEL_TEXT = ("Lean 4 proof over a hand-written model of SyncGroupBase.allocate (terminal allocate methods as scripts of primitive packet actions, "
              "append_fmmu, get_fmmu_addr): for every terminal list, allocate is the unchecked layout guarded by the frame limits; regions exist "
              "exactly for non-empty (written) sync managers, have exactly the terminal's size, are pairwise disjoint, lie inside the data area of "
              "the right FPRD/FPWR/LRD/LWR datagram inside the frame; FMMU logical addresses map to the same offsets; fmmu_in/out_size <= "
              "logical_addr_inc follows from MAXSIZE; for every sequence of groups of one master the windows are next+i*inc, contain all logical "
              "ranges of their group, and ranges of different groups are disjoint; a group is rejected iff the frame it needs exceeds MAXSIZE or "
              "15 datagrams. Tied to /repo by exact correspondence with the real allocate() on real group, terminal and master objects and by "
              "regenerated constants; the property text is also checked on the real assembled frame by an independent parser.")
LEVEL_NOTE = ("trusted: Lean kernel + propext/Classical.choice/Quot.sound; hand transcription Ebv.Alloc validated (not verified) by differential "
              "runs; regions of size 0 (Aerotech-style terminal declaring packet size 0) are not required to lie in a datagram; 32-bit range of "
              "logical addresses and exhaustion of the address space are outside the property")
TECHNIQUE = "Lean 4 induction over action/terminal/group lists (unchecked-layout refinement + ordering invariant) + exact differential correspondence"
DESIGN_REF = "§4 C18"
